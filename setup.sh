#!/bin/bash
# Build the fact exporter and warm the dependency artefacts (offline; nothing is fetched).
set -e
cd "$(dirname "$0")"
export CARGO_NET_OFFLINE=true
(cd driver && cargo +nightly build --offline 2>&1 | tail -2)
python3 -m analysis.export /repo
python3 -m analysis.export fixtures/positive --positive
echo "setup done"
