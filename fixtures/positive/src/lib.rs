//! Positive controls: one instance of every *forbidden* pattern whose expected count on scrut is
//! zero. Analysed by the same driver on every run; a rule that does not match its control fails
//! the check (guards against a rule silently matching nothing).
#![allow(dead_code, unused)]
