//! Positive controls: one instance of every *forbidden* pattern whose expected count on scrut is
//! zero. Analysed by the same driver on every run; a rule that does not match its control fails
//! the check (guards against a rule silently matching nothing).
#![allow(dead_code, unused)]

/// E-REC control: unbounded self-recursion, one frame per occurrence in the input
pub fn control_recursion(bytes: &[u8]) -> Vec<u8> {
    if let Some(index) = bytes.windows(2).position(|w| w == b"\r\n") {
        let mut v = bytes[..index].to_vec();
        v.extend(control_recursion(&bytes[index + 1..]));
        v
    } else {
        bytes.to_vec()
    }
}

/// E-UNIT control: a character count used as a byte offset of a str
pub fn control_char_index(line: &str) -> &str {
    for (index, ch) in line.chars().enumerate() {
        if ch == '{' {
            return &line[0..index];
        }
    }
    line
}

/// E-UNIT control (summary): returns `len - chars` and the caller slices with it
fn control_count_from_end(input: &str) -> usize {
    for (i, ch) in input.chars().rev().enumerate() {
        if !ch.is_whitespace() {
            return input.len() - i;
        }
    }
    0
}
pub fn control_char_index_via_helper(input: &str) -> &str {
    &input[..control_count_from_end(input)]
}

/// E-SITE controls: forbidden process / filesystem APIs
pub fn control_exit(code: i32) -> ! {
    std::process::exit(code)
}
pub fn control_remove(path: &std::path::Path) -> std::io::Result<()> {
    std::fs::remove_dir_all(path)
}
pub fn control_forget(v: Vec<u8>) {
    std::mem::forget(v)
}

/// total-parsing control: a panic on a fallible text conversion of input text
pub fn control_parse_expect(line: &str) -> i32 {
    line.trim().parse::<i32>().expect("digits only")
}
