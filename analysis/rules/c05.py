"""C05 — a test passes only if it completed with the expected exit code and output."""
from ..cfgq import (aggregates, bool_edges, cond_tree, place_key, promoted_tree, reach_consistent,
                    result_variant_blocks, variant_edges, switches, stmt_loc)
from ..facts import AnchorError, Origins, method_name, mname, peel, strip_mods

ACCEPT_WITHOUT_CODE = {"Detached"}  # detached executions are not waited for and push no outcome (R20.4)


def _exit_switches(v):
    """switches in `validate` on the discriminant of a place of type ExitStatus reached from the
    `output` argument"""
    out = []
    for bb, t in switches(v):
        ve, rv = variant_edges(v, bb)
        if ve is None:
            continue
        if strip_mods(rv["ty"]) in ("ExitStatus", "&ExitStatus") and "Code" in ve:
            out.append((bb, ve, rv))
    return out


def r5_1(ctx):
    v = ctx.prog.fn("TestCase::validate")
    sw = _exit_switches(v)
    if not sw:
        raise AnchorError("no switch on the discriminant of the output's ExitStatus in TestCase::validate")
    oks = [b for b, _, _ in result_variant_blocks(v, "Ok")]
    if not oks:
        raise AnchorError("TestCase::validate has no `Ok(..)` result")
    bb, ve, rv = sw[0]
    # dominating switch: must be the first thing deciding success
    pk = place_key(rv["place"])
    for variant, target in sorted(ve.items()):
        reach = reach_consistent(v, target, {pk: variant})
        hit = [o for o in oks if o in reach]
        where = v.loc(bb)
        if variant == "Code":
            continue
        if variant in ACCEPT_WITHOUT_CODE:
            ctx.ok("variant:" + variant, where, "ExitStatus::%s may reach Ok (accepted: not waited for)" % variant, obligation=False)
            continue
        path = v.path_to(target, hit[0]) if hit else None
        ctx.check(not hit, "variant:" + variant, where,
                  "no path from the ExitStatus::%s edge to Ok(())" % variant,
                  "an execution that ended as ExitStatus::%s (no exit code) can reach `Ok(())` in validate: the exit-code gate is bypassed" % variant,
                  {"edge": [bb, target], "path_blocks": path, "path_lines": [v.blocks[b]["term"]["sp"][0] for b in (path or [])]})
    # Code edge: every path to Ok takes the `exit_code == expected` edge
    code_t = ve["Code"]
    o = Origins(v)
    gate = None
    for sb, t in switches(v):
        be = bool_edges(v, sb)
        if be is None:
            continue
        tree = cond_tree(v, sb, o)
        if tree.kind == "bin" and tree.a in ("Ne", "Eq"):
            a, b = peel(tree.kids[0]), peel(tree.kids[1])
            sides = [a, b]
            has_payload = any(n.kind == "field" and n.kids and n.kids[0].kind == "variant" and n.kids[0].a == "Code" for n in sides)
            exp = [n for n in sides if n.kind == "call" and method_name(n.a) == "Option::unwrap_or"]
            if has_payload and exp:
                gate = (sb, tree.a, be, exp[0])
    if gate is None:
        ctx.bad("code-gate", v.loc(bb), "no comparison of the Code payload with `self.exit_code.unwrap_or(0)` found in validate")
        return
    sb, op, (t_true, t_false), exp = gate
    eq_target = t_false if op == "Ne" else t_true
    reach = reach_consistent(v, code_t, {pk: "Code"}, removed_edges=[(sb, eq_target)])
    hit = [x for x in oks if x in reach]
    ctx.check(not hit, "code-gate", v.loc(sb),
              "on the Code edge every path to Ok(()) takes the `exit_code == expected` edge",
              "Ok(()) is reachable on the Code edge without passing the `exit_code == expected` edge")
    # expected = self.exit_code.unwrap_or(0)
    src = peel(exp.kids[0])
    dflt = exp.kids[1]
    good = src.kind == "field" and src.a == "exit_code" and peel(src.kids[0]).kind == "arg" and dflt.kind == "const" and dflt.a.as_int() == 0
    ctx.check(good, "expected-default", v.loc(sb), "expected code is `self.exit_code.unwrap_or(0)`",
              "expected code is not `self.exit_code.unwrap_or(0)`: %s" % exp.show())


def r5_2(ctx):
    v = ctx.prog.fn("TestCase::validate")
    diffs = [bb for bb, t in v.calls() if (t.get("callee") or "").endswith("DiffTool::diff")]
    if len(diffs) != 1:
        raise AnchorError("expected one DiffTool::diff call in validate, found %d" % len(diffs))
    inv = list(aggregates(v, "TestCaseError", "InvalidExitCode"))
    if not inv:
        raise AnchorError("validate constructs no TestCaseError::InvalidExitCode")
    reach = v.reachable(diffs[0])
    for bb, si, rv in inv:
        ctx.check(bb not in reach and v.dominates(0, bb), "invalid-exit-before-diff", stmt_loc(v, bb, si),
                  "InvalidExitCode is decided before (never after) the output comparison",
                  "InvalidExitCode is constructed after the diff: a wrong exit code is no longer reported regardless of the output")
    # and the diff call is not reachable from the mismatch blocks
    for bb, si, rv in inv:
        ctx.check(diffs[0] not in v.reachable(bb), "mismatch-skips-diff", stmt_loc(v, bb, si),
                  "the exit-code mismatch path returns without consulting the diff")


def r5_3(ctx):
    v = ctx.prog.fn("TestCase::validate")
    o = Origins(v)
    call = [(bb, t) for bb, t in v.calls() if (t.get("callee") or "").endswith("DiffTool::diff")]
    bb, t = call[0]
    arg = peel(o.operand(t["args"][1]))
    streams = {}
    nodes = arg.kids if arg.kind == "phi" else [arg]
    for n in nodes:
        n = peel(n)
        if n.kind == "field" and n.a in ("stdout", "stderr") and peel(n.kids[0]).kind == "arg" and peel(n.kids[0]).a == 2:
            streams[n.a] = n
        else:
            ctx.bad("stream-source", v.loc(bb), "the diffed bytes do not come straight from output.stdout/output.stderr: %s" % n.show())
            return
    if set(streams) != {"stdout", "stderr"}:
        ctx.bad("stream-source", v.loc(bb), "the diffed stream is not selected between output.stdout and output.stderr (found %s)" % sorted(streams))
        return
    ctx.ok("stream-source", v.loc(bb), "diff input is output.stderr or output.stdout, unmodified")
    # the selecting condition: output_stream == Some(Stderr)
    sel = None
    for sb, st in switches(v):
        be = bool_edges(v, sb)
        if be is None:
            continue
        tree = cond_tree(v, sb, o)
        neg = False
        while tree.kind == "un" and tree.a == "Not":
            neg = not neg
            tree = tree.kids[0]
        if tree.kind == "call" and method_name(tree.a) in ("PartialEq::eq", "PartialEq::ne"):
            l, r = peel(tree.kids[0]), peel(tree.kids[1])
            if method_name(tree.a) == "PartialEq::ne":
                neg = not neg
            lf = l if (l.kind == "field" and l.a == "output_stream") else (r if (r.kind == "field" and r.a == "output_stream") else None)
            other = r if lf is l else l
            if lf is None:
                continue
            val = other
            if other.kind == "const":
                pt = promoted_tree(ctx.prog, v, other.a)
                if pt is not None:
                    val = peel(pt)
            sel = (sb, be, neg, val)
    if sel is None:
        # match form: `match self.config.output_stream { Some(Stderr) => &output.stderr, _ => &output.stdout }`
        inner = []
        for sb, st in switches(v):
            ve, rvv = variant_edges(v, sb)
            if ve is None or "Stderr" not in ve:
                continue
            names = [p_.get("n") for p_ in v.canon_place(rvv["place"])["p"] if isinstance(p_, dict)]
            if "output_stream" in names:
                inner.append((sb, ve))
        if len(inner) != 1:
            ctx.bad("stream-select", v.where(), "no `config.output_stream == Some(Stderr)` test / `Some(Stderr)` match arm selects the stream")
            return
        sb, ve = inner[0]
        e_err = ve["Stderr"]
        own = all(tg != e_err for vn, tg in ve.items() if vn != "Stderr")
        ctx.check(own, "stream-select-const", v.loc(sb), "the stream selector has an arm for exactly Some(Stderr)",
                  "the Some(Stderr) arm is shared with other output_stream values")
        for field in ("stderr", "stdout"):
            for bi, b in enumerate(v.blocks):
                for st in b["stmts"]:
                    if st["k"] == "assign" and st["rv"]["k"] == "ref":
                        fs = [p_["n"] for p_ in st["rv"]["place"]["p"] if isinstance(p_, dict) and "n" in p_]
                        if fs and fs[-1] == field and v.canon_place(st["rv"]["place"])["l"] == 2:
                            if field == "stderr":
                                good = bi in v.reachable(e_err) and bi not in v.reachable(0, removed_edges=[(sb, e_err)])
                            else:
                                good = bi not in v.reachable(e_err)
                            ctx.check(good, "stream-edge:" + field, v.loc(bi),
                                      "output.%s is selected exactly %s the Some(Stderr) arm" % (field, "in" if field == "stderr" else "outside"),
                                      "output.%s is selected on the wrong arm of the output_stream match (stdout/stderr swapped)" % field)
        return
    sb, (t_true, t_false), neg, val = sel
    shown = val.show()
    is_stderr = "Option::Some" in shown and "OutputStreamControl::Stderr" in shown
    ctx.check(is_stderr, "stream-select-const", v.loc(sb), "the stream selector compares with Some(Stderr)",
              "the stream selector compares output_stream with %s, not Some(Stderr)" % shown)
    stderr_edge = t_false if neg else t_true
    stdout_edge = t_true if neg else t_false
    # blocks assigning each stream
    def blocks_of(field):
        out = []
        for bi, b in enumerate(v.blocks):
            for st in b["stmts"]:
                if st["k"] == "assign" and st["rv"]["k"] == "ref":
                    fs = [p["n"] for p in st["rv"]["place"]["p"] if isinstance(p, dict) and "n" in p]
                    if fs and fs[-1] == field and v.canon_place(st["rv"]["place"])["l"] == 2:
                        out.append(bi)
        return out
    for field, edge, other_edge in (("stderr", stderr_edge, stdout_edge), ("stdout", stdout_edge, stderr_edge)):
        for bi in blocks_of(field):
            good = bi in v.reachable(edge) and bi not in v.reachable(0, removed_edges=[(sb, edge)])
            ctx.check(good, "stream-edge:" + field, v.loc(bi),
                      "output.%s is selected exactly on the `output_stream %s Some(Stderr)` edge" % (field, "==" if field == "stderr" else "!="),
                      "output.%s is selected on the wrong edge of the output_stream test (stdout/stderr swapped)" % field)


def r5_4(ctx):
    f = ctx.prog.impl_fn("ExitStatus", "From", "from", "subprocess::ExitStatus")
    want = {"Exited": "Code", "Other": "Code", "Signaled": "Unknown", "Undetermined": "Unknown"}
    sw = [(bb, variant_edges(f, bb)) for bb, t in switches(f)]
    sw = [(bb, ve, rv) for bb, (ve, rv) in sw if ve is not None and "subprocess::ExitStatus" in rv["ty"]]
    if len(sw) != 1:
        raise AnchorError("expected one switch on subprocess::ExitStatus in the exit status conversion, found %d" % len(sw))
    bb, ve, rv = sw[0]
    o = Origins(f)
    for variant, target in sorted(ve.items()):
        made = set()
        payload_ok = True
        for ab, si, arv in aggregates(f, "ExitStatus"):
            if "subprocess" in arv["adt"]:
                continue
            if ab in reach_consistent(f, target, {place_key(rv["place"]): variant}) and not all(
                    ab in reach_consistent(f, t2, {place_key(rv["place"]): v2}) for v2, t2 in ve.items()):
                made.add(arv["variant"])
                if arv["variant"] == "Code":
                    src = peel(o.operand(arv["ops"][0]))
                    payload_ok = src.kind == "field" and src.kids and src.kids[0].kind == "variant" and src.kids[0].a == variant
        exp = want.get(variant)
        if exp is None:
            ctx.check("Code" not in made, "from:" + variant, f.loc(bb), "unknown subprocess status %s does not become an exit code" % variant)
            continue
        ctx.check(made == {exp} and payload_ok, "from:" + variant, f.loc(bb),
                  "subprocess::ExitStatus::%s maps to ExitStatus::%s%s" % (variant, exp, " of its own payload" if exp == "Code" else ""),
                  "subprocess::ExitStatus::%s maps to %s (expected %s%s)" % (variant, sorted(made), exp, "" if payload_ok else ", payload not taken from the matched variant"))


def r5_4b(ctx):
    """SubprocessRunner::run: Timeout only on the `kind == TimedOut` edge, Unknown on its complement"""
    f = ctx.prog.impl_fn("SubprocessRunner", "Runner", "run")
    o = Origins(f)
    tests = []
    for sb, t in switches(f):
        be = bool_edges(f, sb)
        if be is None:
            continue
        tree = cond_tree(f, sb, o)
        if tree.kind == "call" and method_name(tree.a) == "PartialEq::eq":
            shown = tree.show()
            if "ErrorKind" in f.lty((t["discr"].get("move") or t["discr"].get("copy"))["l"]) or "TimedOut" in shown or "kind" in shown:
                args = [peel(k) for k in tree.kids]
                is_timed = False
                for a in args:
                    if a.kind == "const":
                        pt = promoted_tree(ctx.prog, f, a.a)
                        if pt is not None and "ErrorKind::TimedOut" in pt.show():
                            is_timed = True
                    if "ErrorKind::TimedOut" in a.show():
                        is_timed = True
                if is_timed:
                    tests.append((sb, be))
    # match form: `match kind { ErrorKind::TimedOut => .., _ => .. }`
    for sb, t in switches(f):
        ve, rvv = variant_edges(f, sb)
        if ve is not None and "TimedOut" in ve and "ErrorKind" in (rvv.get("ty") or ""):
            others = [tg for v_, tg in ve.items() if v_ != "TimedOut"]
            tests.append((sb, (ve["TimedOut"], others[0] if others else ve["TimedOut"])))
    timeouts = [(bb, si) for bb, si, rv in aggregates(f, "ExitStatus", "Timeout") if "subprocess" not in rv["adt"]]
    if not tests or not timeouts:
        raise AnchorError("SubprocessRunner::run: `kind == ErrorKind::TimedOut` test (%d) or ExitStatus::Timeout construction (%d) not found" % (len(tests), len(timeouts)))
    # a bounded wait for the child that expired is a timeout as well: the None edge of `Popen::wait_timeout(..)`, or the default
    # operand of `map_or` / `unwrap_or` on that result
    wt_none, wt_default = [], set()
    for sb, t in switches(f):
        ve, rv = variant_edges(f, sb)
        if ve is not None and set(ve) == {"None", "Some"} and o.place(rv["place"]).has_call("Popen::wait_timeout"):
            wt_none.append((sb, ve["None"]))
    for cb, t in f.calls():
        if mname(t) in ("Option::map_or", "Option::unwrap_or") and o.operand(t["args"][0]).has_call("Popen::wait_timeout"):
            for n in o.operand(t["args"][1]).walk():
                if n.kind == "agg" and n.at is not None:
                    wt_default.add(n.at[0])
    for bb, si in timeouts:
        good = any(bb in f.reachable(tt) and bb not in f.reachable(0, removed_edges=[(sb, tt)]) for sb, (tt, tf) in tests)
        good = good or any(bb in f.reachable(tn) and bb not in f.reachable(0, removed_edges=[(sb, tn)]) for sb, tn in wt_none) or bb in wt_default
        ctx.check(good, "timeout-edge", stmt_loc(f, bb, si), "ExitStatus::Timeout is constructed only on a `kind == TimedOut` edge",
                  "ExitStatus::Timeout is constructed without a dominating `kind == ErrorKind::TimedOut` edge")
    # the non-timeout error path must not fabricate an exit code
    for sb, (tt, tf) in tests:
        codes = [(bb, si) for bb, si, rv in aggregates(f, "ExitStatus", "Code") if "subprocess" not in rv["adt"] and bb in f.reachable(tf) and bb not in f.reachable(0, removed_edges=[(sb, tf)])]
        ctx.check(not codes, "error-path-no-code", f.loc(sb), "the read-error path that is not a timeout constructs no literal exit code",
                  "a communicate() error that is not a timeout is turned into ExitStatus::Code")


NOT_SIGNALS = {"EXIT", "0", "ERR", "DEBUG", "RETURN"}


def r5_7(ctx):
    """the wrapper script catches no signal: its only handler ends with `exit <code of the last command>`, so a shell that handled
    SIGTERM / SIGHUP / SIGINT there would end *normally* (often with 0) and the Signaled status - which scrut maps to `no exit
    code`, never a success - would not reach SubprocessRunner at all"""
    import re, shlex
    from . import c12
    tpl = c12.template(ctx.prog)
    where = "src/executors/bash_runner.template"
    segs = c12._segments(tpl.replace("{shell_expression}", ":"))
    traps = [x for x in segs if re.match(r"^trap(\s|$)", x)]
    if not traps:
        raise AnchorError("no trap statement in the bash runner template")
    for i, x in enumerate(traps):
        try:
            words = shlex.split(x)[1:]
        except ValueError:
            words = x.split()[1:]
        while words and words[0].startswith("-") and words[0] not in ("-",):
            words = words[1:]           # options (-p, -l, --)
        handler, specs = (words[0], words[1:]) if words else (None, [])
        caught = [w for w in specs if w.upper() not in NOT_SIGNALS and handler != "-"]
        ctx.check(not caught, "no-signal-handler:%s" % " ".join(specs or ["-"]), where,
                  "`%s` handles no signal (EXIT only): a shell killed by a signal dies of it and is seen as Signaled" % x,
                  "`%s` installs a handler for %s: the handler ends with `exit $?`-style code of the last *completed* command, so a shell hit by that signal exits "
                  "normally (0 after `kill $$`), the rest of the shell expression never runs and the test case is reported as succeeded when the output so far matches" % (x, caught))


def run(ctx):
    from . import c16
    ctx.run_rule("R5.6", "execution and validation use the same effective configuration (e.g. output_stream): layer order at every merge call site, the executor keeps the test case layer above the document defaults (shared with C16 R16.3) [E-SITE]", c16.r16_3, floor=9)
    ctx.run_rule("R5.1", "validate: no ExitStatus variant other than Code/Detached reaches Ok(()); on Code every path to Ok takes the `exit_code == self.exit_code.unwrap_or(0)` edge [E-PATH]", r5_1, floor=5)
    ctx.run_rule("R5.2", "validate: InvalidExitCode is decided before and independently of the diff [E-PATH]", r5_2, floor=2)
    ctx.run_rule("R5.3", "validate: the diffed stream is output.stderr exactly on output_stream == Some(Stderr), output.stdout otherwise [E-FLOW]", r5_3, floor=4)
    ctx.run_rule("R5.4", "subprocess exit mapping: Signaled/Undetermined never become Code; Exited/Other carry their own payload [E-TABLE]", r5_4, floor=4)
    ctx.run_rule("R5.4b", "SubprocessRunner::run: Timeout only on the kind==TimedOut edge; other read errors yield no exit code [E-PATH]", r5_4b, floor=2)
    ctx.run_rule("R5.7", "the bash wrapper handles no signal (its handler is armed for EXIT only): death by signal stays visible as Signaled => Unknown [template analyzer]", r5_7, floor=1)
    from . import c13
    ctx.run_rule("R5.8", "single-script execution: test cases that disagree on output_stream are rejected by compile_testcase - the stream the script captures is the stream validation reads (shared with C13 R13.11) [E-PATH]", lambda c: c13.consistency_gates(c, ["output_stream"]), floor=1)
    from . import c07
    ctx.run_rule("R5.9", "the expected exit code is the one written for the test case (0 when none): no parsed exit code line survives the end of a block / run - end_testcase clears it on every Ok path and is not skipped by a state query (shared with C06 R6.13 / C07 R7.6) [E-PATH]", c07.parser_state_rules, floor=2)
    from . import c20
    ctx.run_rule("R5.10", "a detached execution is not reported as succeeded or failed: validate is never called on its placeholder output (shared with C20 R20.11) [E-PATH]", c20.r20_11, floor=2)
