"""C01 — no false pass: accepted output really is described by the expectations."""
from ..casefold import cases
from ..cfgq import bool_edges, cond_tree, place_key, result_variant_blocks, stmt_loc, switches, variant_edges
from ..facts import AnchorError, Origins, callee_name, method_name, mname, peel, strip_mods
from . import diffstate

TEXT = {
    "R1.1": "the line cursor advances / a run opens only over a matched, recorded line [E-STATE on DiffTool::diff]",
    "R1.2": "the expectation cursor advances only past a recorded or optional expectation; an open run is recorded first and closed before the next iteration [E-STATE]",
    "R1.3": "cursor jumps are preceded by the records for everything skipped (ranged Unmatched with !optional filter, UnexpectedLines) [E-STATE]",
    "R1.4": "Matched records: ranged only while a run is open, single-line only on a matching pair [E-STATE]",
    "R1.5": "function exit: open run recorded, remaining expectations and lines reported, the pushed Vec is the result [E-STATE]",
}


def report(ctx, prefixes):
    m = diffstate.analyse(ctx.prog)
    n = 0
    for (rule, key), v in sorted(m.obl.items()):
        if rule not in prefixes:
            continue
        if ctx.rule != rule:
            continue
        n += 1
        if v["ok"]:
            ctx.ok(key, v["where"], v["what"] + " (%d abstract state(s))" % v["n"])
        else:
            ctx.bad(key, v["where"], v["what"])
    return m, n


def _mk(rule):
    def fn(ctx):
        m, n = report(ctx, {rule})
        ctx.note("%s: %d (block, abstract state) pairs, %d transitions explored over DiffTool::diff" % (rule, m.states, m.transitions))
    return fn


def _counter_form(ctx, prog, h, r):
    """accepted alternative form: `self.count_matched < self.lines.len()` (or `!=`), provided Diff::new counts exactly one
    per MatchedExpectation record over all records (then count_matched == lines.len() iff every record is Matched)"""
    from .c14 import _counter_incs, _counter_writes
    from ..cfgq import explore
    if not (r.kind == "bin" and r.a in ("Lt", "Ne")):
        return False
    a, b = peel(r.kids[0]), peel(r.kids[1])
    ok_shape = a.kind == "field" and a.a == "count_matched" and b.kind == "call" and method_name(b.a).endswith("len") and any(n.kind == "field" and n.a == "lines" for n in b.walk())
    if not ok_shape:
        return False
    new = prog.fn("Diff::new")
    bodies = [new] + prog.closures_of(new)
    incs = []
    for body in bodies:
        for bb, si, nm in _counter_incs(body):
            if nm == "count_matched":
                incs.append((body, bb))
        for bb, si, nm in _counter_writes(body, prefix="count_matched"):
            if (body, bb) not in incs and body.blocks[bb]["stmts"][si]["rv"]["k"] != "use" or False:
                pass
    writes = [(body, bb) for body in bodies for bb, si, nm in _counter_writes(body, prefix="count_matched")
              if not (body is new and body.blocks[bb]["stmts"][si]["rv"]["k"] == "use" and "const" in body.blocks[bb]["stmts"][si]["rv"]["op"])]
    good = len(incs) == 1 and len(writes) == 1
    if good:
        body, bb = incs[0]
        sw = None
        for sb, st in switches(body):
            ve, rv = variant_edges(body, sb)
            if ve is not None and "MatchedExpectation" in ve:
                sw = (sb, ve, rv)
        good = sw is not None
        if good:
            sb, ve, rv = sw
            pk = place_key(rv["place"])
            mine = set(explore(body, ve["MatchedExpectation"], {pk: "MatchedExpectation"}).keys())
            others = set()
            for v, tg in ve.items():
                if v != "MatchedExpectation":
                    others |= set(explore(body, tg, {pk: v}).keys())
            good = bb in mine - others
    ctx.check(good, "counter-form", new.where(),
              "has_differences compares count_matched with lines.len(), and Diff::new counts exactly 1 per MatchedExpectation record",
              "has_differences is `count_matched < lines.len()` but Diff::new does not count exactly one per MatchedExpectation record (increments: %d, other writes: %d): "
              "a multiline match of k lines cancels k-1 failure records and the test passes" % (len(incs), len(writes) - len(incs)))
    o = Origins(new)
    fe = [t for _, t in new.calls() if mname(t) in ("Iterator::for_each", "Iterator::next")]
    srcs = [o.operand(t["args"][0]) for t in fe]
    filt = [m for sd in srcs for m in (method_name(c) for c in sd.call_names()) if m in ("Iterator::skip", "Iterator::take", "Iterator::filter", "Iterator::step_by")]
    ctx.check(fe and not filt, "counter-form-all-records", new.where(), "Diff::new visits every record")
    return True


def r1_6(ctx):
    prog = ctx.prog
    h = prog.fn("Diff::has_differences")
    o = Origins(h)
    r = o.local(0)
    if _counter_form(ctx, prog, h, r):
        for k in range(4):
            ctx.ok("counter-form-note#%d" % k, h.where(), "counter form of has_differences accepted (see counter-form)", obligation=False)
        cb = None
    else:
        ok = r.kind == "call" and method_name(r.a) == "Iterator::any" and any(n.kind == "field" and n.a == "lines" for n in r.kids[0].walk()) \
            and not [m for m in (method_name(c) for c in r.kids[0].call_names()) if m in ("Iterator::skip", "Iterator::take", "Iterator::filter")]
        ctx.check(ok, "any-over-all-lines", h.where(), "has_differences == lines.iter().any(..) over all records", "has_differences is %s" % r.show()[:120])
        cl = peel(r.kids[1]) if r.kind == "call" and len(r.kids) > 1 else None
        cb = prog.body_by_def(cl.a[0][len("closure "):], h.crate) if cl is not None and cl.kind == "agg" and cl.a[0].startswith("closure ") else None
        if cb is None:
            ctx.bad("predicate", h.where(), "cannot find the predicate closure of has_differences")
    if cb is not None:
        adt = prog.adt("DiffLine", crate="scrut-lib")
        names = [v["name"] for v in adt["variants"]]
        for idx, v in enumerate(names):
            val = _pred_value(cb, v)
            want = v != "MatchedExpectation"
            ctx.check(val == want, "predicate:" + v, cb.where(), "a %s record %s a difference" % (v, "is" if want else "is not"),
                      "has_differences treats a %s record as %s" % (v, {True: "a difference", False: "no difference", None: "undetermined"}[val]))
    # validate: Ok only on has_differences == false
    v = prog.fn("TestCase::validate")
    ov = Origins(v)
    oks = [b for b, _, _ in result_variant_blocks(v, "Ok")]
    hd = [(bb, t) for bb, t in v.calls() if (callee_name(t) or "").endswith("Diff::has_differences")]
    if len(hd) != 1 or not oks:
        ctx.bad("validate-gate", v.where(), "validate does not consult has_differences exactly once (%d) or has no Ok result" % len(hd))
        return
    bb, t = hd[0]
    be = bool_edges(v, t["target"])
    if be is None:
        ctx.bad("validate-gate", v.loc(bb), "the result of has_differences is not branched on")
        return
    tt, tf = be
    ctx.check(all(b not in v.reachable(0, removed_edges=[(t["target"], tf)]) for b in oks), "validate-gate", v.loc(t["target"]),
              "validate returns Ok(()) only on the `has_differences() == false` edge", "Ok(()) is reachable without the `no differences` edge: the diff result is ignored")
    src = ov.operand(t["args"][0])
    ctx.check(src.has_call("DiffTool::diff") and any(n.kind == "field" and n.a == "expectations" for n in src.walk()), "validate-diff-source", v.loc(bb),
              "the judged Diff is DiffTool::new(self.expectations.clone()).diff(stream)", "has_differences is asked of %s" % src.show()[:120])
    mal = [b for b, si, rv in __import__("analysis.cfgq", fromlist=["aggregates"]).aggregates(v, "TestCaseError", "MalformedOutput")]
    ctx.check(bool(mal) and all(b in v.reachable(tt) and b not in v.reachable(0, removed_edges=[(t["target"], tt)]) for b in mal), "validate-malformed", v.loc(t["target"]),
              "differences are mapped to Err(MalformedOutput)")


def _pred_value(cb, variant):
    """boolean the closure returns for a DiffLine of the given variant (path-sensitive exploration)"""
    from ..cfgq import explore
    sw = None
    for sb, st in switches(cb):
        ve, rv = variant_edges(cb, sb)
        if ve is not None and variant in ve:
            sw = (sb, ve, rv)
            break
    if sw is None:
        return None
    sb, ve, rv = sw
    seen = explore(cb, ve[variant], {place_key(rv["place"]): variant})
    # the returned value: `_0 = Not(move _x)` / `_0 = move _x` with _x a constant bool on this path
    rets = [b for b in seen if cb.blocks[b]["term"]["k"] == "return"]
    vals = set()
    for rb in rets:
        for st in seen[rb]:
            bf = dict(st[1])
            # find assignment of _0 in blocks on the way: evaluate last statement of return block chain
            for b2 in seen:
                for s2 in cb.blocks[b2]["stmts"]:
                    if s2["k"] == "assign" and s2["lhs"]["l"] == 0 and not s2["lhs"]["p"]:
                        rvv = s2["rv"]
                        if rvv["k"] == "un" and rvv["op"] == "Not":
                            src = rvv["a"].get("copy") or rvv["a"].get("move")
                            x = _const_on_path(cb, seen, src["l"])
                            if x is not None:
                                vals.add(not x)
                        elif rvv["k"] == "use":
                            src = rvv["op"].get("copy") or rvv["op"].get("move")
                            if src is not None:
                                x = _const_on_path(cb, seen, src["l"])
                                if x is not None:
                                    vals.add(x)
                            elif "const" in rvv["op"]:
                                vals.add(bool(int(rvv["op"]["const"]["val"]["bits"])))
    return vals.pop() if len(vals) == 1 else None


def _const_on_path(cb, seen, local):
    vals = set()
    for b in seen:
        for st in cb.blocks[b]["stmts"]:
            if st["k"] == "assign" and st["lhs"]["l"] == local and not st["lhs"]["p"]:
                rv = st["rv"]
                if rv["k"] == "use" and "const" in rv["op"] and rv["op"]["const"]["ty"] == "bool":
                    vals.add(bool(int(rv["op"]["const"]["val"]["bits"])))
                else:
                    vals.add(None)
    return vals.pop() if len(vals) == 1 else None


def r1_7(ctx):
    e = ctx.prog.fn("Expectation::matches")
    o = Origins(e)
    r = o.local(0)
    good = r.kind == "call" and method_name(r.a) == "Rule::matches" and peel(r.kids[1]).kind == "arg" and peel(r.kids[1]).a == 2 and "rule" in peel(r.kids[0]).show()
    ctx.check(good, "expectation-forwards", e.where(), "Expectation::matches(line) == self.rule.matches(line): not negated, not combined, line unchanged",
              "Expectation::matches is %s" % r.show()[:160])


TRIMMING = ("trim", "trim_end", "trim_start", "trim_ascii", "trim_ascii_end", "trim_ascii_start", "is_whitespace", "is_ascii_whitespace",
            "is_ascii_control", "is_control", "lines", "split_whitespace", "to_lowercase", "to_uppercase", "to_ascii_lowercase", "to_ascii_uppercase")


def _all_consts(body):
    """(ConstVal, where) of every constant operand in the body, plus the values of switches over u8 / char"""
    from ..facts import ConstVal
    out = []

    def rec(j, where):
        if isinstance(j, dict):
            c = j.get("const")
            if isinstance(c, dict) and "ty" in c:
                out.append((ConstVal(c), where))
            for v in j.values():
                rec(v, where)
        elif isinstance(j, list):
            for v in j:
                rec(v, where)
    for bi, blk in enumerate(body.blocks):
        if blk["cleanup"]:
            continue
        for si, st in enumerate(blk["stmts"]):
            rec(st, stmt_loc(body, bi, si))
        rec(blk["term"], body.loc(bi))
    return out


def r1_9(ctx, names=("trim_newlines", "ends_in_newline"), tag="newline-only", min_bodies=3):
    """what the rules compare is `trim_newlines(line)`: that helper removes line feeds and nothing else - no other character is named in
    it (a `\r` kept by keep_crlf, blanks, tabs are content that the expectation has to describe)"""
    prog = ctx.prog
    bodies = [b for b in prog.bodies if b.crate == "scrut-lib" and b.promoted is None and ".rs" in (b.where() or "") and "src/newline.rs" in b.where()
              and any(w in b.path.split("::")[-1] or (b.kind == "Closure" and w in b.path) for w in names)]
    if len(bodies) < min_bodies:
        raise AnchorError("src/newline.rs: expected %d function(s) named %s, found %s" % (min_bodies, names, [b.npath for b in bodies]))
    nconst = 0
    for b in bodies:
        odd, seen = [], []
        consts = _all_consts(b)
        for pb in prog.promoted_of(b):      # `Some(&b'\n')` and the like live in promoted constants of the body
            consts += [(c, b.where()) for c, _ in _all_consts(pb)]
        for c, where in consts:
            v = None
            if c.ty in ("u8", "char"):
                v = c.as_int()
                v = None if v is None else bytes([v]) if v < 256 else chr(v).encode()
            elif c.ty in ("&str", "&[u8]") or c.ty.startswith("&[u8;"):
                v = c.as_bytes()
            if v is None:
                continue
            seen.append(v)
            if v.strip(b"\n"):
                odd.append((v, where))
        for bi, blk in enumerate(b.blocks):
            t = blk["term"]
            if t["k"] == "switch" and not blk["cleanup"]:
                pl = t["discr"].get("move") or t["discr"].get("copy")
                if pl is not None and b.lty(pl["l"]) in ("u8", "char"):
                    for val in t.get("values", []):
                        seen.append(bytes([int(val)]) if int(val) < 256 else chr(int(val)).encode())
                        if int(val) != 10:
                            odd.append((seen[-1], b.loc(bi)))
        calls = sorted({mname(t) for _, t in b.calls() if mname(t).split("::")[-1] in TRIMMING})
        nconst += len(seen)
        ctx.check(not odd and not calls, tag + ":" + b.npath.replace("newline::", ""), odd[0][1] if odd else b.where(),
                  "%s names no character but `\\n` (%d constant(s)) and calls no whitespace trimming" % (b.npath, len(seen)),
                  "%s also names %s%s: a line that ends in such a character is compared / written without it, so e.g. `foo\\r\\n` (keep_crlf) is accepted by "
                  "`foo (glob)` / `fo+ (regex)` / `foo (escaped)` although the expectation does not describe the carriage return" % (
                      b.npath, sorted({repr(v) for v, _ in odd}), (" via " + ", ".join(calls)) if calls else ""))
    if nconst < 2:
        ctx.bad("newline-consts", "src/newline.rs", "only %d character constants seen in the newline trimmers (>= 2 expected: `\\n` in ends_in_newline and strip_suffix)" % nconst)


def run(ctx):
    for rule in ("R1.1", "R1.2", "R1.3", "R1.4", "R1.5"):
        ctx.run_rule(rule, TEXT[rule], _mk(rule), floor={"R1.1": 3, "R1.2": 6, "R1.3": 4, "R1.4": 4, "R1.5": 4}[rule])
    ctx.run_rule("R1.6", "has_differences is true iff some record is not MatchedExpectation; validate returns Ok only on its false edge [E-PATH]", r1_6, floor=6)
    ctx.run_rule("R1.7", "Expectation::matches forwards to the rule unchanged [E-FLOW]", r1_7, floor=1)
    from . import c04
    ctx.run_rule("R1.8", "a Matched record is only as good as Rule::matches: per Rule impl the line reaches the whole-line comparator through the documented transforms only (shared with C04 R4.2) [E-FLOW]", c04.r4_2, floor=8)
    ctx.run_rule("R1.9", "the compared text is the line without its line feed(s) only: trim_newlines / ends_in_newline name no character but `\\n` and call no whitespace trimming [E-TABLE of constants]", r1_9, floor=3)
    from . import c02
    ctx.run_rule("R1.10", "what has_differences looks at is everything DiffTool::diff recorded: Diff::new keeps every record (shared with C02 R2.6) [E-FLOW]", c02.r2_6, floor=1)
