"""C15 — the skip exit code skips the whole document, and nothing else does."""
from ..cfgq import aggregates, bool_edges, cond_tree, explore, place_key, stmt_loc, switches, variant_edges
from ..facts import AnchorError, Origins, callee_name, method_name, mname, peel, strip_mods

FILTERS = {"Iterator::skip", "Iterator::take", "Iterator::filter", "Iterator::step_by", "Iterator::skip_while", "Iterator::take_while", "Iterator::filter_map"}


def all_aggregates(prog, adt, variant):
    for b in prog.bodies:
        if b.promoted is not None or b.auto_derived:
            continue
        for bb, si, rv in aggregates(b, adt, variant):
            yield b, bb, si, rv


def _eq_guard(f, o, bb):
    """guards on the way to block bb: list of (switch bb, description) for bool switches whose taken
    edge is needed to reach bb"""
    out = []
    for sb, st in switches(f):
        be = bool_edges(f, sb)
        if be is None:
            continue
        tt, tf = be
        for edge, val in ((tt, True), (tf, False)):
            if bb in f.reachable(edge) and bb not in f.reachable(0, removed_edges=[(sb, edge)]):
                out.append((sb, val, cond_tree(f, sb, o)))
    return out


def r15_1(ctx):
    prog = ctx.prog
    sites = list(all_aggregates(prog, "ExecutionError", "Skipped"))
    by_fn = {}
    for b, bb, si, rv in sites:
        by_fn.setdefault(b.npath, []).append((b, bb, si, rv))
    allowed = {"<StatefulExecutor as Executor>::execute_all", "<BashScriptExecutor as Executor>::execute_all"}
    ctx.check(set(by_fn) <= allowed and len(by_fn) == 2, "skip-sites", "-", "ExecutionError::Skipped is constructed only by the two executors (%d sites)" % len(sites),
              "ExecutionError::Skipped is constructed in %s" % sorted(by_fn))
    for fn, lst in sorted(by_fn.items()):
        f = lst[0][0]
        o = Origins(f)
        for k, (b, bb, si, rv) in enumerate(sorted(lst, key=lambda x: x[1])):
            guards = _eq_guard(f, o, bb)
            ok = False
            why = "no guard"
            eq_edge = None
            for sb, val, tree in guards:
                t = tree
                hit = False
                if t.kind == "bin" and t.a in ("Eq", "Ne") and val == (t.a == "Eq"):
                    sides = [peel(k2) for k2 in t.kids]
                    has_skip = any(s.has_call("TestCaseConfig::get_skip_document_code") for s in sides)
                    has_code = any(any(n.kind == "variant" and n.a == "Code" for n in s.walk()) for s in sides)
                    if has_skip and has_code:
                        ok, why, hit = True, "code == get_skip_document_code()", True
                if t.kind == "call" and method_name(t.a) in ("PartialEq::eq",) and val:
                    sides = [peel(k2) for k2 in t.kids]
                    shown = " ".join(s.show() for s in sides)
                    if "get_skip_document_code" in shown and "ExitStatus::Code" in shown:
                        ok, why, hit = True, "exit_code == Code(skip_document_code)", True
                if hit:
                    be_ = bool_edges(f, sb)
                    eq_edge = (sb, be_[0] if val else be_[1])
            if eq_edge is not None:
                # sufficiency: once the exit code equals the skip code nothing else is consulted - every path from that edge constructs Skipped
                # (no further condition such as the test case's own expected exit code can turn the skip into an ordinary result)
                sb_, e_ = eq_edge
                tails = {b_ for b_, h_ in f.back_edges()}
                esc = set(f.reachable(e_, removed_blocks=[bb]))
                leaks = sorted((esc & tails) | (esc & set(f.return_blocks())))
                ctx.check(not leaks, "skip-unconditional:%s#%d" % (f.impl_self.split("::")[-1], k), f.loc(sb_),
                          "an exit code equal to the skip code always skips the document (no further condition between the comparison and Err(Skipped))",
                          "after `exit code == skip code` holds, the executor can still continue without reporting Skipped (blocks %s): a further condition "
                          "decides whether the document is skipped" % leaks)
            # or: inside the ExitStatus::Skipped arm
            if not ok:
                for sb, st in switches(f):
                    ve, rvv = variant_edges(f, sb)
                    if ve is not None and strip_mods(rvv["ty"]) == "ExitStatus" and "Skipped" in ve:
                        back = f.back_edges()
                        reg = set(explore(f, ve["Skipped"], {place_key(rvv["place"]): "Skipped"}, removed_edges=back).keys())
                        others = set()
                        for v, tg in ve.items():
                            if v != "Skipped":
                                others |= set(explore(f, tg, {place_key(rvv["place"]): v}, removed_edges=back).keys())
                        if bb in reg - others:
                            ok, why = True, "ExitStatus::Skipped arm"
            # or: in the Some arm of `outputs.iter().position(|o| o.exit_code == Code(skip code))` / find / any
            if not ok:
                from .c16 import _upvar_origin
                for sb, st in switches(f):
                    ve, rvv = variant_edges(f, sb)
                    if ve is None or set(ve) != {"Some", "None"}:
                        continue
                    src = peel(o.operand({"copy": rvv["place"]}))
                    if not (src.kind == "call" and method_name(src.a) in ("Iterator::position", "Iterator::find") and len(src.kids) == 2):
                        continue
                    reg = set(f.reachable(ve["Some"])) - set(f.reachable(ve["None"]))
                    if bb not in reg:
                        continue
                    cn = peel(src.kids[1])
                    if cn.kind == "agg" and isinstance(cn.a, tuple) and str(cn.a[0]).startswith("closure "):
                        cb = prog.body_by_def(cn.a[0][len("closure "):], f.crate)
                        if cb is not None:
                            r = peel(Origins(cb).local(0))
                            if r.kind == "call" and method_name(r.a) == "PartialEq::eq":
                                shown = []
                                for side in r.kids:
                                    sd = peel(side)
                                    txt = sd.show()
                                    for n in sd.walk():
                                        if n.kind == "field" and str(n.a).isdigit() and n.kids and peel(n.kids[0]).kind == "arg" and peel(n.kids[0]).a == 1:
                                            up = _upvar_origin(prog, cb, int(n.a))
                                            if up is not None:
                                                txt += " " + up.show()
                                    shown.append(txt)
                                joined = " ".join(shown)
                                if "exit_code" in joined and "get_skip_document_code" in joined and "ExitStatus::Code" in joined:
                                    ok, why = True, "position(|o| o.exit_code == Code(skip_document_code)) is Some"
            # or: on the Some edge of an Option that a scan closure sets only under `exit code == skip code` (`let mut skipped = None;
            # iterate_divided_output(.., |index, _, exit_code| { if .. exit_code == skip_document_code { skipped = Some(index) } })`)
            if not ok:
                from .c16 import _upvar_origin
                for sb, st in switches(f):
                    ve, rvv = variant_edges(f, sb)
                    if ve is None or set(ve) != {"Some", "None"} or rvv["place"]["p"]:
                        continue
                    if bb not in set(f.reachable(ve["Some"])) - set(f.reachable(ve["None"])):
                        continue
                    flag = rvv["place"]["l"]
                    flags_ = {flag}
                    for _ in range(4):       # the flag may be the moved result of a helper's local (`let mut skipped = None; ..; skipped`)
                        for fl_ in list(flags_):
                            for d_ in f.defs.get(fl_, []):
                                if d_[2] == "assign" and d_[3]["k"] == "use":
                                    src_ = d_[3]["op"].get("move") or d_[3]["op"].get("copy")
                                    if src_ is not None and not src_["p"]:
                                        flags_.add(src_["l"])
                    for cb in prog.closures_of(f):
                        ocb = Origins(cb)
                        somes = [b_ for b_, si_, rv_ in aggregates(cb, "Option", "Some")]
                        if not somes:
                            continue
                        # which upvar is &mut flag ?
                        cap = None
                        for bi_, blk_ in enumerate(f.blocks):
                            for st_ in blk_["stmts"]:
                                if st_["k"] == "assign" and st_["rv"]["k"] == "agg" and st_["rv"].get("agg") == "closure" and st_["rv"].get("def") == cb.path:
                                    for idx_, op_ in enumerate(st_["rv"]["ops"]):
                                        pl_ = op_.get("move") or op_.get("copy")
                                        d_ = f.single_def(pl_["l"]) if pl_ and not pl_["p"] else None
                                        if d_ and d_[2] == "assign" and d_[3]["k"] == "ref" and d_[3]["place"]["l"] in flags_:
                                            cap = idx_
                        if cap is None:
                            continue
                        for sb2, st2 in switches(cb):
                            be2 = bool_edges(cb, sb2)
                            if be2 is None:
                                continue
                            tr = cond_tree(cb, sb2, ocb)
                            if tr.kind == "bin" and tr.a == "Eq":
                                txt = tr.show()
                                for n_ in tr.walk():
                                    if n_.kind == "field" and str(n_.a).isdigit() and n_.kids and peel(n_.kids[0]).kind == "arg" and peel(n_.kids[0]).a == 1:
                                        up = _upvar_origin(prog, cb, int(n_.a))
                                        if up is not None:
                                            txt += " " + up.show()
                                if "get_skip_document_code" in txt and any(n_.kind == "arg" and n_.a >= 2 for n_ in tr.walk()):
                                    if all(b_ in cb.reachable(be2[0]) and b_ not in cb.reachable(0, removed_edges=[(sb2, be2[0])]) for b_ in somes):
                                        ok, why = True, "scan closure sets the flag only under `exit_code == skip_document_code`"
            ctx.check(ok, "skip-guard:%s#%d" % (f.impl_self.split("::")[-1], k), stmt_loc(f, bb, si),
                      "ExecutionError::Skipped only when the exit code equals the configured skip code (%s)" % why,
                      "ExecutionError::Skipped is constructed without a dominating `exit code == skip_document_code` guard: a document is skipped "
                      "although no test case asked for it (or the comparison is inverted)")
    # the skip code compared in the per-test-case executor is that of the very test case that was just run
    st = prog.impl_fn("StatefulExecutor", "Executor", "execute_all")
    ost = Origins(st)
    gs = [(bb, t) for bb, t in st.calls() if (callee_name(t) or "").endswith("get_skip_document_code")]
    runs = [bb for bb, t in st.calls() if mname(t) == "Runner::run"]
    ctx.check(len(gs) == 1, "stateful-skip-source-site", st.where(), "one skip-code lookup in StatefulExecutor::execute_all", "found %d skip-code lookups" % len(gs))
    for bb, t in gs:
        recv = ost.operand(t["args"][0])
        from_item = recv.has_call("Iterator::next") and any(n.kind == "call" and "Enumerate<" in n.a for n in recv.walk())
        other = recv.has_call("slice::first", "slice::last", "slice::get", "Vec::first", "Iterator::nth")
        rt = st.blocks[runs[0]]["term"] if runs else None
        same = rt is not None and st.canon_place(rt["args"][2].get("copy") or rt["args"][2].get("move"))["l"] == st.canon_place(t["args"][0].get("copy") or t["args"][0].get("move"))["l"] if rt else False
        same = same or (rt is not None and peel(ost.operand(rt["args"][2])).show()[:60] == peel(recv).show()[:60].replace(".config", ""))
        ctx.check(from_item and not other, "stateful-skip-source", st.loc(bb),
                  "the skip code is looked up on the test case of the current loop iteration (the one whose exit code is compared)",
                  "the skip code is taken from %s, not from the test case that just ran: a test case's own `skip_document_code` is ignored / another one's is applied" % peel(recv).show()[:100])
    n_status = len(list(all_aggregates(prog, "ExitStatus", "Skipped")))
    ctx.check(n_status == 0, "exitstatus-skipped-unconstructed", "-", "ExitStatus::Skipped is never constructed (skip is signalled through the exit code only)",
              "ExitStatus::Skipped is constructed at %d site(s)" % n_status)
    # script executor: skip code comes from the compiled (consistency-checked) config
    s = prog.impl_fn("BashScriptExecutor", "Executor", "execute_all")
    os_ = Origins(s)
    srcs = [os_.operand(t["args"][0]) for bb, t in s.calls() if (callee_name(t) or "").endswith("get_skip_document_code")]
    ctx.check(len(srcs) == 1 and srcs[0].has_call("compile_testcase"), "script-skip-source", s.where(),
              "the script executor takes the skip code from the compiled test case (all test cases agree on it)",
              "script executor skip code source: %s" % [x.show()[:80] for x in srcs])

    # .. and compile_testcase carries the test cases' skip code into that compiled config
    ct = prog.fn("compile_testcase")
    oc = Origins(ct)
    stores = []
    for bi, b in enumerate(ct.blocks):
        if b["cleanup"]:
            continue
        for si, st_ in enumerate(b["stmts"]):
            if st_["k"] == "assign" and st_["lhs"]["p"]:
                # (a store through `&mut config.skip_document_code` - a generic helper that was inlined - is a store to that field)
                names_ = [x.get("n") for x in ct.canon_place(st_["lhs"])["p"] if isinstance(x, dict) and "n" in x]
                if names_[-1:] == ["skip_document_code"]:
                    stores.append((bi, si, oc.rvalue(st_["rv"], at=(bi, si)), st_))
        t_ = b["term"]
        if t_["k"] == "call" and t_["dest"]["p"]:
            names_ = [x.get("n") for x in ct.canon_place(t_["dest"])["p"] if isinstance(x, dict) and "n" in x]
            if names_[-1:] == ["skip_document_code"]:
                stores.append((bi, "term", None, t_))
    carried = False
    for bi, si, tree, st_ in stores:
        if tree is None and si != "term":
            op = st_["rv"].get("op") if st_["rv"].get("k") == "use" else None
            tree = oc.operand(op) if op else None
        if tree is None and si == "term":
            from ..facts import Node
            tree = Node("agg", ("args", None), [oc.operand(a) for a in st_["args"]])
        if tree is not None and any(n.kind == "field" and n.a == "skip_document_code" and any(k.kind == "field" and k.a == "config" for k in n.walk()) and
                                    any(k.kind == "arg" and k.a == 1 for k in n.walk()) for n in tree.walk()):
            carried = True
    from ..cfgq import aggregates as _aggs
    for ab, asi, arv in _aggs(ct, "TestCaseConfig"):
        if arv.get("fields") and "skip_document_code" in arv["fields"]:
            tree = oc.operand(arv["ops"][arv["fields"].index("skip_document_code")])
            stores.append((ab, asi, tree, None))
            if any(n.kind == "field" and n.a == "skip_document_code" and any(k.kind == "arg" and k.a == 1 for k in n.walk()) for n in tree.walk()):
                carried = True
    ctx.check(carried, "script-skip-carried", ct.where(),
              "compile_testcase copies the test cases' skip_document_code into the compiled test case's config (%d store(s))" % len(stores),
              "compile_testcase never stores the test cases' skip_document_code into the compiled config (%d store(s) to that field): under Cram execution a custom "
              "skip code of the document is ignored and the default applies" % len(stores))


def _test_run(prog):
    return prog.fn("test::Args::run")


def _exec_err_switch(f):
    for sb, st in switches(f):
        ve, rv = variant_edges(f, sb)
        if ve is not None and strip_mods(rv["ty"]) == "ExecutionError" and "Skipped" in ve:
            return sb, ve, rv
    raise AnchorError("no switch over ExecutionError in %s" % f.npath)


def r15_2(ctx):
    prog = ctx.prog
    run = _test_run(prog)
    sites = list(all_aggregates(prog, "TestCaseError", "Skipped"))
    fns = sorted({b.npath for b, *_ in sites})
    ctx.check(len(sites) == 2 and all(n.startswith("commands::test::Args::run::{closure#") for n in fns), "testcase-skipped-sites", "-",
              "TestCaseError::Skipped is constructed at exactly two sites of the test command",
              "TestCaseError::Skipped is constructed in %s" % fns)
    o = Origins(run)
    sb, ve, rv = _exec_err_switch(run)
    pk = place_key(rv["place"])
    back = run.back_edges()
    regs = {v: set(explore(run, tg, {pk: v}, removed_edges=back).keys()) for v, tg in ve.items()}
    for b, bb, si, rvv in sites:
        # where is this closure used?
        used = None
        for ub, t in run.calls():
            if mname(t) == "Iterator::map":
                cl = peel(o.operand(t["args"][1]))
                if cl.kind == "agg" and cl.a[0] == "closure " + b.path:
                    used = (ub, t)
        if used is None:
            ctx.bad("skipped-closure-use:" + b.name, stmt_loc(b, bb, si), "the closure constructing TestCaseError::Skipped is not used in a map() of run")
            continue
        ub, t = used
        arm = [v for v, r in regs.items() if ub in r and not any(ub in r2 for v2, r2 in regs.items() if v2 != v)]
        src = o.operand(t["args"][0])
        if arm == ["Skipped"]:
            bad = [m for m in (method_name(c) for c in src.call_names()) if m in FILTERS]
            ctx.check(not bad, "skip-arm-all-testcases", run.loc(ub), "in the Skipped arm every test case of the document becomes Err(Skipped) (no skip/take/filter)",
                      "the Skipped arm maps only part of the test cases (%s)" % bad)
        elif arm == ["Timeout"]:
            ctx.check(src.has_call("Iterator::skip"), "timeout-remainder", run.loc(ub), "in the Timeout arm only the not-executed remainder becomes Err(Skipped)",
                      "the Timeout arm marks %s as skipped" % src.show()[:80])
        else:
            ctx.bad("skipped-arm:" + b.name, run.loc(ub), "TestCaseError::Skipped is produced outside the Skipped/Timeout arms (%s)" % arm)


def r15_3(ctx):
    from .c14 import _counter_incs, _counter_writes
    prog = ctx.prog
    run = _test_run(prog)
    sb, ve, rv = _exec_err_switch(run)
    pk = place_key(rv["place"])
    back = run.back_edges()
    reg = set(explore(run, ve["Skipped"], {pk: "Skipped"}, removed_edges=back).keys())
    others = set()
    for v, tg in ve.items():
        if v != "Skipped":
            others |= set(explore(run, tg, {pk: v}, removed_edges=back).keys())
    only = reg - others
    from .c14 import counter_roles
    roles = counter_roles(prog)
    incs = [(bb, nm) for bb, si, nm in _counter_incs(run) if bb in only]
    names = sorted(nm for _, nm in incs)
    writes = sorted({nm for bb, si, nm in _counter_writes(run, names=set(roles)) if bb in only})
    ctx.check(len(names) == 1 and roles.get(names[0]) == "total_skipped" and writes == names, "skip-arm-counters", run.loc(sb),
              "the Skipped arm increments the skipped counter (%s) once and writes no other counter" % (names[0] if names else "?"),
              "the Skipped arm increments %s and writes %s (counter roles: %s)" % (names, writes, roles))
    # leaves through `continue`: reaches the loop back edge, constructs no error result
    reaches_back = any(b in reg for (b, s) in back)
    errs = [bb for bb, si, rvv in aggregates(run, "ValidationFailedError") if bb in only]
    rets = [d[0] for d in run.defs.get(0, []) if d[0] in only]
    ctx.check(reaches_back and not errs and not rets, "skip-arm-continues", run.loc(sb), "the Skipped arm continues with the next document and produces no failure",
              "the Skipped arm returns or fails the run (returns in arm: %s)" % rets)


def r15_4(ctx):
    prog = ctx.prog
    g = prog.fn("TestCaseConfig::get_skip_document_code")
    o = Origins(g)
    r = peel(o.local(0))
    ok = r.kind == "call" and method_name(r.a) == "Option::unwrap_or" and peel(r.kids[0]).kind == "field" and peel(r.kids[0]).a == "skip_document_code" \
        and r.kids[1].kind == "const" and r.kids[1].a.as_int() == prog.const("DEFAULT_SKIP_DOCUMENT_CODE").as_int()
    ctx.check(ok, "skip-default", g.where(), "get_skip_document_code() == skip_document_code.unwrap_or(DEFAULT_SKIP_DOCUMENT_CODE)", "get_skip_document_code is %s" % r.show())
    ctx.check(prog.const("DEFAULT_SKIP_DOCUMENT_CODE").as_int() == 80, "skip-80", "-", "the default skip code is 80 (documented)")


def r15_7(ctx):
    """single-script (Cram) execution learns the per-test-case exit codes only from the divided output. `a test case exited with the skip code => the whole
    document is skipped, nothing failed` therefore needs the scan of that output before any other verdict about the script: a Timeout result that is
    returned without looking at the output gathered so far reports a document as failed although one of its test cases had already asked to skip it"""
    from ..cfgq import aggregates
    prog = ctx.prog
    f = prog.impl_fn("BashScriptExecutor", "Executor", "execute_all")
    scans = [bb for bb, t in f.calls() if (callee_name(t) or "").endswith("iterate_divided_output")]
    if not scans:
        raise AnchorError("BashScriptExecutor::execute_all: no iterate_divided_output call")
    touts = [(bb, si) for bb, si, rv in aggregates(f, "ExecutionError", "Timeout")]
    if not touts:
        raise AnchorError("BashScriptExecutor::execute_all: no ExecutionError::Timeout result")
    for i, (bb, si) in enumerate(touts):
        ok = any(f.dominates(sb, bb) for sb in scans)
        ctx.check(ok, "skip-scan-before-timeout#%d" % i, stmt_loc(f, bb, si), "the divided output was scanned for the skip code before this Timeout result",
                  "the script's Timeout is reported without scanning the output gathered so far for the skip code: a Cram document in which one test case exits with "
                  "the skip code and a later one hangs is reported as failed (timeout, exit 50); the same document in Markdown mode is skipped (exit 0)")


def run(ctx):
    ctx.run_rule("R15.1", "who-may-construct ExecutionError::Skipped: only the executors, only under `exit code == skip code of the test case that ran`; ExitStatus::Skipped never constructed [E-SITE]", r15_1, floor=8)
    ctx.run_rule("R15.2", "TestCaseError::Skipped only in the test command: all test cases in the Skipped arm, the unexecuted remainder in the Timeout arm [E-SITE]", r15_2, floor=3)
    ctx.run_rule("R15.3", "the Skipped arm touches only count_skipped and continues with the next document [E-PATH]", r15_3, floor=2)
    ctx.run_rule("R15.4", "skip code default: unwrap_or(DEFAULT_SKIP_DOCUMENT_CODE) == 80 [E-TABLE]", r15_4, floor=2)
    from . import c16
    ctx.run_rule("R15.5", "the skip code in effect is the test case's own one when it sets one: `skip_document_code` is merged receiver-first, unconditionally (a value equal to the default is a value) (shared with C16 R16.1) [E-FLOW]",
                 lambda c: c16._merge_fields(c, c.prog.fn("TestCaseConfig::with_defaults_from"), "TestCaseConfig", only={"skip_document_code"}), floor=1)
    from . import c13
    ctx.run_rule("R15.6", "single-script execution: test cases that disagree on skip_document_code are rejected by compile_testcase (the scan compares every exit code with the one compiled code) (shared with C13 R13.11) [E-PATH]", lambda c: c13.consistency_gates(c, ["skip_document_code"]), floor=1)
    ctx.run_rule("R15.7", "single-script execution: the skip scan of the divided output precedes the script-level Timeout verdict (known finding F44) [E-PATH]", r15_7, floor=1)
