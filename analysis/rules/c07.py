"""C07 — Cram documents: indented `$` blocks become the written tests, in order (structural clauses)."""
from ..cfgq import aggregates, bool_edges, cond_tree, const_str_of, explore, place_key, stmt_loc, switches, variant_edges
from ..facts import AnchorError, Origins, callee_name, chain_to, method_name, mname, peel, strip_mods
from . import eunit

REWRITE = {"str::trim", "str::trim_end", "str::trim_start", "str::trim_matches", "str::trim_end_matches", "str::trim_start_matches", "str::to_lowercase",
           "str::to_uppercase", "str::replace", "str::replacen", "str::split_whitespace", "str::trim_ascii", "str::trim_ascii_end", "str::trim_ascii_start"}


def _parse(prog):
    return prog.impl_fn("CramParser", "Parser", "parse")


def _call(f, suffix):
    return [(bb, t) for bb, t in f.calls() if (callee_name(t) or "").endswith(suffix)]


def _bool_after(f, bb):
    t = f.blocks[bb]["term"]
    return t["target"], bool_edges(f, t["target"])


def r7_1(ctx):
    prog = ctx.prog
    f = _parse(prog)
    o = Origins(f)
    heads = [bb for bb, t in f.calls() if mname(t) == "Iterator::next" and "Enumerate<" in (t.get("self_ty") or "")]
    if len(heads) != 1:
        raise AnchorError("CramParser::parse: line loop not found")
    head = heads[0]
    src = o.operand(f.blocks[head]["term"]["args"][0])
    bad = [m for m in (method_name(c) for c in src.call_names()) if m in ("Iterator::skip", "Iterator::take", "Iterator::filter", "Iterator::rev", "Iterator::step_by")]
    ctx.check(src.has_call("str::lines") and not bad, "all-lines", f.loc(head), "every line of the document is classified, in order", "the line loop iterates %s" % (bad or src.show()[:80]))
    ic = _call(f, "is_comment")
    ie = [(bb, t) for bb, t in f.calls() if mname(t) == "str::is_empty"]
    sp = [(bb, t) for bb, t in f.calls() if mname(t) == "str::strip_prefix"]
    if len(ic) != 1 or len(ie) != 1 or len(sp) != 1:
        raise AnchorError("CramParser::parse: is_comment=%d is_empty=%d strip_prefix=%d (expected one each)" % (len(ic), len(ie), len(sp)))
    (cb, ct), (eb, et), (pb, pt) = ic[0], ie[0], sp[0]
    ctx.check(f.dominates(cb, eb) and f.dominates(eb, pb), "classification-order", f.loc(cb), "classification order: comment, empty, indented, title",
              "the classification tests are not in the order comment -> empty -> indented")
    # operands: all tests look at the raw line
    for name, (bb, t) in (("is_comment", ic[0]), ("is_empty", ie[0]), ("strip_prefix", sp[0])):
        a = o.operand(t["args"][0])
        rew = [m for m in (method_name(c) for c in a.call_names()) if m in REWRITE]
        ctx.check(not rew and a.has_call("Iterator::next"), "raw-line:" + name, f.loc(bb), "%s looks at the raw document line" % name, "%s looks at %s" % (name, a.show()[:80]))
    # comment edge: straight to the next iteration, no engine call
    nb, be = _bool_after(f, cb)
    back = f.back_edges()
    eng = {bb for bb, t in f.calls() if (callee_name(t) or "").startswith("parsers::line_parser::LineParser::") or "LineParser::" in (callee_name(t) or "")}
    if be:
        tt, tf = be
        reg = f.reachable(tt, removed_edges=back) - f.reachable(tf, removed_edges=back)
        ctx.check(not (reg & eng), "comment-skipped", f.loc(nb), "a `#` line never reaches the line parser (not a command, expectation or title)",
                  "a comment line reaches LineParser calls")
    # empty edge: only end_testcase (guarded by has_testcase_body)
    nb2, be2 = _bool_after(f, eb)
    if be2:
        tt, tf = be2
        reg = f.reachable(tt, removed_edges=back) - f.reachable(tf, removed_edges=back)
        names = sorted({(callee_name(t) or "").split("::")[-1] for bb, t in f.calls() if bb in reg and "LineParser::" in (callee_name(t) or "")})
        ctx.check("end_testcase" in names and set(names) <= {"end_testcase", "has_testcase_body"}, "empty-ends-testcase", f.loc(nb2),
                  "an empty line ends the current test case and nothing else", "an empty line triggers %s" % names)
        # .. on every path (F33): end_testcase is also what drops the exit code line of a body-less run; a path around it keeps `[n]` for the next command
        ends = [bb for bb, t in f.calls() if bb in reg and (callee_name(t) or "").endswith("LineParser::end_testcase")]
        tails = {b_ for b_, _h in back}
        esc = set(f.reachable(tt, removed_blocks=ends, removed_edges=back)) & tails
        ctx.check(bool(ends) and not esc, "empty-always-ends", f.loc(nb2), "at an empty line end_testcase is passed on every path to the next line",
                  "at an empty line the next line can be reached without end_testcase (e.g. only `if has_testcase_body()`): an indented exit code line without a command - "
                  "`  [1]`, empty line, `  $ false` - keeps its `[1]` for the next test case, which then passes")
    # indented edge / title edge
    nb3 = pt["target"]
    ve, rv = variant_edges(f, nb3)
    if ve is None or set(ve) != {"Some", "None"}:
        raise AnchorError("CramParser::parse: strip_prefix result is not matched")
    pk = place_key(rv["place"])
    some = set(explore(f, ve["Some"], {pk: "Some"}, removed_edges=back).keys())
    none = set(explore(f, ve["None"], {pk: "None"}, removed_edges=back).keys())
    n_some = sorted({(callee_name(t) or "").split("::")[-1] for bb, t in f.calls() if bb in some - none and "LineParser::" in (callee_name(t) or "")})
    n_none = sorted({(callee_name(t) or "").split("::")[-1] for bb, t in f.calls() if bb in none - some and "LineParser::" in (callee_name(t) or "")})
    ctx.check(n_some == ["add_testcase_body", "set_testcase_config"], "indented-is-body", f.loc(nb3), "an indented line is test body (command or expectation)",
              "an indented line triggers %s" % n_some)
    ctx.check(n_none == ["end_testcase", "set_testcase_title"], "unindented-is-title", f.loc(nb3), "an unindented non-empty line ends the test case and becomes the next title",
              "an unindented line triggers %s" % n_none)
    # indent = " ".repeat(self.indention) ; default 2 ; is_comment = starts_with('#')
    ind = peel(o.operand(pt["args"][1]))
    ok = ind.kind == "call" and method_name(ind.a) == "str::repeat" and const_str_of(prog, f, ind.kids[0]) == " " and any(n.kind == "field" and n.a == "indention" for n in ind.kids[1].walk())
    ctx.check(ok, "indent-value", f.loc(pb), "the stripped prefix is \" \".repeat(self.indention)", "the stripped prefix is %s" % ind.show()[:80])
    ctx.check(prog.const("DEFAULT_CRAM_INDENTION").as_int() == 2, "indent-default", "-", "DEFAULT_CRAM_INDENTION == 2 (two-space indentation)")
    c = prog.fn("line_parser::is_comment")
    oc = Origins(c)
    r = peel(oc.local(0))
    ok = r.kind == "call" and method_name(r.a) == "str::starts_with" and peel(r.kids[0]).kind == "arg" and peel(r.kids[1]).kind == "const" and peel(r.kids[1]).a.as_char() == "#"
    ctx.check(ok, "comment-definition", c.where(), "is_comment(line) == line.starts_with('#')", "is_comment is %s" % r.show())


def r7_2(ctx):
    prog = ctx.prog
    f = _parse(prog)
    o = Origins(f)
    ab = _call(f, "LineParser::add_testcase_body")
    if len(ab) != 1:
        raise AnchorError("CramParser::parse: expected one add_testcase_body call")
    bb, t = ab[0]
    line = o.operand(t["args"][1])
    ch = chain_to(line, lambda n: n.kind == "call" and method_name(n.a) == "Iterator::next") or []
    ch = [c for c in ch if c not in ("Deref::deref",)]
    ctx.check(ch == ["str::strip_prefix"], "body-verbatim", f.loc(bb), "the body line is the document line minus the indentation, otherwise untouched (inner and trailing whitespace kept)",
              "the body line flows through %s" % ch)
    idx = peel(o.operand(t["args"][2]))
    ctx.check(idx.kind == "field" and idx.a == "0", "body-index", f.loc(bb), "the line index handed over is the enumerate index of that line")
    line_parser_rules(ctx)


def line_parser_rules(ctx):
    """shared by C06 (Markdown) and C07 (Cram): how LineParser::add_testcase_body classifies and stores a body line"""
    prog = ctx.prog
    lp = prog.fn("LineParser::add_testcase_body")
    ol = Origins(lp)
    pushes = [(pb, pt) for pb, pt in lp.calls() if mname(pt) == "Vec::push"]
    n_cmd = 0
    for pb, pt in pushes:
        tgt = lp.arg_name(pt["args"][0])
        arg = ol.operand(pt["args"][1])
        if tgt.endswith(prog.field_by_type("LineParser", "Vec<String>", "command")):
            n_cmd += 1
            ch = chain_to(arg, lambda n: n.kind == "arg" and n.a == 2) or []
            ch = [c for c in ch if c not in ("Into::into", "From::from", "ToString::to_string", "ToOwned::to_owned")]
            pre = [const_str_of(prog, lp, n.kids[1]) for n in arg.walk() if n.kind == "call" and method_name(n.a) == "str::strip_prefix"]
            ctx.check(ch == ["str::strip_prefix"] and len(pre) == 1 and pre[0] in ("$ ", "> "), "command-verbatim#%d" % n_cmd, lp.loc(pb),
                      "a command line is stored as written after the exact prefix `%s`" % (pre[0] if pre else "?"),
                      "a command / continuation line is recognised or stored through %s with prefixes %s (documented: exactly `$ ` and `> `): output lines that merely "
                      "start with `>` are swallowed into the shell expression, or command text is altered" % (ch, pre))
        elif tgt.endswith(prog.field_by_type("LineParser", "Vec<Expectation>", "expectations")):
            ch = chain_to(arg, lambda n: n.kind == "arg" and n.a == 2) or []
            ctx.check("ExpectationMaker::parse" in ch and not [c for c in ch if c in REWRITE], "expectation-verbatim", lp.loc(pb),
                      "an expectation line is handed to the expectation parser as written", "an expectation line flows through %s" % ch)
    ctx.check(n_cmd == 2, "command-pushes", lp.where(), "`$ ` starts and `> ` continues a command (two pushes)", "found %d command pushes" % n_cmd)
    # guard of the `$ ` branch: allow_multiple_commands || command.is_empty()
    # the `> ` continuation is only honoured directly after a command line: every path that stores no command line (exit code line, expectation
    # line) leaves the `in command` flag false - otherwise an output line starting with `> ` right after `[n]` is swallowed into the command
    flag_stores = {}
    for bi, blk in enumerate(lp.blocks):
        if blk["cleanup"]:
            continue
        for st in blk["stmts"]:
            if st["k"] == "assign" and st["lhs"]["p"] and st["rv"]["k"] == "use" and "const" in st["rv"]["op"] and st["rv"]["op"]["const"]["ty"] == "bool":
                nm = [p_.get("n") for p_ in st["lhs"]["p"] if isinstance(p_, dict)][-1:]
                if nm:
                    flag_stores.setdefault(nm[0], []).append((bi, bool(int(st["rv"]["op"]["const"]["val"].get("bits", 0)))))
    flags = [k for k, v in flag_stores.items() if {x for _, x in v} == {True, False}]
    if len(flags) != 1:
        ctx.bad("in-command-flag", lp.where(), "the flag that remembers `the previous line was a command line` was not found (bool fields written: %s)" % sorted(flag_stores))
    else:
        resets = [bi for bi, val in flag_stores[flags[0]] if val is False]
        cmd_pushes = [pb for pb, pt in pushes if lp.arg_name(pt["args"][0]).endswith(prog.field_by_type("LineParser", "Vec<String>", "command"))]
        leaky = [rb for rb in lp.return_blocks() if rb in lp.reachable(0, removed_blocks=resets + cmd_pushes)]
        # error returns (bail!) are irrelevant: only Ok results continue parsing
        from ..cfgq import result_variant_blocks
        oks = {b for b, _, _ in result_variant_blocks(lp, "Ok")}
        ok_leaks = [b for b in oks if b in lp.reachable(0, removed_blocks=resets + cmd_pushes)]
        ctx.check(not ok_leaks, "in-command-reset", lp.where(),
                  "every line that is not stored as a command line resets the `%s` flag (a `> ` line continues a command only directly after it)" % flags[0],
                  "an exit-code or expectation line can be accepted without resetting `%s`: an output line starting with `> ` after `[n]` is appended to the shell "
                  "expression instead of becoming an expectation" % flags[0])
    # a `> ` line is stored only onto a command that has a start: the in-command flag survives the end of a test case (flush leaves it), so without the
    # `command.is_empty()` test a `> ` line behind a closed test case would open a command that no `$ ` line started
    cont = []
    for pb, pt in pushes:
        if lp.arg_name(pt["args"][0]).endswith(prog.field_by_type("LineParser", "Vec<String>", "command")):
            pre = [const_str_of(prog, lp, n.kids[1]) for n in ol.operand(pt["args"][1]).walk() if n.kind == "call" and method_name(n.a) == "str::strip_prefix"]
            if pre == ["> "]:
                cont.append(pb)
    from ..cfgq import bool_edges as _be, cond_tree as _ct, switches as _sw
    guarded = []
    for pb in cont:
        ok = False
        for sb, st in _sw(lp):
            be = _be(lp, sb)
            if be is None:
                continue
            tree = _ct(lp, sb, ol)
            neg = False
            while tree.kind == "un" and tree.a == "Not":
                neg, tree = not neg, tree.kids[0]
            if tree.kind == "call" and method_name(tree.a) in ("Vec::is_empty", "slice::is_empty") and any(n.kind == "field" and n.a == prog.field_by_type("LineParser", "Vec<String>", "command") for n in tree.walk()):
                nonempty = be[0] if neg else be[1]
                if pb in lp.reachable(nonempty) and pb not in lp.reachable(0, removed_edges=[(sb, nonempty)]):
                    ok = True
        guarded.append(ok)
    fl = prog.find_fns("LineParser::flush")
    flush_resets = False
    if fl and len(flags) == 1:
        for blk in fl[0].blocks:
            for st in blk["stmts"]:
                if st["k"] == "assign" and [p_.get("n") for p_ in st["lhs"]["p"] if isinstance(p_, dict)][-1:] == [flags[0]]:
                    flush_resets = True
    ctx.check(bool(cont) and (all(guarded) or flush_resets), "continuation-needs-command", lp.loc(cont[0]) if cont else lp.where(),
              "a `> ` line extends a command only when one was started (command non-empty on the path, or flush() resets the in-command flag)",
              "a `> ` line is pushed onto the command without a `command.is_empty()` test while flush() leaves the in-command flag set: `  $ cat <<EOF`, empty line, "
              "`  > hello` opens a second test case whose command no `$ ` line started (more tests than `$` lines, a line number past the document)")
    ex = _call(lp, "extract_exit_code")
    ctx.check(len(ex) == 1 and peel(ol.operand(ex[0][1]["args"][0])).kind == "arg", "exit-code-line", lp.where(), "the exit code is extracted from the unmodified line")


PANICKING = {"Option::unwrap", "Option::expect", "Result::unwrap", "Result::expect"}
CONVERSIONS = {"str::parse", "FromStr::from_str", "from_str_radix", "char::to_digit", "TryFrom::try_from", "TryInto::try_into", "String::from_utf8",
               "str::from_utf8", "from_utf8", "serde_yaml::from_str", "from_str", "parse_duration", "char::from_u32", "char::from_digit"}
PARSE_SCOPE = ("src/parsers/", "src/expectation.rs", "src/rules/", "src/config.rs", "src/escaping.rs", "src/newline.rs")


def _conversion_panics(prog, scope=PARSE_SCOPE):
    """(body, bb, method, conversion) for every unwrap/expect whose receiver is the result of a fallible text -> value conversion"""
    for b in prog.bodies:
        if b.promoted is not None or "::tests" in b.npath or not any(b.file.startswith(s) for s in scope):
            continue
        o = None
        for bb, t in b.calls():
            m = method_name(callee_name(t, resolved=False) or "")
            if m not in PANICKING:
                continue
            o = o or Origins(b)
            recv = o.operand(t["args"][0])
            conv = [n.a for n in recv.walk() if n.kind == "call" and (method_name(n.a) in CONVERSIONS or method_name(n.a).split("::")[-1] in CONVERSIONS)]
            yield b, bb, m, conv, recv


def total_parsing_rules(ctx):
    """shared by C06 and C07 (`never crashes`): no panic on a data-dependent conversion of document text in the parsing layer.
    A digit-only regex group still overflows i32; such results must stay `Option`/`Result` (`.ok()`, `?`)."""
    n = 0
    for b, bb, m, conv, recv in _conversion_panics(ctx.prog):
        n += 1
        key = "unwrap:%s#%d" % (b.npath.split("::")[-1] if not b.npath.startswith("<") else b.name, n)
        ctx.check(not conv, key, b.loc(bb), "%s on %s: not a text conversion (constant pattern / capture of a successful match)" % (m, recv.show()[:60]),
                  "%s on the result of %s: document text that does not convert (overflow, invalid digits/bytes) crashes the parser instead of being "
                  "read as an ordinary line or reported as a parse error" % (m, ", ".join(sorted(set(method_name(c) for c in conv)))))
    if ctx.ctrl is not None:
        hits = [b.npath for b, bb, m, conv, recv in _conversion_panics(ctx.ctrl, scope=("src/",)) if conv]
        ctx.control("parse-expect", any("control_parse_expect" in h for h in hits), "fixtures/positive control_parse_expect")


def parser_state_rules(ctx):
    """shared by C06 and C07: LineParser::end_testcase leaves no per-test-case state behind. On every path that returns Ok either the
    state is flushed (after the push) or - for a block without a command - the parsed exit code is reset; otherwise the `[n]` of a
    command-less block becomes the expected exit code of the next test case"""
    prog = ctx.prog
    e = prog.fn("LineParser::end_testcase")
    f_exit = prog.field_by_type("LineParser", "Option<i32>", "exit_code")
    flushes = [bb for bb, t in e.calls() if (callee_name(t) or "").endswith("LineParser::flush")]
    resets = []
    o = Origins(e)
    for bi, blk in enumerate(e.blocks):
        if blk["cleanup"]:
            continue
        for st in blk["stmts"]:
            if st["k"] == "assign" and [p_.get("n") for p_ in st["lhs"]["p"] if isinstance(p_, dict)][-1:] == [f_exit]:
                n = peel(o.rvalue(st["rv"]))
                if n.kind == "agg" and str(n.a[0]).endswith("None"):
                    resets.append(bi)
    from ..cfgq import result_variant_blocks
    oks = [b for b, _, _ in result_variant_blocks(e, "Ok")]
    leaky = [b for b in oks if b in e.reachable(0, removed_blocks=flushes + resets)]
    ctx.check(bool(oks) and not leaky, "end-testcase-clears-exit-code", e.where(),
              "every Ok path of end_testcase flushes the parser state or resets the parsed exit code (%d flush, %d reset site(s))" % (len(flushes), len(resets)),
              "end_testcase can return Ok without flush() and without resetting `%s`: the exit code line of a block without a command is carried over "
              "into the next test case (a following `$ false` without `[n]` is reported as succeeded)" % f_exit)
    # inside the parsers' loops the decision to close the state does not depend on the state: a guard like `if parser.has_testcase_body()` around
    # end_testcase skips exactly the call that would drop the exit code line of a body-less block / run (after the loop, at the end of the document,
    # nothing can follow and such a guard is harmless)
    from ..cfgq import bool_edges, cond_tree, switches
    n_calls = 0
    for pf in (prog.impl_fn("MarkdownParser", "Parser", "parse"), prog.impl_fn("CramParser", "Parser", "parse")):
        po = Origins(pf)
        back = pf.back_edges()
        in_loop = set()
        for b_, h_ in back:
            body_, stack_ = {h_, b_}, [b_]
            while stack_:
                x_ = stack_.pop()
                for p_ in pf.preds[x_]:
                    if p_ not in body_ and pf.dominates(h_, p_):
                        body_.add(p_)
                        stack_.append(p_)
            in_loop |= body_
        ends = [bb for bb, t in pf.calls() if (callee_name(t) or "").endswith("LineParser::end_testcase") and bb in in_loop]
        n_calls += len(ends)
        gated = []
        for sb, st in switches(pf):
            be = bool_edges(pf, sb)
            if be is None or sb not in in_loop:
                continue
            tree = cond_tree(pf, sb, po)
            getters = sorted({method_name(c) for c in tree.call_names() if ("LineParser::" in c or method_name(c).startswith("LineParser::")) and not method_name(c).endswith("::new")})
            if not getters:
                continue
            r0, r1 = set(pf.reachable(be[0], removed_edges=back)), set(pf.reachable(be[1], removed_edges=back))
            for eb in ends:
                if (eb in r0) != (eb in r1):
                    gated.append((pf.loc(sb), getters))
        ctx.check(not gated, "close-not-state-dependent:" + pf.impl_self.split("::")[-1], gated[0][0] if gated else pf.where(),
                  "inside the loop of %s no end_testcase call is guarded by a query of the line parser's own state (%d call(s))" % (pf.impl_self.split("::")[-1], len(ends)),
                  "end_testcase is guarded by %s: a block / run without command and expectations (only `[n]`) is never closed, its exit code stays in the parser and "
                  "becomes the expected exit code of the next test case (`$ false` reported as succeeded)" % (gated[0][1] if gated else ""))
    if n_calls < 3:
        ctx.bad("close-sites", "-", "only %d end_testcase calls found inside the parsers' loops (3 confirmed by reading)" % n_calls)
    # a flush helper, where it exists, clears the exit code (when it was inlined into end_testcase the stores are counted as resets above)
    fls = prog.find_fns("LineParser::flush")
    if fls:
        fl = fls[0]
        ofl = Origins(fl)
        cleared = False
        for bi, blk in enumerate(fl.blocks):
            for st in blk["stmts"]:
                if st["k"] == "assign" and [p_.get("n") for p_ in st["lhs"]["p"] if isinstance(p_, dict)][-1:] == [f_exit]:
                    n = peel(ofl.rvalue(st["rv"]))
                    cleared = cleared or (n.kind == "agg" and str(n.a[0]).endswith("None"))
        ctx.check(cleared, "flush-clears-exit-code", fl.where(), "flush() resets the exit code")
    else:
        ctx.check(bool(resets), "flush-clears-exit-code", e.where(), "end_testcase resets the exit code itself (no flush helper)")


def r7_3(ctx):
    prog = ctx.prog
    f = _parse(prog)
    o = Origins(f)
    back = f.back_edges()
    ab = _call(f, "LineParser::add_testcase_body")[0][0]
    sc = _call(f, "LineParser::set_testcase_config")
    et = _call(f, "LineParser::end_testcase")
    # after add_testcase_body (Ok path) the next LineParser call is set_testcase_config(default_cram())
    engine_calls = {bb: (callee_name(t) or "").split("::")[-1] for bb, t in f.calls() if "LineParser::" in (callee_name(t) or "")}
    # path-sensitive walk (a helper that was inlined returns `Err` through the caller's `?`: that path leaves, it does not continue the loop);
    # parser calls are the frontier: nothing behind them is explored
    nxt = set()
    sinks = [(cb, s2) for cb in engine_calls for s2 in f.succ(cb)]
    start = f.blocks[ab]["term"]["target"]
    reached = explore(f, start, removed_edges=sinks)
    rets = set(f.return_blocks())
    tails = {b_ for b_, _h in back}
    for b in reached:
        if b in engine_calls and b != ab:
            nxt.add(engine_calls[b])
        elif b in rets:
            nxt.add("return")
        elif b in tails:
            nxt.add("next-iteration")
    ctx.check(nxt <= {"set_testcase_config", "return"} and "set_testcase_config" in nxt, "config-after-every-body-line", f.loc(ab),
              "every body line is followed by set_testcase_config(..) before any other parser call (the only other exit is the `?` error return)",
              "after add_testcase_body the next parser interactions are %s: a test case can be pushed without the Cram defaults" % sorted(nxt))
    for bb, t in sc:
        arg = peel(o.operand(t["args"][1]))
        ctx.check(arg.kind == "call" and arg.a.endswith("TestCaseConfig::default_cram"), "config-is-cram-default:%d" % (0 if f.dominates(ab, bb) else 1), f.loc(bb),
                  "the configuration applied is TestCaseConfig::default_cram()", "set_testcase_config receives %s" % arg.show()[:80])
    # the final end_testcase (after the loop) is preceded by a set_testcase_config
    tail = [bb for bb, t in et if not any(b in f.reachable(bb) for (b, _) in back)]
    ctx.check(len(tail) == 1 and any(f.dominates(sb, tail[0]) and not any(b in f.reachable(sb) for (b, _) in back) for sb, _ in sc), "final-config", f.where(),
              "the test case still open at the end of the document gets the Cram defaults before it is closed")
    # flush is the only writer of config = None and only called from end_testcase after the push
    lp_bodies = [b for b in prog.bodies if b.promoted is None and b.impl_self and b.impl_self.endswith("LineParser")]
    writers = []
    f_cfg = prog.field_by_type("LineParser", "Option<TestCaseConfig>", "config")
    for b in lp_bodies:
        ob = Origins(b)
        for bi, blk in enumerate(b.blocks):
            if blk["cleanup"]:
                continue
            for st in blk["stmts"]:
                if st["k"] == "assign" and [p["n"] for p in st["lhs"]["p"] if isinstance(p, dict) and "n" in p][-1:] == [f_cfg]:
                    v = peel(ob.rvalue(st["rv"]))
                    if v.kind == "agg" and v.a[0] == "Option::None":
                        writers.append((b, bi))
    e = prog.fn("LineParser::end_testcase")
    pushes = [bb for bb, t in e.calls() if mname(t) == "Vec::push"]
    # the configuration is reset only after the TestCase was pushed: directly in end_testcase behind the push, or in a helper (flush) that
    # only end_testcase calls, behind the push
    bad_sites = []
    for b, bi in writers:
        if b.name == "new":
            continue
        if b is e:
            if not (len(pushes) == 1 and e.dominates(pushes[0], bi)):
                bad_sites.append("end_testcase@%s" % e.loc(bi))
            continue
        callers = [(c, cb) for c in prog.bodies if c.promoted is None for cb, ct in c.calls() if ct.get("resolved_local") and ct.get("resolved") == b.path]
        if not callers or not all(c is e and len(pushes) == 1 and e.dominates(pushes[0], cb) for c, cb in callers):
            bad_sites.append("%s (called from %s)" % (b.name, sorted({c.name for c, _ in callers})))
    ctx.check(bool(writers) and not bad_sites, "config-reset-sites", "-", "LineParser.%s is reset to None only in new() and behind the TestCase push of end_testcase (directly or through a helper only it calls)" % f_cfg,
              "%s = None written at %s: a test case can be pushed after its configuration was dropped" % (f_cfg, bad_sites))
    ctx.check(len(pushes) == 1, "flush-after-push", e.where(), "end_testcase pushes exactly one TestCase; the state reset follows it")
    # LineParser::new(.., true) and the returned document config
    nw = _call(f, "LineParser::new")
    ctx.check(len(nw) == 1 and peel(o.operand(nw[0][1]["args"][1])).kind == "const" and peel(o.operand(nw[0][1]["args"][1])).a.as_bool() is True, "multiple-commands", f.where(),
              "the Cram line parser allows several `$` commands in one indented block (each starts a test)",
              "LineParser::new is not called with allow_multiple_commands = true")
    r = o.local(0)
    ctx.check(r.has_call("DocumentConfig::default_cram") and any(n.kind == "field" and n.a == "testcases" for n in r.walk()), "returns", f.where(),
              "parse returns (DocumentConfig::default_cram(), all parsed test cases)")
    # default_cram table is decided in R16.4


def r7_4(ctx):
    hits = [h for h in eunit.sweep(ctx.prog, scope=lambda b: "src/parsers/cram.rs" in b.file or "src/parsers/line_parser.rs" in b.file)]
    ctx.check(not hits, "no-char-as-byte", "-", "no character count is used as byte offset in the Cram / line parser",
              "character counts used as byte offsets: %s" % [(b.npath, b.loc(bb)) for b, bb, *_ in hits])
    from .c06 import _len_minus_sites
    n = len([1 for b, *_ in _len_minus_sites(ctx.prog) if "cram.rs" in b.file or "line_parser.rs" in b.file])
    ctx.ok("len-minus", "-", "%d `len()-k` expressions in the Cram / line parser (index uses decided by R6.4)" % n, obligation=False)


def run(ctx):
    ctx.run_rule("R7.1", "line classification: comment -> skipped, empty -> end_testcase, indented -> body, else -> title; tests look at the raw line; indentation = self.indention spaces [E-PATH]", r7_1, floor=11)
    ctx.run_rule("R7.2", "no rewriting: body = line minus indentation; command = body minus `$ `/`> `; expectation and exit-code lines unmodified [E-FLOW]", r7_2, floor=6)
    ctx.run_rule("R7.3", "Cram defaults pairing: set_testcase_config(default_cram()) after every body line and before the final end_testcase; config reset only in flush after the push [E-STATE pairing]", r7_3, floor=7)
    ctx.run_rule("R7.5", "total parsing: no unwrap/expect on a fallible text conversion (parse, from_str, from_utf8, try_into ..) in parsers / expectation / rules / config (shared with C06 R6.11) [E-SITE]", total_parsing_rules, floor=5)
    ctx.run_rule("R7.6", "parser state hygiene: every Ok path of LineParser::end_testcase flushes the state or resets the parsed exit code (shared with C06 R6.13) [E-PATH must-pass]", parser_state_rules, floor=2)
    ctx.run_rule("R7.4", "index-unit and len()-k sweeps over the Cram / line parser [E-UNIT]", r7_4, floor=1)
