"""C03 — no false failure when the expectations are deterministic (necessary conditions only)."""
from ..cfgq import aggregates, place_key, stmt_loc, switches, variant_edges, explore
from ..facts import AnchorError, Origins, callee_name, method_name, mname, peel
from . import diffstate
from .c01 import report

TEXT = {
    "R3.1": "no failure record without a failing guard: Unmatched only for non-optional expectations after a mismatch (or in the tail), Unexpected only after a mismatch; nothing but Matched on a matching pair [E-STATE]",
    "R3.2": "a multiline run yields (E+1 while still matching) only on the next-expectation-matches edge [E-STATE]",
}


def _mk(rule):
    def fn(ctx):
        m, n = report(ctx, {rule})
    return fn


def _search_shape(ctx, f, what, elem_desc):
    """iter().skip(start).position(|x| matches(..)).map(|p| p + start)"""
    prog = ctx.prog
    o = Origins(f)
    r = o.local(0)
    ok_shape = r.kind == "call" and method_name(r.a) == "Option::map"
    pos = peel(r.kids[0]) if ok_shape else None
    ok_shape = ok_shape and pos.kind == "call" and method_name(pos.a) in ("Iterator::position",)
    sk = peel(pos.kids[0]) if ok_shape else None
    ok_shape = ok_shape and sk.kind == "call" and method_name(sk.a) == "Iterator::skip" and peel(sk.kids[1]).kind == "arg"
    if not ok_shape:
        lp = _search_shape_loop(ctx, f, what, o)
        if lp is not None:
            return lp
    ctx.check(ok_shape, what + ":first-hit", f.where(), "%s: the *first* position at or after `start` is returned (iter().skip(start).position(..))" % what,
              "%s is %s" % (what, r.show()[:160]))
    if not ok_shape:
        return
    start_arg = peel(sk.kids[1]).a
    # predicate: matches(..) unnegated
    pc = peel(pos.kids[1])
    cb = prog.body_by_def(pc.a[0][len("closure "):], f.crate) if pc.kind == "agg" and pc.a[0].startswith("closure ") else None
    if cb is not None:
        rc = Origins(cb).local(0)
        ctx.check(rc.kind == "call" and rc.a.endswith("Expectation::matches"), what + ":predicate", cb.where(), "the predicate is Expectation::matches, unnegated",
                  "the search predicate is %s" % rc.show()[:80])
    mc = peel(r.kids[1])
    cb2 = prog.body_by_def(mc.a[0][len("closure "):], f.crate) if mc.kind == "agg" and mc.a[0].startswith("closure ") else None
    if cb2 is not None:
        r2 = Origins(cb2).local(0)
        ok = r2.kind == "field" and r2.a == "0" and r2.kids[0].kind == "bin" and r2.kids[0].a in ("AddWithOverflow", "Add")
        if ok:
            a, b = r2.kids[0].kids
            sides = [peel(a), peel(b)]
            ok = any(s.kind == "arg" and s.a == 2 for s in sides) and any(s.kind == "field" and s.a == "0" for s in sides)
        ctx.check(ok, what + ":offset", cb2.where(), "the relative position is shifted back by `start` (result >= start)", "the result mapping is %s" % r2.show()[:80])
    return start_arg


def _search_shape_loop(ctx, f, what, o):
    """explicit form: `for (i, x) in xs.iter().enumerate().skip(start) { if matches(..) { return Some(i) } } None`.
    Returns the start argument if the function has this form (its clauses are then checked), None if it has another form."""
    from ..cfgq import bool_edges
    nexts = [(bb, t) for bb, t in f.calls() if method_name(callee_name(t, resolved=False) or "") == "Iterator::next"]
    ms = [(bb, t) for bb, t in f.calls() if (callee_name(t) or "").endswith("Expectation::matches")]
    if len(nexts) != 1 or len(ms) != 1 or len({h for _t, h in f.back_edges()}) != 1:
        return None
    (nb, nt), (mb, mt) = nexts[0], ms[0]
    it = o.operand(nt["args"][0])
    skips = [n for n in it.walk() if n.kind == "call" and method_name(n.a) == "Iterator::skip"]
    if len(skips) != 1 or peel(skips[0].kids[1]).kind != "arg":
        return None
    sk = skips[0]
    inner_enum = any(k.kind == "call" and method_name(k.a) == "Iterator::enumerate" for k in sk.kids[0].walk())
    outer_enum = any(n.kind == "call" and method_name(n.a) == "Iterator::enumerate" and any(k is sk for k in n.walk()) for n in it.walk())
    ctx.check(inner_enum and not outer_enum, what + ":first-hit", f.loc(nb),
              "%s: explicit loop over iter().enumerate().skip(start): indices are absolute and the search starts at `start`" % what,
              "%s: the loop does not enumerate before skipping `start` (relative indices are returned)" % what)
    ve, rv = variant_edges(f, nt["target"])
    be = bool_edges(f, mt["target"])
    if ve is None or be is None or set(ve) != {"Some", "None"}:
        return None
    t_true, t_false = be
    for d in f.defs.get(0, []):
        tree = o._def(d, 0, ())
        if tree.kind == "agg" and tree.a[0].endswith("Some"):
            pay = peel(tree.kids[0])
            idx = pay.kind == "field" and pay.a == "0" and pay.kids[0].kind == "field" and pay.kids[0].a == "0" and \
                any(n.kind == "call" and method_name(n.a) == "Iterator::next" for n in pay.walk())
            on_true = d[0] in f.reachable(t_true) and d[0] not in f.reachable(0, removed_edges=[(mt["target"], t_true)])
            ctx.check(idx and on_true, what + ":predicate", f.loc(d[0]), "Some(index of the current element) is returned exactly on the matches() true edge",
                      "Some(%s) is returned %s" % (pay.show()[:60], "on the matching edge" if on_true else "not (only) on the matching edge"))
        elif tree.kind == "agg" and tree.a[0].endswith("None"):
            ctx.check(d[0] not in f.reachable(0, removed_edges=[(nt["target"], ve["None"])]), what + ":offset", f.loc(d[0]),
                      "None is returned only when the iterator is exhausted", "None is returned before the iterator is exhausted")
        else:
            ctx.bad(what + ":first-hit", f.loc(d[0]), "%s returns %s" % (what, tree.show()[:80]))
    ctx.check(nb in f.reachable(t_false), what + ":continue", f.loc(mb), "a non-matching element continues the search")
    return peel(sk.kids[1]).a


def _tuple_field_keys(body, local, i):
    """place keys under which field i of tuple `local` is read in discriminant statements / switches"""
    import json as _json
    out = set()
    for b in body.blocks:
        for st in b["stmts"]:
            rv = st.get("rv") or {}
            pl = rv.get("place") if rv.get("k") == "discr" else None
            if pl and pl["l"] == local and len(pl["p"]) == 1 and pl["p"][0].get("f") == i:
                out.add(place_key(pl))
    return out


def r3_3(ctx):
    prog = ctx.prog
    pm = prog.fn("DiffTool::peek_match")
    o = Origins(pm)
    pe = [(bb, t) for bb, t in pm.calls() if (callee_name(t) or "").endswith("peek_matching_expectation")]
    pl = [(bb, t) for bb, t in pm.calls() if (callee_name(t) or "").endswith("peek_matching_line")]
    if len(pe) != 1 or len(pl) != 1:
        raise AnchorError("peek_match: expected one expectation search and one line search")
    (eb, et), (lb, lt) = pe[0], pl[0]

    def plus_one_of(node, argn):
        n = peel(node)
        # the current pair is known not to match when peek_match is consulted (R3.1 peek-only-after-mismatch), so starting the
        # search at the cursor itself is behaviourally identical to starting one behind it: both are accepted
        if n.kind == "arg" and n.a == argn:
            return True
        return n.kind == "field" and n.a == "0" and n.kids[0].kind == "bin" and n.kids[0].a in ("AddWithOverflow", "Add") and \
            peel(n.kids[0].kids[0]).kind == "arg" and peel(n.kids[0].kids[0]).a == argn and n.kids[0].kids[1].kind == "const" and n.kids[0].kids[1].a.as_int() == 1
    ctx.check(plus_one_of(o.operand(et["args"][2]), 4), "expectation-search-start", pm.loc(eb), "the expectation search starts at E+1 (or, equivalently after a mismatch, at E)",
              "the expectation search starts at %s" % o.operand(et["args"][2]).show()[:60])
    ctx.check(plus_one_of(o.operand(lt["args"][2]), 2), "line-search-start", pm.loc(lb), "the line search starts at L+1 (or, equivalently after a mismatch, at L)",
              "the line search starts at %s" % o.operand(lt["args"][2]).show()[:60])
    # the searched line / expectation are the current ones
    la = o.operand(et["args"][1])
    ctx.check(any(n.kind == "index" for n in la.walk()) and any(n.kind == "arg" and n.a == 2 for n in la.walk()), "expectation-search-line", pm.loc(eb),
              "later expectations are tried against the current line LINES[L]")
    ea = o.operand(lt["args"][1])
    ctx.check(ea.has_call("Index::index") and any(n.kind == "arg" and n.a == 4 for n in ea.walk()), "line-search-expectation", pm.loc(lb),
              "later lines are tried against the current expectation EXPS[E]")
    # nearest later expectation is preferred: on every feasible path on which the expectation search found something the result is
    # NextExpectation (whether the line search is run lazily on the None edge or eagerly beforehand is immaterial, both searches are pure)
    import json as _json
    dest = et["dest"]
    if dest["p"]:
        raise AnchorError("peek_match: expectation search result is not stored in a local")
    aliases = {place_key(dest)}
    changed = True
    while changed:
        changed = False
        for b in pm.blocks:
            if b["cleanup"]:
                continue
            for st in b["stmts"]:
                if st["k"] != "assign" or st["lhs"]["p"]:
                    continue
                rv = st.get("rv") or {}
                new = set()
                if rv.get("k") == "use":
                    src = rv["op"].get("copy") or rv["op"].get("move")
                    if src and place_key(src) in aliases:
                        new.add(place_key(st["lhs"]))
                elif rv.get("k") == "agg" and rv.get("agg") == "tuple":
                    for i, op in enumerate(rv["ops"]):
                        src = op.get("copy") or op.get("move")
                        if src and place_key(src) in aliases:
                            new.update(k for k in _tuple_field_keys(pm, st["lhs"]["l"], i))
                if new - aliases:
                    aliases |= new
                    changed = True
    states = explore(pm, 0)
    kinds = {}
    for bb, si, rvv in aggregates(pm, "PeekMatch"):
        kinds.setdefault(rvv["variant"], []).append((bb, si, rvv))
    okv = set(kinds) == {"NextExpectation", "NextLine", "None"}
    ctx.check(okv, "peek-variants", pm.where(), "peek_match produces NextExpectation / NextLine / None")

    def known(bb):
        out = set()
        for vf, _bf in states.get(bb, ()):
            vals = {v for k, v in dict(vf).items() if k in aliases}
            out.add(next(iter(vals)) if len(vals) == 1 else None)
        return out
    if okv:
        for vname in ("NextLine", "None"):
            for bb, si, rvv in kinds[vname]:
                ks = known(bb)
                ctx.check(ks == {"None"}, "prefer-expectation:%s" % vname, stmt_loc(pm, bb, si),
                          "PeekMatch::%s is produced only on paths where the expectation search found nothing" % vname,
                          "PeekMatch::%s is produced on a path where a later expectation matches the current line (search result %s): the nearest "
                          "later expectation is not preferred" % (vname, sorted(str(k) for k in ks)))
        for bb, si, rvv in kinds["NextExpectation"]:
            ne = peel(o.operand(rvv["ops"][0]))
            ctx.check(ne.has_call("DiffTool::peek_matching_expectation") and known(bb) == {"Some"}, "next-expectation-payload", stmt_loc(pm, bb, si),
                      "NextExpectation carries the expectation search result")
        for bb, si, rvv in kinds["NextLine"]:
            nl = peel(o.operand(rvv["ops"][0]))
            ctx.check(nl.has_call("DiffTool::peek_matching_line"), "next-line-payload", stmt_loc(pm, bb, si), "NextLine carries the line search result")
    _search_shape(ctx, prog.fn("DiffTool::peek_matching_expectation"), "peek_matching_expectation", "expectation")
    _search_shape(ctx, prog.fn("DiffTool::peek_matching_line"), "peek_matching_line", "line")
    # bounds of the direct index in peek_match (`lines[current_line_index]`) are discharged by R3.3 peek-args (L in bounds at the call)


def run(ctx):
    ctx.run_rule("R3.1", TEXT["R3.1"], _mk("R3.1"), floor=9)
    ctx.run_rule("R3.2", TEXT["R3.2"], _mk("R3.2"), floor=2)
    ctx.run_rule("R3.3", "look-ahead: called on (L, LINES, E); expectation search from E+1 preferred over the line search from L+1; both return the first hit >= start [E-FLOW, E-PATH]", lambda ctx: (report(ctx, {"R3.3"}), r3_3(ctx)), floor=12)
