"""C10 — `update` rewrites only failing expectations and is idempotent (structural clauses)."""
from ..cfgq import aggregates, bool_edges, cond_tree, explore, place_key, stmt_loc, switches, variant_edges
from ..facts import AnchorError, Origins, callee_name, method_name, mname, peel, strip_mods
from . import c06, c09

# token variant -> text-carrying fields that must reach the rewritten document
KEEP = {
    "Line": ["1"],
    "DocumentConfig": ["0"],
    "VerbatimCodeBlock": ["lines"],
    "TestCodeBlock": ["language", "config_lines", "comment_lines"],
}
MAY_DROP = {"TestCodeBlock": ["code_lines"], "Line": ["0"], "VerbatimCodeBlock": ["starting_line_number", "language"]}
TRIM = {"str::trim", "str::trim_end", "str::trim_matches", "str::trim_end_matches"}


def _update(prog):
    return prog.impl_fn("MarkdownUpdateGenerator", "UpdateGenerator", "generate_update")


def _token_switch(f):
    for sb, st in switches(f):
        ve, rv = variant_edges(f, sb)
        if ve is not None and strip_mods(rv["ty"]).endswith("MarkdownToken") and set(ve) >= set(KEEP):
            # the match, not the drop-glue switches: all variants distinct
            if len(set(ve.values())) == len(ve):
                return sb, ve, rv
    raise AnchorError("generate_update: no exhaustive switch over MarkdownToken variants")


def r10_1(ctx):
    prog = ctx.prog
    f = _update(prog)
    o = Origins(f)
    sb, ve, rv = _token_switch(f)
    adt = prog.adt("MarkdownToken", crate="scrut-lib")
    ctx.check(sorted(ve) == sorted(v["name"] for v in adt["variants"]) and len(set(ve.values())) == len(ve), "exhaustive", f.loc(sb),
              "every MarkdownToken variant has its own arm in generate_update (no wildcard)", "token arms: %s" % ve)
    back = f.back_edges()
    pk = place_key(rv["place"])
    pushes = [(bb, t, o.operand(t["args"][1])) for bb, t in f.calls() if mname(t) in ("String::push_str", "String::push") and "updated" in f.arg_name(t["args"][0])]
    if len(pushes) < 8:
        raise AnchorError("generate_update: expected >= 8 writes into `updated`, found %d" % len(pushes))
    for variant, fields in sorted(KEEP.items()):
        for fld in fields:
            hit = []
            for bb, t, tree in pushes:
                for n in tree.walk():
                    if n.kind == "field" and n.a == fld and n.kids and n.kids[0].kind == "variant" and n.kids[0].a == variant:
                        hit.append((bb, tree))
            ok = bool(hit)
            trimmed = []
            for bb, tree in hit:
                trimmed += [m for m in (method_name(c) for c in tree.call_names()) if m in TRIM]
            # the per-line loops (lines / comment_lines) must iterate all elements
            filt = []
            for bb, tree in hit:
                filt += [m for m in (method_name(c) for c in tree.call_names()) if m in ("Iterator::skip", "Iterator::take", "Iterator::filter", "Iterator::step_by", "Iterator::rev")]
            ctx.check(ok and not trimmed and not filt, "kept:%s.%s" % (variant, fld), f.loc(hit[0][0]) if hit else f.loc(sb),
                      "%s.%s is written back to the updated document (all of it, not right-trimmed)" % (variant, fld),
                      "%s.%s of the original document %s" % (variant, fld, "never reaches the updated document: that text is lost on update" if not ok else
                                                                 "passes %s on the way" % (trimmed + filt)))
    # code_lines is replaced by the generated test of the same block
    from ..facts import chain_to
    gen = []
    for bb, t, tree in pushes:
        ch = chain_to(tree, lambda n: n.kind == "call" and method_name(n.a) == "OutcomeTestGenerator::generate_testcase")
        if ch is not None and "max_backtick_size" not in ch and "str::repeat" not in ch:
            gen.append((bb, tree))
    ctx.check(len(gen) == 1, "code-replaced", f.where(), "the block's code lines are replaced by the generated test of its outcome (one write)",
              "found %d writes of generated test text" % len(gen))
    # front-matter delimiters are re-emitted around the config
    lits = [peel(tree).a.as_str() for bb, t, tree in pushes if peel(tree).kind == "const"]
    # kept lines are terminated one by one: assure_newline on a *joined* text adds nothing when the last kept line is empty - that blank line is lost
    joined = []
    for bb, t, tree in pushes:
        for n in tree.walk():
            if n.kind == "call" and method_name(n.a).endswith("assure_newline") and any(
                    x.kind == "call" and method_name(x.a).split("::")[-1] in ("join_newline", "join", "concat") for x in n.walk()):
                joined.append(f.loc(bb))
    ctx.check(not joined, "kept-lines-terminated-individually", joined[0] if joined else f.where(), "assure_newline is applied to single kept lines, never to a joined text",
              "assure_newline is applied to the joined lines: when the last kept line is empty the joined text already ends in a line feed and that blank line is not "
              "written - a front-matter ending in blank lines loses one of them on every update")
    lead = [x for x in lits if x and x.startswith("\n")]
    ctx.check(lits.count("---\n") == 2 and not lead, "front-matter-delimiters", f.where(),
              "the front-matter is re-emitted between two `---` lines; no literal write begins with a line feed (lines are written one by one)",
              "literal writes: %s - %s" % (lits, "a line feed is written whether or not a front-matter line precedes it: an empty front-matter (`---` directly followed by "
                                            "`---`) gains a blank line on update" if lead else "the front-matter delimiters are not written as two `---` lines"))


def r10_2(ctx):
    c06.r6_1(ctx)
    # the updater iterates the same tokenizer over the whole original document
    f = _update(ctx.prog)
    o = Origins(f)
    mk = [(bb, t) for bb, t in f.calls() if mname(t) == "MarkdownIterator::new"]
    ok = len(mk) == 1 and o.operand(mk[0][1]["args"][1]).has_call("str::lines") and any(n.kind == "arg" and n.a == 2 for n in o.operand(mk[0][1]["args"][1]).walk())
    ctx.check(ok, "tokenizes-original", f.where(), "generate_update tokenizes all lines of the original document")
    bad = [mname(t) for _, t in f.calls() if mname(t) in ("Iterator::take", "Iterator::skip", "Iterator::take_while", "Iterator::skip_while", "Iterator::step_by")]
    ctx.check(not bad, "all-tokens", f.where(), "all tokens are re-emitted (no take/skip adaptor)", "token iterator passes %s" % bad)


def r10_3(ctx):
    prog = ctx.prog
    g = prog.impl_fn("Outcome", "OutcomeTestGenerator", "generate_testcase")
    o = Origins(g)
    sw = None
    for sb, st in switches(g):
        ve, rv = variant_edges(g, sb)
        if ve is not None and set(ve) == {"Ok", "Err"} and [p["n"] for p in g.canon_place(rv["place"])["p"] if isinstance(p, dict) and "n" in p][-1:] == ["result"]:
            sw = (sb, ve, rv)
    if sw is None:
        raise AnchorError("generate_testcase: no switch on self.result")
    sb, ve, rv = sw
    pk = place_key(rv["place"])
    ok_reg = set(explore(g, ve["Ok"], {pk: "Ok"}).keys()) - set(explore(g, ve["Err"], {pk: "Err"}).keys())
    # in the Ok arm, expectations are emitted by a for_each closure using original_string
    fe = [(bb, t) for bb, t in g.calls() if bb in ok_reg and mname(t) == "Iterator::for_each"]
    ctx.check(len(fe) == 1, "ok-arm-iterates", g.loc(sb), "a passing test re-emits its expectations")
    for bb, t in fe:
        src = o.operand(t["args"][0])
        filt = [m for m in (method_name(c) for c in src.call_names()) if m in ("Iterator::skip", "Iterator::take", "Iterator::filter")]
        ctx.check(any(n.kind == "field" and n.a == "expectations" for n in src.walk()) and not filt, "ok-arm-all-expectations", g.loc(bb),
                  "all expectations of the test case, in order", "the Ok arm iterates %s" % src.show()[:80])
        cl = peel(o.operand(t["args"][1]))
        cb = prog.body_by_def(cl.a[0][len("closure "):], g.crate) if cl.kind == "agg" and cl.a[0].startswith("closure ") else None
        if cb is None:
            ctx.bad("ok-arm-closure", g.loc(bb), "cannot find the closure emitting passing expectations")
            continue
        names = [mname(t2) for _, t2 in cb.calls()]
        ctx.check("Expectation::original_string" in names and "Expectation::to_expression_string" not in names and "Rule::to_expression_string" not in names,
                  "ok-arm-verbatim", cb.where(), "passing expectations are written exactly as in the original (original_string), not re-rendered",
                  "passing expectations are rendered through %s" % [n for n in names if n and "string" in n])
    # expression and exit code are part of the Ok arm too
    calls = {(callee_name(t) or "").split("::")[-1] for bb, t in g.calls() if bb in ok_reg}
    ctx.check({"generate_testcase_expression", "generate_testcase_exit_code"} <= calls, "ok-arm-command-and-code", g.loc(sb),
              "a passing test keeps its command and its exit-code line")


def r10_4(ctx):
    prog = ctx.prog
    f = _update(prog)
    o = Origins(f)
    sb, ve, rv = _token_switch(f)
    pk = place_key(rv["place"])
    back = f.back_edges()
    regs = {v: set(explore(f, tg, {pk: v}, removed_edges=back).keys()) for v, tg in ve.items()}
    from .c14 import _counter_incs
    # the outcome index is bound by role: the local that indexes the outcomes argument (outcomes[n])
    idx_names = set()
    for bi, blk in enumerate(f.blocks):
        if blk["cleanup"]:
            continue
        for st in blk["stmts"]:
            if st["k"] == "assign":
                for pl in c06._places_of(st):
                    c = f.canon_place(pl)
                    for p_ in c["p"]:
                        if isinstance(p_, dict) and "idx" in p_ and c["l"] == 3:
                            idx_names.add(f.place_name({"l": p_["idx"], "p": []}))
        t_ = blk["term"]
        if t_["k"] == "call" and mname(t_) in ("slice::get", "Index::index") and any(n.kind == "arg" and n.a == 3 for n in o.operand(t_["args"][0]).walk()) and len(t_["args"]) > 1:
            pl_ = t_["args"][1].get("copy") or t_["args"][1].get("move")
            if pl_ is not None:
                idx_names.add(f.place_name(f.canon_place(pl_)))
    if len(idx_names) != 1:
        raise AnchorError("generate_update: the local indexing `outcomes` is not unique: %s" % sorted(idx_names))
    INDEX = idx_names.pop()
    incs = [(bb, nm) for bb, si, nm in _counter_incs(f) if nm == INDEX]
    in_test = [bb for bb, nm in incs if bb in regs["TestCodeBlock"] and not any(bb in regs[v] for v in regs if v != "TestCodeBlock")]
    ctx.check(len(incs) == 1 and len(in_test) == 1, "index-once-per-test-block", f.where(), "the outcome index (%s) is incremented exactly once, in the TestCodeBlock arm" % INDEX,
              "outcome index increments: %d total, %d exclusive to the TestCodeBlock arm" % (len(incs), len(in_test)))
    # every path through the TestCodeBlock arm that reads outcomes[..] passes the increment exactly once, the others never
    from .c20 import _segment_events
    reads = set()
    for bi, blk in enumerate(f.blocks):
        if blk["cleanup"]:
            continue
        for st in blk["stmts"]:
            if st["k"] == "assign":
                for pl in c06._places_of(st):
                    c = f.canon_place(pl)
                    if c["l"] == 3 and any(isinstance(p_, dict) and "idx" in p_ for p_ in c["p"]):
                        reads.add(bi)
        t = blk["term"]
        if t["k"] == "call" and mname(t) in ("slice::get", "Index::index") and any(n.kind == "arg" and n.a == 3 for n in o.operand(t["args"][0]).walk()):
            reads.add(bi)
    ev = {}
    for bb in in_test:
        ev.setdefault(bb, {})["inc"] = 1
    for bb in reads:
        ev.setdefault(bb, {})["read"] = 1
    if ev:
        keys, outs = _segment_events(f, ve["TestCodeBlock"], set(), ev)
        ki = {k: i for i, k in enumerate(keys)}
        combos = {(cnt[ki["read"]] if "read" in ki else 0, cnt[ki["inc"]] if "inc" in ki else 0) for how, cnt in outs if how == "stop"}
        ctx.check(combos and combos <= {(1, 1), (0, 0)}, "index-paired-with-read", f.where(),
                  "every completed TestCodeBlock iteration either renders outcomes[n] and increments n once, or does neither",
                  "(outcome reads, index increments) per iteration: %s" % sorted(combos))
    idx = set()
    for bi, blk in enumerate(f.blocks):
        if blk["cleanup"]:
            continue
        for st in blk["stmts"]:
            if st["k"] != "assign":
                continue
            for pl in c06._places_of(st):
                c = f.canon_place(pl)
                for p in c["p"]:
                    if isinstance(p, dict) and "idx" in p and c["l"] == 3:
                        idx.add((bi, f.place_name({"l": p["idx"], "p": []})))
    names = sorted({n for _, n in idx})
    ctx.check(names == [INDEX] and len({b for b, _ in idx}) == 1, "outcome-by-index", f.where(), "the n-th test block is rewritten from outcomes[n] (single reader)",
              "outcomes is indexed by %s at %d sites" % (names, len(idx)))


def _command_start_literal(prog):
    """the prefix with which LineParser::add_testcase_body starts a command: the strip_prefix literal of the command push whose
    branch also sets the in-command flag to true"""
    from ..cfgq import const_str_of
    lp = prog.fn("LineParser::add_testcase_body")
    ol = Origins(lp)
    cmd_field = prog.field_by_type("LineParser", "Vec<String>", "command")
    true_stores = []
    for bi, blk in enumerate(lp.blocks):
        if blk["cleanup"]:
            continue
        for st in blk["stmts"]:
            if st["k"] == "assign" and st["lhs"]["p"] and st["rv"]["k"] == "use" and "const" in st["rv"]["op"] and st["rv"]["op"]["const"]["ty"] == "bool" \
                    and int(st["rv"]["op"]["const"]["val"].get("bits", 0)) == 1:
                true_stores.append(bi)
    lits = []
    for pb, pt in lp.calls():
        if mname(pt) != "Vec::push" or not lp.arg_name(pt["args"][0]).endswith(cmd_field):
            continue
        arg = ol.operand(pt["args"][1])
        pre = [n for n in arg.walk() if n.kind == "call" and method_name(n.a) == "str::strip_prefix"]
        if len(pre) != 1 or pre[0].at is None:
            continue
        lit = const_str_of(prog, lp, pre[0].kids[1])
        sp_block = pre[0].at[0]
        # the branch of this strip_prefix: blocks dominated by its call block from which the push is reached
        if any(lp.dominates(sp_block, tb) and (pb in lp.reachable(tb) or tb in lp.reachable(pb)) for tb in true_stores):
            lits.append(lit)
    if len(lits) != 1 or lits[0] is None:
        raise AnchorError("LineParser::add_testcase_body: the command-start prefix could not be determined (candidates %s)" % lits)
    return lits[0]


def r10_8(ctx):
    """sibling agreement parser <-> update generator on which scrut blocks hold a test case. The parser yields a test case for a block
    iff one of its code lines starts a command (LineParser: `strip_prefix("$ ")`; a block of comments, or with nothing but an exit code
    line, parses fine and yields none). The generator must consume an outcome under the same condition, otherwise the n-th outcome
    is written into the wrong block and indexing runs past the end (panic)"""
    from ..cfgq import const_str_of
    prog = ctx.prog
    start = _command_start_literal(prog)
    ctx.ok("parser-condition", prog.fn("LineParser::add_testcase_body").where(), "the parser starts a command (and with it a test case) on the prefix %r" % start)
    f = _update(prog)
    o = Origins(f)
    reads = []
    for bi, blk in enumerate(f.blocks):
        if blk["cleanup"]:
            continue
        for st in blk["stmts"]:
            if st["k"] == "assign":
                for pl in c06._places_of(st):
                    c = f.canon_place(pl)
                    if c["l"] == 3 and any(isinstance(p_, dict) and "idx" in p_ for p_ in c["p"]):
                        reads.append(bi)
    reads = sorted(set(reads))

    def command_guard(bb):
        """bb is reached only on the true edge of `code_lines.iter().any(|line| line starts with <start>)` (or find / position .. is Some)"""
        for sb, st in switches(f):
            be = bool_edges(f, sb)
            if be is None:
                continue
            tree = cond_tree(f, sb, o)
            neg = False
            while tree.kind == "un" and tree.a == "Not":
                neg, tree = not neg, tree.kids[0]
            hit = None
            for n in tree.walk():
                if n.kind == "call" and method_name(n.a) in ("Iterator::any", "Iterator::find", "Iterator::position", "Iterator::find_map") and \
                        any(x.kind == "field" and x.a == "code_lines" for x in n.walk()):
                    hit = n
            if hit is None:
                continue
            lits = []
            for x in hit.walk():
                if x.kind == "agg" and isinstance(x.a, tuple) and str(x.a[0]).startswith("closure "):
                    cb = prog.body_by_def(x.a[0][len("closure "):], f.crate)
                    if cb is None:
                        continue
                    oc = Origins(cb)
                    for cbb, ct in cb.calls():
                        if mname(ct) in ("str::starts_with", "str::strip_prefix"):
                            lits.append(const_str_of(prog, cb, oc.operand(ct["args"][1])))
            edge = be[1] if neg else be[0]
            if bb in f.reachable(edge) and bb not in f.reachable(0, removed_edges=[(sb, edge)]):
                return lits
        return None
    gg = [command_guard(bb) for bb in reads]
    if reads and any(g is None for g in gg):
        # loop / helper form (`for (_, line) in code_lines { if line.starts_with("$ ") { return true } } false`, inlined): decided by hypothesis - when
        # every `starts_with(<start>)` / `strip_prefix(<start>)` test over the code lines answers `no`, no outcome may be read
        from ..cfgq import explore
        tests, lits2 = {}, []
        for cb, ct in f.calls():
            if mname(ct) in ("str::starts_with", "str::strip_prefix") and len(ct["args"]) > 1:
                lit = const_str_of(prog, f, o.operand(ct["args"][1]))
                recv = o.operand(ct["args"][0])
                if lit is not None and any(x.kind == "field" and x.a == "code_lines" for x in recv.walk()):
                    lits2.append(lit)
                    if mname(ct) == "str::starts_with":
                        tests[cb] = False
        if tests and lits2 and set(lits2) == {start}:
            reach = explore(f, 0, {}, assume=tests)
            gg = [[start] if (g is None and bb not in reach) else g for g, bb in zip(gg, reads)]
    good = bool(reads) and all(g is not None and g == [start] for g in gg)
    ctx.check(good, "generator-agrees", f.loc(reads[0]) if reads else f.where(),
              "the update generator consumes an outcome only for a block with a code line starting with %r - the parser's own criterion" % start,
              "the update generator consumes outcomes[testcase_index] under a different condition (%s) than the parser's `some code line starts with %r`: a scrut block "
              "that parses to no test case (empty, or holding only an exit code line like `[1]`) still takes an outcome - the outcomes are written into the wrong "
              "blocks and `scrut update` panics (index out of bounds)" % (["no command test" if g is None else g for g in gg], start))


def r10_5(ctx):
    c09.r9_1(ctx)
    c09.r9_4(ctx)
    c09.r9_7(ctx)
    from . import c07
    c07.line_parser_rules(ctx)


def r10_6(ctx):
    """consumed-line conservation in the tokenizer (R6.6): after a line was read, every path to the
    next read / return stores that line in a token or consumes it as a delimiter"""
    prog = ctx.prog
    f = prog.fn("<MarkdownIterator<'_> as Iterator>::next")
    o = Origins(f)
    srcs, helpers = c06.source_calls(prog, f)
    src_blocks = {s[0] for s in srcs}

    def contains_read(tree):
        return any(n.kind == "call" and n.at is not None and n.at[0] in src_blocks and n.owner is f for n in tree.walk())
    events = {}
    # stores: Vec::push / token aggregates whose value derives from a read
    for bb, t in f.calls():
        if mname(t) == "Vec::push" and contains_read(o.operand(t["args"][1])):
            events.setdefault(bb, {})["store"] = 1
    for bi, blk in enumerate(f.blocks):
        for si, st in enumerate(blk["stmts"]):
            if st["k"] == "assign" and st["rv"]["k"] == "agg" and st["rv"]["agg"] == "adt" and strip_mods(st["rv"]["adt"]).endswith("MarkdownToken"):
                if any(contains_read(o.operand(op)) for op in st["rv"]["ops"]) and st["rv"]["variant"] == "Line":
                    events.setdefault(bi, {})["store"] = 1
    # delimiters: true edge of `line == "---"` / starts_with(backticks); Some edge of extract_code_block_start(line)
    for sb, st in switches(f):
        be = bool_edges(f, sb)
        if be is not None:
            tree = cond_tree(f, sb, o)
            neg = False
            while tree.kind == "un" and tree.a == "Not":
                neg = not neg
                tree = tree.kids[0]
            if tree.kind == "call" and method_name(tree.a) in ("PartialEq::eq", "PartialEq::ne", "str::starts_with") and contains_read(tree):
                if method_name(tree.a) == "PartialEq::ne":
                    neg = not neg
                tgt = be[1] if neg else be[0]
                events.setdefault(tgt, {})["delim"] = 1
        ve, rv = variant_edges(f, sb)
        if ve is not None and "Some" in ve:
            d = f.single_def(rv["place"]["l"])
            if d and d[2] == "call" and (callee_name(d[3]) or "").endswith("extract_code_block_start"):
                events.setdefault(ve["Some"], {})["delim"] = 1
    from .c20 import _segment_events
    n = 0
    for k, (bb, t, helper) in enumerate(sorted(srcs)):
        se = c06.success_edge(f, bb, t)
        if se is None:
            ctx.bad("read#%d" % k, f.loc(bb), "cannot find the success edge of this line read")
            continue
        sb2, target, _ = se
        keys, outs = _segment_events(f, target, src_blocks, events)
        ki = {kk: i for i, kk in enumerate(keys)}
        bad = []
        for how, cnt in outs:
            st = cnt[ki["store"]] if "store" in ki else 0
            dl = cnt[ki["delim"]] if "delim" in ki else 0
            if st + dl == 0 or st > 1:
                bad.append((how, st, dl))
        n += 1
        ctx.check(not bad, "line-conserved#%d" % k, f.loc(bb),
                  "after this read every path stores the line in exactly one token field or consumes it as a delimiter before the next read",
                  "after this read there is a path on which the line is %s: document text is lost (or duplicated) by the tokenizer, so `update` cannot "
                  "reproduce the original" % ("dropped" if any(b[1] + b[2] == 0 for b in bad) else "stored twice"))
    ctx.check(n >= 3, "reads-analysed", f.where(), "%d line reads analysed" % n)


def r10_7(ctx):
    """`original` (what a passing test is re-emitted from) is the expectation line exactly as written"""
    from ..facts import chain_to
    prog = ctx.prog
    p = prog.fn("ExpectationMaker::parse")
    o = Origins(p)
    mk = [(bb, t) for bb, t in p.calls() if (callee_name(t) or "").endswith("ExpectationMaker::make")]
    if len(mk) != 1:
        raise AnchorError("ExpectationMaker::parse: make call not found")
    bb, t = mk[0]
    orig = o.operand(t["args"][5])
    ch = chain_to(orig, lambda n: n.kind == "arg" and n.a == 2) or ["<not derived from the line>"]
    ch = [c for c in ch if c not in ("Deref::deref", "Cow::deref", "Borrow::borrow", "AsRef::as_ref")]
    ctx.check(ch in ([], ["StringNewline::trim_newlines"]), "original-verbatim", p.loc(bb),
              "the stored original is the line as written (only the line terminator removed)",
              "the stored original flows through %s: trailing/leading whitespace of a passing expectation is lost when `update` re-emits it" % ch)
    m = prog.fn("ExpectationMaker::make")
    om = Origins(m)
    from ..cfgq import aggregates
    for ab, si, rv in aggregates(m, "Expectation", "Expectation"):
        src = om.operand(rv["ops"][rv["fields"].index("original")])
        chm = [c for c in (chain_to(src, lambda n: n.kind == "arg" and n.a == 6) or ["<other>"]) if c not in ("Into::into", "From::from", "ToString::to_string", "ToOwned::to_owned")]
        ctx.check(chm == [], "make-stores-original", stmt_loc(m, ab, si), "make() stores the original unchanged", "make() stores original through %s" % chm)
    g = prog.fn("Expectation::original_string")
    r = peel(Origins(g).local(0))
    ctx.check(r.kind == "field" and r.a == "original", "original-string-getter", g.where(), "original_string() returns the stored original unchanged", "original_string is %s" % r.show())


SELECTORS = {"Index::index", "slice::first", "slice::last", "slice::get", "Vec::first", "Vec::last", "Iterator::take", "Iterator::skip", "Iterator::nth",
             "Iterator::next", "Iterator::last", "Iterator::filter", "slice::split_first", "slice::split_at", "Iterator::step_by"}


def r10_9(ctx):
    """command wiring: the parser (FileParser::new) and the update generator (MarkdownUpdateGenerator::new) of the update command
    receive the same, whole `--markdown-languages` list - otherwise they disagree on which fenced blocks are test blocks and the
    n-th outcome is written into the wrong block"""
    prog = ctx.prog
    seen = {}
    for b in prog.bodies:
        if b.promoted is not None or not b.crate.startswith("scrut-bin") or "update::Args" not in b.npath:
            continue
        o = None
        for bb, t in b.calls():
            n = strip_mods(callee_name(t) or "")
            import re as _re
            n = _re.sub(r"::<[^>]*>", "", callee_name(t) or "")
            which = "generator" if n.endswith("MarkdownUpdateGenerator::new") else ("parser" if n.endswith("FileParser::new") else None)
            if which is None:
                continue
            o = o or Origins(b)
            tree = o.operand(t["args"][-1])
            from_field = any(x.kind == "field" and x.a == "markdown_languages" for x in tree.walk())
            sel = sorted({method_name(x.a) for x in tree.walk() if x.kind == "call" and method_name(x.a) in SELECTORS})
            lits = [x for x in tree.walk() if x.kind == "agg" and x.a[0] == "array"]
            seen[which] = (b, bb)
            ctx.check(from_field and not sel and not lits, "languages:" + which, b.loc(bb),
                      "the %s of `update` is built from the whole markdown_languages list" % which,
                      "the %s of `update` is built from %s (selectors %s, literal arrays %d): parser and generator no longer agree on which fenced blocks "
                      "are test blocks, outcomes are written into the wrong blocks" % (which, tree.show()[:100], sel, len(lits)))
    ctx.check(set(seen) == {"generator", "parser"}, "languages:sites", "-", "update builds one parser and one Markdown update generator",
              "found only %s" % sorted(seen))


def run(ctx):
    ctx.run_rule("R10.1", "token-field conservation in generate_update: every text field of every token variant is written back untrimmed; only code_lines is replaced [E-FLOW]", r10_1, floor=9)
    ctx.run_rule("R10.2", "the tokenizer never ends early (R6.1) and generate_update re-emits all tokens of the original document [E-PATH]", r10_2, floor=4)
    ctx.run_rule("R10.3", "a passing test is re-emitted from original_string (all expectations, command, exit code) [E-FLOW]", r10_3, floor=4)
    ctx.run_rule("R10.4", "block/outcome pairing: testcase_index incremented exactly once per test block; outcomes[testcase_index] single reader [E-STATE]", r10_4, floor=3)
    ctx.run_rule("R10.5", "fence and `$`/`>`/`[code]` writer-reader tables (R9.1, R9.4): the rewritten block parses to the same commands [E-TABLE]", r10_5, floor=15)
    ctx.run_rule("R10.9", "update command wiring: parser and update generator are built from the same whole markdown_languages list [E-FLOW]", r10_9, floor=3)
    ctx.run_rule("R10.10", "writer/reader fence agreement: the parser closes a block on a column-0 prefix test against the opening fence - what the writer's max_backtick_size measures (shared with C06 R6.9) [E-TABLE]", c06.r6_9, floor=3)
    ctx.run_rule("R10.8", "sibling agreement: parser and update generator agree on which scrut blocks carry a test case (non-empty code lines) [E-TABLE/E-PATH]", r10_8, floor=2)
    ctx.run_rule("R10.7", "the text a passing expectation is re-emitted from is the line as written: parse -> make -> original_string without trimming [E-FLOW]", r10_7, floor=3)
    ctx.run_rule("R10.11", "lines verbatim: the tokenizer hands every document line on unchanged (no trim / cut), so text outside the scrut blocks and the blocks' own lines are reproduced byte for byte (shared with C06 R6.15) [E-FLOW]", c06.r6_15, floor=5)
    from . import c01
    ctx.run_rule("R10.12", "assure_newline (how update writes every kept line back) names no character but `\\n` and calls no trimming: a kept line is written as it was read, plus at most the missing line feed [E-TABLE of constants]",
                 lambda c: c01.r1_9(c, names=("assure_newline",), tag="assure-newline-only", min_bodies=4), floor=4)
    ctx.run_rule("R10.13", "the exit code line: every `[n]` line the generator writes is written for n != 0 or for the zero the test spells out itself, on every path (shared with C09 R9.10); where the exit code was the expected one a spelled-out `[0]` is kept (F55) [E-PATH]", lambda c: c09.r9_10(c, keep_written_zero=True), floor=5)
    ctx.run_rule("R10.6", "consumed-line conservation in MarkdownIterator::next: each read line is stored once or consumed as a delimiter on every path [E-STATE by dataflow]", r10_6, floor=4)
