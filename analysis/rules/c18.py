"""C18 — per-document work directory, documented environment, complete clean-up (structural clauses)."""
import os
import re

from ..cfgq import aggregates, bool_edges, cond_tree, const_str_of, explore, place_key, stmt_loc, switches, variant_edges
from ..facts import AnchorError, Origins, call_name, callee_name, method_name, mname, peel, strip_mods

CREATE = {"TempDir::with_prefix", "TempDir::with_prefix_in", "TempDir::new", "TempDir::new_in", "TempDir::with_suffix", "TempDir::with_suffix_in",
          "tempdir", "tempdir_in", "Builder::tempdir", "Builder::tempdir_in", "create_dir", "create_dir_all", "DirBuilder::create", "tempfile_in", "tempfile",
          "NamedTempFile::new", "NamedTempFile::new_in"}
LEAK = {"TempDir::into_path", "TempDir::keep", "TempDir::disable_cleanup", "forget", "mem::forget", "ManuallyDrop::new", "Box::leak", "NamedTempFile::keep", "NamedTempFile::persist",
        "TempPath::keep", "TempPath::persist"}
REMOVE = {"remove_dir", "remove_dir_all", "remove_file", "TempDir::close"}
EXIT = {"exit", "abort", "process::exit", "process::abort"}


def _sites(prog, names):
    for b in prog.bodies:
        if b.promoted is not None:
            continue
        for bb, t in b.calls():
            m = mname(t)
            raw = t.get("callee", "")
            if m in names and (raw.startswith("tempfile::") or raw.startswith("std::fs::") or raw.startswith("std::mem::") or raw.startswith("std::process::")
                               or raw.startswith("std::boxed::") or raw.startswith("core::mem::") or raw.startswith("std::mem::ManuallyDrop")):
                yield b, bb, t, m


def _keep_guard(f, o, bb):
    """is block bb reachable only through the true edge of a test of `keep_temporary_directories`?"""
    for sb, st in switches(f):
        be = bool_edges(f, sb)
        if be is None:
            continue
        tree = peel(cond_tree(f, sb, o))
        name = None
        if tree.kind == "arg":
            for d in f.j["debug"]:
                if d.get("arg") == tree.a or (d["value"].get("l") == tree.a and not d["value"].get("p")):
                    name = d["name"]
        elif tree.kind == "field":
            name = tree.a
        if name and "keep" in name:
            tt, tf = be
            if bb in f.reachable(tt) and bb not in f.reachable(0, removed_edges=[(sb, tt)]):
                return name
    return None


def r18_1(ctx):
    prog = ctx.prog
    sites = list(_sites(prog, CREATE))
    n = 0
    counts = {}
    for b, bb, t, m in sites:
        n += 1
        o = Origins(b)
        k = counts.setdefault((b.npath, m), 0)
        counts[(b.npath, m)] = k + 1
        fn = b.name if b.npath.startswith("<") else b.npath.split("::")[-1]
        key = "create:%s:%s#%d" % (fn, m, k)
        where = b.loc(bb)
        dest = t["dest"]["l"]
        if m.startswith("TempDir::") or m in ("tempdir", "tempdir_in"):
            # where does the TempDir value go?
            uses = _uses_of_value(b, o, bb)
            if "leak" in uses:
                g = _keep_guard(b, o, uses["leak"])
                ctx.check(g is not None, key, where, "the TempDir is detached from clean-up only under `%s`" % g,
                          "a TempDir is leaked (into_path/keep) outside the keep_temporary_directories branch: the directory is never removed")
            elif "ephemeral" in uses or "owned-local" in uses:
                ctx.ok(key, where, "the TempDir is owned (%s): removed when the owner is dropped" % ("EnvironmentDirectory::Ephemeral" if "ephemeral" in uses else "local binding alive to the end of the function"))
            else:
                ctx.bad(key, where, "cannot establish who owns this TempDir (uses: %s)" % sorted(uses))
        elif m in ("create_dir", "create_dir_all"):
            arg = o.operand(t["args"][0])
            under_temp = arg.has_call("TempDir::path") or (b.name == "create_random_sub_directory")
            ctx.check(under_temp, key, where, "the directory is created beneath a TempDir / a directory handed in by an owning caller",
                      "fs::%s creates %s outside any owned temporary directory" % (m, arg.show()[:80]))
        else:
            arg = o.operand(t["args"][0]) if t["args"] else None
            ok = arg is not None and any(n2.kind == "field" and n2.a == "temp_directory" for n2 in arg.walk())
            ctx.check(ok, key, where, "the temporary file is created inside the execution's temp directory (unnamed, closed on drop)",
                      "a temporary file is created in %s" % (arg.show()[:80] if arg else "?"))
    ctx.check(n >= 8, "create-sites-floor", "-", "%d directory/file creating call sites analysed" % n,
              "only %d creating call sites found (8 confirmed by reading on the reference tree)" % n)
    # create_random_sub_directory only from the Ephemeral and Kept arms
    bw = prog.fn("TestFileEnvironment::build_work_directory")
    sw = None
    for sb, st in switches(bw):
        ve, rv = variant_edges(bw, sb)
        if ve is not None and strip_mods(rv["ty"]).replace("&", "").endswith("EnvironmentDirectory"):
            sw = (sb, ve, rv)
    if sw is None:
        raise AnchorError("build_work_directory: no switch over EnvironmentDirectory")
    sb, ve, rv = sw
    pk = place_key(rv["place"])
    creators = [bb for bb, t in bw.calls() if (callee_name(t) or "").endswith("create_random_sub_directory")]
    for v, tg in ve.items():
        reg = set(explore(bw, tg, {pk: v}).keys())
        calls = [bb for bb in creators if bb in reg]
        if v == "UserProvided":
            ctx.check(not calls, "subdir:" + v, bw.loc(sb), "a user provided work directory is used as it is (nothing is created in it per document)",
                      "the UserProvided arm reaches %d create_random_sub_directory call(s)" % len(calls))
        else:
            # every path of this arm passes a create call (the arms may share one call behind a common base path), and at most one
            must = bool(calls) and not any(rb in set(explore(bw, tg, {pk: v}, removed_blocks=calls).keys()) for rb in bw.return_blocks())
            once = not any(c2 in bw.reachable(s_) for c1 in calls for s_ in bw.succ(c1) for c2 in calls)
            ctx.check(must and once, "subdir:" + v, bw.loc(sb), "in the %s arm each document gets its own sub-directory" % v,
                      "the %s arm reaches %d per-document directory creations (on every path: %s, at most once: %s)" % (v, len(calls), must, once))


def _uses_of_value(b, o, bb):
    """follow the TempDir produced at call block bb through context()/`?` into its sinks"""
    out = {}
    # forward: find aggregates / calls whose operand trees contain this call node
    def contains(tree):
        return any(n.kind == "call" and n.at == (bb, "term") for n in tree.walk())
    for bi, t in b.calls():
        if bi == bb:
            continue
        m = mname(t)
        for a in t["args"]:
            tr = o.operand(a)
            if contains(tr):
                if m in LEAK:
                    out["leak"] = bi
    for bi, blk in enumerate(b.blocks):
        for si, st in enumerate(blk["stmts"]):
            if st["k"] == "assign" and st["rv"]["k"] == "agg" and st["rv"]["agg"] == "adt":
                for op in st["rv"]["ops"]:
                    if contains(o.operand(op)):
                        if st["rv"]["variant"] == "Ephemeral":
                            out["ephemeral"] = bi
                        elif st["rv"]["variant"] not in ("Ok", "Some", "Continue"):
                            out.setdefault("agg:" + st["rv"]["variant"], bi)
    # a user-named local bound to the value and never moved out
    for d in b.j["debug"]:
        v = d["value"]
        if "l" in v and not v["p"]:
            tr = o.local(v["l"])
            if contains(tr) and "tempfile::TempDir" in b.lty(v["l"]) and not b.lty(v["l"]).startswith("std::result"):
                moved = False
                for bi, blk in enumerate(b.blocks):
                    for st in blk["stmts"]:
                        if st["k"] == "assign":
                            rv = st["rv"]
                            ops = [rv.get("op")] if rv["k"] == "use" else rv.get("ops", [])
                            for op in ops:
                                if op and "move" in op and op["move"]["l"] == v["l"] and not op["move"]["p"]:
                                    moved = True
                    t = blk["term"]
                    if t["k"] == "call":
                        for a in t["args"]:
                            if "move" in a and a["move"]["l"] == v["l"] and not a["move"]["p"]:
                                moved = True
                if not moved:
                    out["owned-local"] = v["l"]
    return out


def r18_2(ctx):
    prog = ctx.prog
    leaks = list(_sites(prog, LEAK))
    k = 0
    for b, bb, t, m in leaks:
        o = Origins(b)
        g = _keep_guard(b, o, bb)
        k += 1
        ctx.check(g is not None, "leak-api#%d" % k, b.loc(bb), "%s only under `%s`" % (m, g), "%s is called outside the keep_temporary_directories branch" % m)
    exits = list(_sites(prog, EXIT))
    ctx.check(not exits, "no-exit", "-", "no process::exit / abort in lib or bin: every return path runs destructors (main returns ExitCode)",
              "process::exit/abort at %s" % [(b.npath, b.loc(bb)) for b, bb, t, m in exits])
    cargo = open(os.path.join(ctx.repo, "Cargo.toml"), encoding="utf-8").read()
    ctx.check(not re.search(r"(?m)^\s*panic\s*=\s*[\"']abort[\"']", cargo), "no-panic-abort", "Cargo.toml", "no profile sets panic = \"abort\" (unwinding runs TempDir destructors)")
    m = [b for b in prog.bodies if b.promoted is None and b.crate.startswith("scrut-bin") and b.npath == "main"]
    ctx.check(len(m) == 1 and "ExitCode" in m[0].lty(0), "main-returns-exitcode", m[0].where() if m else "-", "main returns ExitCode instead of exiting the process")
    if ctx.ctrl is not None:
        cl = list(_sites(ctx.ctrl, EXIT))
        ctx.control("process-exit", any("control_exit" in b.npath for b, *_ in cl), "fixtures/positive control_exit")
        cr = list(_sites(ctx.ctrl, REMOVE))
        ctx.control("remove-dir", any("control_remove" in b.npath for b, *_ in cr), "fixtures/positive control_remove")
        cf = list(_sites(ctx.ctrl, LEAK))
        ctx.control("mem-forget", any("control_forget" in b.npath for b, *_ in cf), "fixtures/positive control_forget")


def r18_3(ctx):
    rem = list(_sites(ctx.prog, REMOVE))
    ctx.check(not rem, "no-remove", "-", "no fs::remove_* in non-test code: a --work-directory can only lose the TempDir created inside it",
              "directories/files are removed explicitly at %s" % [(b.npath, b.loc(bb), m) for b, bb, t, m in rem])


def doc_env_names(repo):
    p = os.path.join(repo, "website/docs/reference/fundamentals/environment-variables.md")
    text = open(p, encoding="utf-8").read()
    sections = re.split(r"(?m)^## ", text)
    out = {}
    for s in sections[1:]:
        title = s.splitlines()[0].strip()
        names = re.findall(r"(?m)^- `([A-Z_]+)`", s)
        out[title] = names
    return out


def r18_4(ctx):
    prog = ctx.prog
    docs = doc_env_names(ctx.repo)
    f = prog.fn("TestFileEnvironment::build_env_vars")
    o = Origins(f)
    # names set unconditionally / on the cram_compat edge
    sw = None
    for sb, st in switches(f):
        be = bool_edges(f, sb)
        if be is None:
            continue
        tree = peel(cond_tree(f, sb, o))
        if tree.kind == "field" and tree.a == "cram_compat":
            sw = (sb, be)
    if sw is None:
        raise AnchorError("build_env_vars: no branch on cram_compat")
    sb, (tt, tf) = sw
    cram_only = set(f.reachable(tt)) - set(f.reachable(tf))
    always, cram = [], []
    for bi, blk in enumerate(f.blocks):
        for si, st in enumerate(blk["stmts"]):
            if st["k"] == "assign" and st["rv"]["k"] == "agg" and st["rv"]["agg"] == "tuple" and len(st["rv"]["ops"]) == 2:
                k = peel(o.operand(st["rv"]["ops"][0]))
                name = None
                for n in k.walk():
                    if n.kind == "const" and n.a.as_str() is not None:
                        name = n.a.as_str()
                if name is None:
                    name = const_str_of(prog, f, k)
                if name and re.match(r"^[A-Z_]+$", name):
                    (cram if bi in cram_only else always).append(name)
    extra = {"SHELL", "SCRUT_TEST"}
    spec = [n for title, ns in docs.items() if "Cram" not in title for n in ns]
    spec_cram = [n for title, ns in docs.items() if "Cram" in title for n in ns]
    missing = [n for n in spec if n not in always and n not in extra]
    ctx.check(not missing and len(spec) >= 10, "documented-vars-set", f.where(), "every documented variable is set for every test case: %s" % sorted(always),
              "documented variables %s are not set by build_env_vars" % missing)
    ctx.check(sorted(cram) == sorted(spec_cram), "cram-vars-conditional", f.loc(sb), "the Cram extras %s are set exactly on the cram_compat edge" % sorted(cram),
              "Cram variables: code sets %s on the cram_compat edge, documentation lists %s" % (sorted(cram), sorted(spec_cram)))
    undocumented = [n for n in always if n not in spec]
    ctx.check(not undocumented, "no-undocumented-vars", f.where(), "no variable is set that the documentation does not list", "undocumented variables set: %s" % undocumented)
    # SHELL and SCRUT_TEST
    r = prog.impl_fn("SubprocessRunner", "Runner", "run")
    orr = Origins(r)
    shell = [bb for bb, t in r.calls() if mname(t) == "BTreeMap::insert" and any(const_str_of(prog, r, n) == "SHELL" for n in orr.operand(t["args"][1]).walk() if n.kind == "const")]
    ctx.check(len(shell) == 1, "SHELL", r.where(), "SubprocessRunner::run sets SHELL for every execution")
    e = prog.impl_fn("StatefulExecutor", "Executor", "execute_all")
    oe = Origins(e)
    st_ = []
    for bb, t in e.calls():
        if mname(t) == "BTreeMap::insert" and any(const_str_of(prog, e, n) == "SCRUT_TEST" for n in oe.operand(t["args"][1]).walk() if n.kind == "const"):
            st_.append((bb, t))
    ctx.check(len(st_) == 1, "SCRUT_TEST", e.where(), "execute_all sets SCRUT_TEST for every test case")
    for bb, t in st_:
        from ..fmtq import FmtError, pieces
        try:
            ps = pieces(oe.operand(t["args"][2]))
            text = "".join(p if isinstance(p, str) else "{}" for p in ps)
            args = [p for p in ps if not isinstance(p, str)]
            ok = text == "{}:{}" and any(n.kind == "field" and n.a == "file" for n in args[0][1].walk()) and any(n.kind == "field" and n.a == "line_number" for n in args[1][1].walk())
        except (FmtError, IndexError):
            ok = False
        ctx.check(ok, "SCRUT_TEST-format", e.loc(bb), "SCRUT_TEST is `<document path>:<line number of the test case>`")
        heads = [hb for hb, ht in e.calls() if mname(ht) == "Iterator::next" and "Enumerate<" in (ht.get("self_ty") or "")]
        ctx.check(bool(heads) and all(e.dominates(h, bb) for h in heads), "SCRUT_TEST-per-testcase", e.loc(bb), "it is set inside the per-test-case loop")
    # with_environment(&env_vars) inside the per-test-case closure of test / update / create
    n = 0
    for cmd in ("test", "update", "create"):
        run = prog.fn("%s::Args::run" % cmd)
        bodies = [run] + prog.closures_of(run)
        sites = [(b, bb) for b in bodies for bb, t in b.calls() if (callee_name(t) or "").endswith("TestCaseConfig::with_environment")]
        n += len(sites)
        ctx.check(len(sites) >= 1, "with-environment:" + cmd, run.where(), "`scrut %s` applies the environment variables to each test case" % cmd,
                  "`scrut %s` never applies build_env_vars' variables to its test cases" % cmd)
        init = [bb for bb, t in run.calls() if (callee_name(t) or "").endswith("TestEnvironment::init_test_file")]
        ctx.check(len(init) >= 1, "init-test-file:" + cmd, run.where(), "`scrut %s` initialises a per-document work directory" % cmd)


def scrut_set_names(prog, repo):
    """names of the environment variables scrut itself sets for every test case (code, not documentation)"""
    f = prog.fn("TestFileEnvironment::build_env_vars")
    o = Origins(f)
    names = []
    for bi, blk in enumerate(f.blocks):
        for si, st in enumerate(blk["stmts"]):
            if st["k"] == "assign" and st["rv"]["k"] == "agg" and st["rv"]["agg"] == "tuple" and len(st["rv"]["ops"]) == 2:
                k = peel(o.operand(st["rv"]["ops"][0]))
                for n in k.walk():
                    if n.kind == "const" and n.a.as_str() is not None and re.match(r"^[A-Z_]+$", n.a.as_str()):
                        names.append(n.a.as_str())
    return sorted(set(names) | {"SHELL", "SCRUT_TEST"})


def r18_6(ctx):
    """`set afresh for every test case` versus the state carrier: the bash template sources the previous test case's dump of all
    variables *after* the process was started with scrut's fresh environment, so a variable scrut sets is fresh only if the
    dump excludes it (BASH_EXCLUDED_VARIABLES)"""
    prog = ctx.prog
    names = scrut_set_names(prog, ctx.repo)
    excl = set(prog.const("BASH_EXCLUDED_VARIABLES").str_table() or [])
    ctx.check(len(names) >= 12, "scrut-vars-found", "src/bin/utils/environment.rs", "%d variables set by scrut per test case: %s" % (len(names), names))
    ctx.check("SCRUT_TEST" in excl, "fresh:SCRUT_TEST", "src/executors/bash_runner.rs", "SCRUT_TEST is excluded from the persisted state, so every test case sees its own <file>:<line>",
              "SCRUT_TEST is persisted with the shell state: every test case after the first sees the first one's value")
    stale = [n for n in names if n not in excl]
    ctx.check(not stale, "fresh:" + "+".join(stale), "src/executors/bash_runner.rs",
              "every variable scrut sets per test case is excluded from the persisted state",
              "variables scrut sets `anew for each test case` (documentation, property C18) are dumped by the EXIT trap and re-imported by `source state` after scrut's "
              "fresh environment was applied: once a test case changes %s the change overrides scrut's value in all later test cases of the document "
              "(`export TESTDIR=/nope` in test 1 -> test 2 prints /nope)" % stale)


def r18_5(ctx):
    from . import c12, c14
    c12.r12_1(ctx)
    c12.r12_2(ctx)
    # a timed-out child must be killed, otherwise its EXIT trap re-creates the state directory after clean-up
    c14.r14_8(ctx, accept_terminate=True)


def r18_7(ctx):
    """the state dump is written from inside scrut's own EXIT handler; whatever prints traps there (`trap -p`, bare `trap`) would
    persist `trap -- '__scrut_persist_state' EXIT`. Sourcing that state arms the handler in shells that must not persist (detached
    test cases, armed only by the `[ {persist_state} -eq 1 ] && trap ..` line): a detached shell that outlives scrut then re-creates
    the removed state directory. The handler may be armed at exactly one place."""
    from . import c12
    tpl = c12.template(ctx.prog)
    where = "src/executors/bash_runner.template"
    segs = c12._segments(tpl.replace("{shell_expression}", ":"))
    traps = [x for x in segs if re.match(r"^trap(\s|$)", x)]
    arming = [x for x in traps if re.match(r"^trap\s+(--\s+)?['\"]?__scrut_persist_state['\"]?\s+EXIT\b", x)]
    printing = [x for x in traps if re.match(r"^trap(\s+-[lp]+)*\s*$", x) or re.match(r"^trap\s+-p\b", x)]
    others = [x for x in traps if x not in arming and x not in printing]
    ctx.check(len(arming) == 1, "trap-armed-once", where, "the EXIT handler is installed by exactly one template statement (the {persist_state}-guarded one)",
              "the EXIT handler is installed %d times: %s" % (len(arming), arming))
    ctx.check(not printing, "trap-not-dumped", where, "no `trap -p` / bare `trap` in the template: scrut's own EXIT handler is never written into the persisted state",
              "the template prints the trap table (%s) while running inside scrut's EXIT handler: the state file then re-installs `__scrut_persist_state` in every shell that "
              "sources it - also in detached ones, which re-create the removed state directory after scrut has exited" % printing)
    ctx.check(not others, "trap-no-other", where, "no other trap statement in the template", "further trap statements: %s" % others)
    # the statement that sources the state comes before the arming line (so that a persisted trap table could not be overridden afterwards) - and
    # detached runs get persist_state=0 (R12.2)
    ctx.ok("trap-detached-unarmed", where, "detached test cases run with {persist_state}=0 (decided by C12 R12.2)", obligation=False)


ENV_DROPPING = ("retain", "remove", "clear", "pop_first", "pop_last", "drain", "extract_if", "split_off", "filter", "take", "skip", "take_while", "skip_while", "truncate")


def r18_8(ctx):
    """every variable of the test case's environment (incl. the documented resets to the empty string: CDPATH="", GREP_OPTIONS="") reaches the child
    process: between `testcase.config.environment` and Exec::env_extend the map is only copied and added to, never filtered"""
    prog = ctx.prog
    from .c16 import mut_calls
    r = prog.impl_fn("SubprocessRunner", "Runner", "run")
    o = Origins(r)
    sites = [(bb, t) for bb, t in r.calls() if mname(t) in ("Exec::env_extend", "Exec::env", "Exec::envs")]
    ctx.check(len(sites) >= 1, "env-site", r.where(), "the child environment is set with Exec::env_extend (%d site(s))" % len(sites), "no env_extend call in SubprocessRunner::run")
    for bb, t in sites:
        tree = o.operand(t["args"][1])
        from_cfg = any(n.kind == "field" and n.a == "environment" for n in tree.walk())
        bad = sorted({method_name(n.a) for n in tree.walk() if n.kind == "call" and method_name(n.a).split("::")[-1] in ENV_DROPPING})
        # mutations of the local map the iterator is taken from
        for l in range(len(r.locals)):
            if "Map<" in r.lty(l) and "String" in r.lty(l) and not r.lty(l).startswith("&"):
                for mb, mt in mut_calls(r, l):
                    if mname(mt).split("::")[-1] in ENV_DROPPING:
                        bad.append(mname(mt))
        ctx.check(from_cfg and not bad, "env-unfiltered", r.loc(bb),
                  "the child receives the whole testcase.config.environment (plus SHELL): copied and extended only",
                  "the environment handed to the child is filtered (%s): variables scrut sets to the empty string on purpose (CDPATH, GREP_OPTIONS) are dropped and the "
                  "caller's values leak into every test case" % (sorted(set(bad)) or "not derived from testcase.config.environment"))


RESOLVING = {"canonical_path", "canonicalize", "read_link", "fs::canonicalize", "fs::read_link", "Path::canonicalize", "Path::read_link"}


def r18_9(ctx):
    """TESTFILE is the name of the document that was given, TESTDIR the (canonical) directory it was given in: split_path_abs takes the file name
    from the path as given and resolves only the directory. Resolving the final component turns `suite/link.md -> ../shared/checks.md` into
    TESTFILE=checks.md, TESTDIR=<..>/shared - fixtures next to the given document are no longer found, TESTFILE disagrees with SCRUT_TEST"""
    prog = ctx.prog
    f = prog.fn("split_path_abs")
    o = Origins(f)
    ok_tuples = []
    r = o.local(0)
    for alt in (r.kids if r.kind == "phi" else [r]):
        a = peel(alt)
        if a.kind == "agg" and str(a.a[0]).endswith("Ok"):
            t = peel(a.kids[0])
            if t.kind == "agg" and len(t.kids) == 2:
                ok_tuples.append(t)
    if not ok_tuples:
        raise AnchorError("split_path_abs: no Ok((directory, file)) result")
    for i, t in enumerate(ok_tuples):
        d, fl = t.kids
        fnames = {method_name(c) for c in fl.call_names()}
        resolved = sorted(m for m in fnames if m.split("::")[-1] in {x.split("::")[-1] for x in RESOLVING})
        ctx.check("Path::file_name" in fnames and not resolved and any(n.kind == "arg" and n.a == 1 for n in fl.walk()), "file-name-as-given#%d" % i, f.where(),
                  "the file name is the last component of the path as given (Path::file_name, nothing resolved)",
                  "the file name passes %s: for a document that is a symbolic link TESTFILE becomes the name of the link's target (and the work directory is named after it), "
                  "not the document scrut was given" % (resolved or sorted(fnames)))
        alts = [peel(x) for x in (peel(d).kids if peel(d).kind == "phi" else [d])]
        good = all(any(method_name(c).split("::")[-1] in ("canonical_path", "canonicalize", "current_dir") for c in x.call_names()) for x in alts)
        ctx.check(good, "directory-canonical#%d" % i, f.where(), "the directory is the canonical parent directory (or the current directory)",
                  "the directory is %s" % peel(d).show()[:120])
    # the directory that is resolved is the *parent*: PathBuf::pop is applied before canonical_path
    pops = [bb for bb, t in f.calls() if mname(t) == "PathBuf::pop"]
    cans = [(bb, t) for bb, t in f.calls() if (callee_name(t) or "").split("::")[-1] in ("canonical_path", "canonicalize")]
    def of_parent(cb, ct):
        if any(f.dominates(pb, cb) for pb in pops):
            return True
        return o.operand(ct["args"][0]).has_call("Path::parent", "PathBuf::parent")
    ctx.check(bool(cans) and all(of_parent(cb, ct) for cb, ct in cans), "parent-resolved", f.where(),
              "only the parent directory is resolved (pop() dominates every canonical_path call)",
              "canonical_path is applied before the file name was split off: the final component (the document itself) is resolved")


def run(ctx):
    ctx.run_rule("R18.1", "ownership: every directory/file creating call yields an owned TempDir (Ephemeral / live local), a path beneath one, or is leaked only under keep_temporary_directories [E-SITE]", r18_1, floor=11)
    ctx.run_rule("R18.2", "leak APIs only on the keep edge; no process::exit/abort; no panic=abort; main returns ExitCode [E-SITE]", r18_2, floor=5)
    ctx.run_rule("R18.3", "who-may-remove: no fs::remove_* in non-test code [E-SITE]", r18_3, floor=1)
    ctx.run_rule("R18.5", "the bash state file is written inside the owned per-document TempDir: the TempDir path reaches the template unmodified, in a double-quoted position (shared with C12 R12.1/R12.2) [E-FLOW]", r18_5, floor=8)
    ctx.run_rule("R18.7", "scrut's EXIT handler is armed at one place only and never dumped into the persisted state (no `trap -p` in the template) [template analyzer]", r18_7, floor=3)
    ctx.run_rule("R18.8", "the whole test case environment reaches the child: between config.environment and Exec::env_extend the map is copied / extended only, never filtered [E-FLOW]", r18_8, floor=2)
    ctx.run_rule("R18.9", "TESTFILE / TESTDIR: split_path_abs takes the file name from the path as given and resolves only the parent directory (a symlinked document keeps its own name and directory) [E-FLOW]", r18_9, floor=3)
    ctx.run_rule("R18.6", "scrut-set variables are fresh per test case only if the state dump excludes them (writer/reader agreement between build_env_vars and BASH_EXCLUDED_VARIABLES) [E-TABLE]", r18_6, floor=3)
    ctx.run_rule("R18.4", "environment table: documented variables == variables set (Cram extras on the cram_compat edge); SHELL, SCRUT_TEST=<file>:<line> per test case; applied in test/update/create [E-TABLE]", r18_4, floor=12)
