"""C20 — every test runs once, in order; exit status 0 / 50 / 1 reports the run."""
from ..cfgq import aggregates, bool_edges, cond_tree, explore, place_key, result_variant_blocks, stmt_loc, switches, variant_edges
from ..facts import AnchorError, Origins, callee_name, method_name, mname, peel, strip_mods
from .c14 import _counter_incs
from .c16 import mut_calls

FILTERS = {"Iterator::skip", "Iterator::take", "Iterator::filter", "Iterator::step_by", "Iterator::skip_while", "Iterator::take_while", "Iterator::filter_map",
           "Iterator::rev", "Vec::dedup", "Vec::retain", "Vec::truncate", "slice::sort", "slice::sort_by", "slice::reverse", "Vec::drain", "Vec::remove", "Vec::pop"}


def _run(prog):
    return prog.fn("test::Args::run")


def r20_1(ctx):
    prog = ctx.prog
    run = _run(prog)
    o = Origins(run)
    ex = [(bb, t) for bb, t in run.calls() if mname(t) == "Executor::execute_all"]
    ctx.check(len(ex) == 1, "one-execute-all", run.where(), "one Executor::execute_all call per document iteration", "found %d execute_all calls in test::Args::run" % len(ex))
    if len(ex) != 1:
        return
    bb, t = ex[0]
    src = o.operand(t["args"][1])
    # the slice is collected from `testcases.iter_mut().map(..)`, unfiltered
    names = [method_name(c) for c in src.call_names()]
    bad = [m for m in names if m in FILTERS]
    ctx.check(not bad and "Iterator::collect" in names and any(m in ("slice::iter_mut", "Vec::iter_mut", "IntoIterator::into_iter") for m in names), "executed-unfiltered", run.loc(bb),
              "the executed slice is `testcases.iter_mut().map(..).collect()`: same elements, same order", "the executed slice passes %s" % (bad or names[:8]))
    # find the accumulated `testcases` Vec: local whose definition collects from prepend tests and that is extended twice
    cand = None
    for l in range(len(run.locals)):
        if run.lty(l).startswith("std::vec::Vec<scrut::testcase::TestCase") or run.lty(l).startswith("std::vec::Vec<testcase::TestCase"):
            exts = [(cb, ct) for cb, ct in mut_calls(run, l) if mname(ct) in ("Extend::extend", "Vec::extend", "Vec::append", "Vec::extend_from_slice")]
            if len(exts) >= 2:
                cand = (l, exts)
    if cand is None:
        ctx.bad("accumulator", run.where(), "no Vec<TestCase> that is built from prepend tests and extended with the document's and the appended tests")
        return
    l, exts = cand
    init = o.local(l)
    init_s = init.show()
    ctx.check(init.has_call("Iterator::flat_map") and "prepend" in init_s and not any(method_name(c) in FILTERS for c in init.call_names()), "order:prepend-first",
              run.where(), "the list starts with the test cases of all prepend documents (flat_map over prepend_tests)",
              "the list starts with %s" % init_s[:160])
    exts = sorted(exts, key=lambda e: (0 if run.dominates(e[0], exts[-1][0]) else 1))
    order = []
    for cb, ct in exts:
        a = o.operand(ct["args"][1])
        s = a.show()
        bad2 = [m for m in (method_name(c) for c in a.call_names()) if m in FILTERS]
        if "append" in s and a.has_call("Iterator::flat_map"):
            order.append(("append", cb, bad2))
        elif any(n.kind == "field" and n.a == "testcases" for n in a.walk()) and not a.has_call("Iterator::flat_map"):
            order.append(("document", cb, bad2))
        else:
            order.append(("other:" + s[:60], cb, bad2))
    kinds = [k for k, _, _ in order]
    dom_ok = len(order) == 2 and run.dominates(order[0][1], order[1][1])
    ctx.check(kinds == ["document", "append"] and dom_ok and not any(b for _, _, b in order), "order:document-then-append", run.loc(exts[0][0]),
              "then the document's own test cases, then the test cases of all append documents, unfiltered",
              "the list is extended in the order %s (filters: %s)" % (kinds, [b for _, _, b in order]))
    # the executed slice derives from that accumulator
    acc_name = run.lname(l)
    ctx.check(init_s in src.show(), "executed-is-accumulated", run.loc(bb),
              "execute_all receives the accumulated list")


def r20_8(ctx):
    """every document is executed: inside the per-document loop no path returns to the loop head (`continue`) without passing
    Executor::execute_all - except on an emptiness test of the *accumulated* list (prepend + own + append test cases), taken after
    the last part was added. A document without own test cases still runs its prepend / append test cases."""
    prog = ctx.prog
    run = _run(prog)
    o = Origins(run)
    ex = [bb for bb, t in run.calls() if mname(t) == "Executor::execute_all"]
    if not ex:
        raise AnchorError("test::Args::run: no Executor::execute_all call")
    # the documents loop: outermost natural loop containing the execute_all call
    loops = []
    for b_, h_ in run.back_edges():
        body_, stack_ = {h_, b_}, [b_]
        while stack_:
            x_ = stack_.pop()
            for p_ in run.preds[x_]:
                if p_ not in body_ and run.dominates(h_, p_):
                    body_.add(p_)
                    stack_.append(p_)
        if all(e in body_ for e in ex):
            loops.append((h_, b_, body_))
    if not loops:
        raise AnchorError("test::Args::run: execute_all is not inside a loop over the documents")
    head = max(loops, key=lambda x: len(x[2]))[0]
    tails = sorted({b_ for h_, b_, _ in loops if h_ == head})
    # the accumulated list and the emptiness tests on it
    acc = None
    for l in range(len(run.locals)):
        if run.lty(l).startswith("std::vec::Vec<scrut::testcase::TestCase") or run.lty(l).startswith("std::vec::Vec<testcase::TestCase"):
            exts = [cb for cb, ct in mut_calls(run, l) if mname(ct) in ("Extend::extend", "Vec::extend", "Vec::append", "Vec::extend_from_slice")]
            if len(exts) >= 2:
                acc = (l, exts)
    allowed = []
    if acc is not None:
        init_s = o.local(acc[0]).show()
        for sb, st in switches(run):
            be = bool_edges(run, sb)
            if be is None:
                continue
            tree = cond_tree(run, sb, o)
            neg = False
            while tree.kind == "un" and tree.a == "Not":
                neg, tree = not neg, tree.kids[0]
            if tree.kind == "call" and method_name(tree.a) in ("Vec::is_empty", "slice::is_empty") and init_s in tree.show() and all(run.dominates(e, sb) for e in acc[1]):
                allowed.append((sb, be[1] if neg else be[0]))
    esc = set(run.reachable(head, removed_blocks=ex, removed_edges=allowed))
    hit = [b_ for b_ in tails if b_ in esc]
    # name the offending branch: the first conditional inside the loop from which a tail is reachable without execute_all while the other edge is not
    where = run.loc(hit[0]) if hit else run.where()
    if hit:
        for sb, st in switches(run):
            if sb in esc and run.dominates(head, sb) and all(run.dominates(sb, e) for e in ex):
                for tg in run.succ(sb):
                    r2 = set(run.reachable(tg, removed_blocks=ex + [head]))
                    if any(b_ in r2 for b_ in tails):
                        where = run.loc(sb)
    ctx.check(not hit, "every-document-executed", where,
              "no path through the documents loop skips Executor::execute_all (%d accepted emptiness test(s) on the accumulated list)" % len(allowed),
              "the documents loop continues with the next document without executing this one: the decision is taken before / independent of the accumulated "
              "prepend + document + append list, so e.g. a document without own test cases never runs its prepend / append test cases - they get no result "
              "and a failing one no longer yields exit 50")


def _detached_tests(prog, body):
    """bool switches of `body` whose condition compares an exit status with ExitStatus::Detached -> [(switch block, (true, false), is_eq)]"""
    from ..cfgq import promoted_tree
    o = Origins(body)
    out = []
    for sb, st in switches(body):
        be = bool_edges(body, sb)
        if be is None:
            continue
        tree = cond_tree(body, sb, o)
        neg = False
        while tree.kind == "un" and tree.a == "Not":
            neg, tree = not neg, tree.kids[0]
        if tree.kind == "call" and method_name(tree.a) in ("PartialEq::eq", "PartialEq::ne"):
            shown = tree.show()
            for x in tree.walk():
                if x.kind == "const":
                    pt = promoted_tree(prog, body, x.a)
                    if pt is not None:
                        shown += pt.show()
            if "Detached" in shown:
                is_eq = (method_name(tree.a) == "PartialEq::eq") != neg
                out.append((sb, be, is_eq))
    return out


def r20_11(ctx):
    """F51: a detached execution has no result - its placeholder output is never validated. Every TestCase::validate in the test command is reached only for
    outputs that are not Detached: in the body behind the `!= Detached` edge, in a `map` closure behind a `filter` whose closure tests for Detached"""
    prog = ctx.prog
    run = _run(prog)
    o = Origins(run)
    n = 0
    for body in [run] + prog.closures_of(run):
        sites = [bb for bb, t in body.calls() if (callee_name(t) or "").endswith("TestCase::validate")]
        if not sites:
            continue
        for bb in sites:
            n += 1
            ok = False
            for sb, (tt, tf), is_eq in _detached_tests(prog, body):
                ne_edge = tf if is_eq else tt
                if bb in body.reachable(ne_edge) and bb not in body.reachable(0, removed_edges=[(sb, ne_edge)]):
                    ok = True
            if not ok:
                # `matches!(output.exit_code, ExitStatus::Detached)` / `match .. { Detached => continue, .. }`: a variant switch with a Detached arm
                back_ = body.back_edges()
                for sb, st in switches(body):
                    ve, rvv = variant_edges(body, sb)
                    if ve is None or "Detached" not in ve or "ExitStatus" not in (rvv.get("ty") or ""):
                        continue
                    if body.dominates(sb, bb) and bb not in set(explore(body, ve["Detached"], {}, removed_edges=back_).keys()):
                        ok = True        # (explore follows the constant bool that `matches!` sets on each arm)
            if not ok and body is not run:
                # the closure is the argument of a map() whose receiver passed a filter() that tests for Detached
                for cb_, ct in run.calls():
                    if mname(ct) in ("Iterator::map", "Iterator::for_each", "Iterator::filter_map") and any(
                            x.kind == "agg" and isinstance(x.a, tuple) and str(x.a[0]) == "closure " + body.path for x in o.operand(ct["args"][1]).walk()):
                        recv = o.operand(ct["args"][0])
                        for x in recv.walk():
                            if x.kind == "call" and method_name(x.a) == "Iterator::filter" and len(x.kids) == 2:
                                fc = peel(x.kids[1])
                                if fc.kind == "agg" and isinstance(fc.a, tuple) and str(fc.a[0]).startswith("closure "):
                                    fb = prog.body_by_def(fc.a[0][len("closure "):], run.crate)
                                    if fb is not None and _detached_tests(prog, fb):
                                        ok = True
            ctx.check(ok, "validate-not-detached:%s#%d" % (body.npath.split("::")[-1], n), body.loc(bb), "validate is reached only for outputs that are not Detached",
                      "validate is also called for the placeholder output of a detached execution: when a later test case of the document times out, the detached one is "
                      "reported - as succeeded (no expectations) or as failed with malformed output - although it was never waited for")
    if n < 2:
        ctx.bad("validate-sites", run.where(), "only %d TestCase::validate call(s) found in the test command (2 confirmed by reading)" % n)


def _segment_events(f, start, stops, events, cap=3):
    """event-count tuples (each count capped at `cap`) possible on paths from `start` to a stop
    block / return, computed as a forward dataflow over the region with back edges removed (a DAG),
    so diamonds from logging macros do not multiply paths"""
    keys = sorted({k for v in events.values() for k in v})
    back = set(f.back_edges())
    state = {start: {tuple(0 for _ in keys)}}
    out = set()
    # topological order of the DAG reachable from start
    order = []
    seen = set()

    def visit(b):
        stack = [(b, iter([s for s in f.succ(b) if (b, s) not in back]))]
        seen.add(b)
        while stack:
            node, it = stack[-1]
            adv = False
            for s in it:
                if s not in seen and node not in stops:
                    seen.add(s)
                    stack.append((s, iter([x for x in f.succ(s) if (s, x) not in back])))
                    adv = True
                    break
            if not adv:
                order.append(node)
                stack.pop()
    visit(start)
    for b in reversed(order):
        cur = state.get(b)
        if not cur:
            continue
        if b in events:
            cur = {tuple(min(cap, c + events[b].get(k, 0)) for c, k in zip(cnt, keys)) for cnt in cur}
        succs = f.succ(b)
        if b in stops and b != start:
            out |= {("stop", c) for c in cur}
            continue
        if f.blocks[b]["term"]["k"] == "return":
            out |= {("return", c) for c in cur}
            continue
        for s in succs:
            if (b, s) in back:
                # the back edge of an enclosing loop ends the iteration; inner-loop back edges are cut
                if s in stops or f.dominates(s, start):
                    out |= {("stop", c) for c in cur}
                continue
            state.setdefault(s, set()).update(cur)
    return keys, out


def r20_3(ctx):
    prog = ctx.prog
    f = prog.impl_fn("StatefulExecutor", "Executor", "execute_all")
    o = Origins(f)
    # the loop over test cases: header = block calling Enumerate<Iter<&TestCase>>::next
    heads = [bb for bb, t in f.calls() if mname(t) == "Iterator::next" and "Enumerate<" in (t.get("self_ty") or "")]
    if len(heads) != 1:
        raise AnchorError("StatefulExecutor::execute_all: loop over enumerate(testcases) not found (%d)" % len(heads))
    head = heads[0]
    nxt = f.blocks[head]["term"]["target"]
    ve, rv = variant_edges(f, nxt)
    if ve is None or "Some" not in ve:
        raise AnchorError("execute_all: cannot find the Some edge of the test case loop")
    pushes = {}
    for bb, t in f.calls():
        if mname(t) == "Vec::push" and "outputs" in f.arg_name(t["args"][0]):
            pushes.setdefault(bb, {})["push"] = 1
        if mname(t) in ("Extend::extend", "Vec::extend") and "outputs" in f.arg_name(t["args"][0]):
            pushes.setdefault(bb, {})["pad"] = 1
    if not pushes:
        raise AnchorError("execute_all: no push to `outputs`")
    keys, outs = _segment_events(f, ve["Some"], {head}, pushes)
    ki = {k: i for i, k in enumerate(keys)}
    bad = []
    for how, cnt in outs:
        npush = cnt[ki["push"]]
        npad = cnt[ki.get("pad", 0)] if "pad" in ki else 0
        if how == "stop" and (npush != 1 or npad != 0):
            bad.append((how, dict(zip(keys, cnt))))
    ctx.check(any(how == "stop" for how, _ in outs), "loop-paths-found", f.loc(head), "continuing paths through the loop body were enumerated",
              "no continuing path through the loop body found (analysis blind)")
    ctx.check(not bad, "one-output-per-iteration", f.loc(head), "every path through the loop body that continues pushes exactly one Output",
              "a loop iteration can continue after pushing %s outputs: results shift between test cases" % bad)
    # exits: Err(..) or Ok after padding
    errs = {b for b, _, _ in result_variant_blocks(f, "Err")}
    oks = [b for b, _, _ in result_variant_blocks(f, "Ok")]
    pad_paths = [(how, cnt) for how, cnt in outs if how == "return" and "pad" in ki and cnt[ki["pad"]] > 0]
    ctx.check(all(cnt[ki["push"]] == 1 and cnt[ki["pad"]] == 1 for how, cnt in pad_paths) and pad_paths, "unknown-arm-pads", f.where(),
              "the Unknown arm pushes the output, pads the rest and leaves the loop",
              "padding paths: %s" % pad_paths)
    # pad count = testcases.len() - outputs.len()
    for bb, t in f.calls():
        if mname(t) in ("Extend::extend", "Vec::extend") and bb in pushes and "pad" in pushes[bb]:
            src = o.operand(t["args"][1])
            rng = [n for n in src.walk() if n.kind == "agg" and "Range" in n.a[0]]
            ok = False
            for r in rng:
                end = peel(r.kids[1]) if len(r.kids) > 1 else None
                if end is not None and end.kind == "field" and end.kids and end.kids[0].kind == "bin" and end.kids[0].a in ("SubWithOverflow", "Sub"):
                    a, b = end.kids[0].kids
                    ok = peel(a).kind == "call" and method_name(peel(a).a).endswith("len") and peel(b).kind == "call" and method_name(peel(b).a).endswith("len")
            ctx.check(ok, "pad-count", f.loc(bb), "the padding length is testcases.len() - outputs.len()", "the padding source is %s" % src.show()[:120])
    # script executor: count gate (shared with R13.5)
    from .c13 import r13_5  # noqa: F401
    s = prog.impl_fn("BashScriptExecutor", "Executor", "execute_all")
    os_ = Origins(s)
    gate = False
    oks2 = [b for b, _, _ in result_variant_blocks(s, "Ok")]
    for sb, st in switches(s):
        be = bool_edges(s, sb)
        if be is None:
            continue
        tree = cond_tree(s, sb, os_)
        if tree.kind == "bin" and tree.a in ("Ne", "Eq") and all(peel(k).kind == "call" and method_name(peel(k).a).endswith("len") for k in tree.kids):
            eq = be[1] if tree.a == "Ne" else be[0]
            gate = all(b not in s.reachable(0, removed_edges=[(sb, eq)]) for b in oks2)
    ctx.check(gate, "script-count-gate", s.where(), "the script executor returns Ok only with exactly one output per test case")


def r20_4(ctx):
    prog = ctx.prog
    run = _run(prog)
    o = Origins(run)
    # Ok arm loop: `for (testcase, output) in testcases.into_iter().zip(outputs.into_iter())`
    heads = [bb for bb, t in run.calls() if mname(t) == "Iterator::next" and "Zip<" in (t.get("self_ty") or "")]
    if len(heads) != 1:
        raise AnchorError("test::Args::run: zip loop over (testcase, output) not found (%d)" % len(heads))
    head = heads[0]
    nxt = run.blocks[head]["term"]["target"]
    ve, rv = variant_edges(run, nxt)
    src = o.operand(run.blocks[head]["term"]["args"][0])
    bad = [m for m in (method_name(c) for c in src.call_names()) if m in FILTERS]
    ctx.check(not bad, "zip-unfiltered", run.loc(head), "results are the zip of all test cases with all outputs (lengths equal by R20.3)", "the zip source passes %s" % bad)
    # every zip of outputs with test cases pairs them positionally: neither side may be filtered / skipped before the zip
    nz = 0
    for body in [run] + prog.closures_of(run):
        ob = Origins(body)
        for zb, zt in body.calls():
            if mname(zt) != "Iterator::zip":
                continue
            nz += 1
            sides = [ob.operand(zt["args"][0]), ob.operand(zt["args"][1])]
            badz = [m for sd in sides for m in (method_name(c) for c in sd.call_names()) if m in FILTERS]
            ctx.check(not badz, "zip-positional#%d" % nz, body.loc(zb), "outputs and test cases are zipped position by position (no filter/skip before the zip)",
                      "one side of a zip(outputs, testcases) passes %s first: results shift to the wrong test cases and the last ones get no result" % badz)
    ctx.check(nz >= 2, "zip-sites", run.where(), "%d zip(outputs, testcases) sites analysed (regular and timeout path)" % nz,
              "only %d zip sites found in test::Args::run (2 confirmed by reading)" % nz)
    from .c14 import counter_roles
    roles = counter_roles(prog)
    events = {}
    for bb, si, nm in _counter_incs(run):
        events.setdefault(bb, {})[roles.get(nm, nm)] = 1
    for bb, t in run.calls():
        # the outcome list is bound by its element type, not by its name
        if mname(t) == "Vec::push" and "Outcome" in (t.get("self_ty") or "") and "Vec<" in (t.get("self_ty") or ""):
            events.setdefault(bb, {})["push_outcome"] = 1
    keys, outs = _segment_events(run, ve["Some"], {head}, events)
    ki = {k: i for i, k in enumerate(keys)}
    need = ("push_outcome", "doc_failed", "doc_success", "total_detached")
    if not all(k in ki for k in need):
        raise AnchorError("test::Args::run: counters %s not all found in the result loop (have %s; roles %s)" % (need, keys, roles))
    good = {(0, 0, 0, 1), (1, 1, 0, 0), (1, 0, 1, 0)}
    seen = set()
    for how, cnt in outs:
        if how != "stop":
            continue
        seen.add(tuple(cnt[ki[k]] for k in need))
    ctx.check(seen and seen <= good and len(seen) == 3, "one-result-per-testcase", run.loc(head),
              "each (testcase, output) pair yields exactly one outcome counted once as failed or succeeded, or is detached and counted as such",
              "per-pair (outcomes pushed, failed, success, detached) combinations: %s" % sorted(seen))
    # the per-document failed / success counters are tied to the Err / Ok side of validate() by construction of their roles
    # (counter_roles binds them by hypothesis on the validate result); both must exist
    ok = "doc_failed" in roles.values() and "doc_success" in roles.values()
    ctx.check(ok, "failed-iff-validate-err", run.where(), "one counter counts exactly the pairs whose validate() returned Err, another one the others (%s)" %
              sorted((k, v) for k, v in roles.items() if v.startswith("doc_")),
              "the failed/success counters are not tied to the Err / Ok side of validate(): %s" % roles)
    # the pushed Outcome carries that very result
    for bb, si, rvv in aggregates(run, "Outcome", "Outcome"):
        if bb in run.reachable(ve["Some"], removed_edges=run.back_edges()) and any(b2 == bb or run.dominates(head, bb) for b2 in [bb]):
            if "result" in rvv["fields"]:
                r = o.operand(rvv["ops"][rvv["fields"].index("result")])
                if r.has_call("TestCase::validate"):
                    ctx.ok("outcome-carries-result", stmt_loc(run, bb, si), "the Outcome's result is the value validate() returned")
    # totals
    adds = []
    for bi, blk in enumerate(run.blocks):
        for si, st in enumerate(blk["stmts"]):
            if st["k"] == "assign" and st["rv"]["k"] == "bin" and st["rv"]["op"] in ("AddWithOverflow", "Add"):
                a = st["rv"]["a"].get("copy") or st["rv"]["a"].get("move")
                b = st["rv"]["b"].get("copy") or st["rv"]["b"].get("move")
                if a and b:
                    adds.append((run.place_name(a), run.place_name(b)))
    inv = {v: k for k, v in roles.items()}
    ctx.check((inv.get("total_failed"), inv.get("doc_failed")) in adds and (inv.get("total_success"), inv.get("doc_success")) in adds and None not in
              (inv.get("total_failed"), inv.get("doc_failed"), inv.get("total_success"), inv.get("doc_success")), "totals", run.where(),
              "the failed total (the one guarding the exit status) += the per-document failed count, the success total += the per-document success count",
              "counter additions found: %s (roles %s)" % (adds[:8], roles))


def r20_5(ctx):
    prog = ctx.prog
    run = _run(prog)
    o = Origins(run)
    sites = []
    for b in prog.bodies:
        if b.promoted is None:
            for bb, si, rv in aggregates(b, "ValidationFailedError"):
                sites.append((b, bb, si))
    ctx.check(len(sites) == 1 and sites[0][0] is run, "validation-error-sites", "-", "ValidationFailedError is constructed at exactly one site (test::Args::run)",
              "ValidationFailedError is constructed at %s" % [(b.npath, bb) for b, bb, si in sites])
    if len(sites) == 1:
        b, bb, si = sites[0]
        ok = False
        for sb, st in switches(run):
            be = bool_edges(run, sb)
            if be is None:
                continue
            tree = cond_tree(run, sb, o)
            if tree.kind == "bin" and tree.a in ("Gt", "Ne", "Ge", "Lt") and bb in run.reachable(sb):
                sides = [peel(k) for k in tree.kids]
                names = [run.place_name(x) for x in [(st["discr"].get("move") or st["discr"].get("copy"))]]
                shown = tree.show()
                consts = [s.a.as_int() for s in sides if s.kind == "const"]
                from .c14 import counter_roles
                inv_ = {v: k for k, v in counter_roles(prog).items()}
                fname_ = inv_.get("total_failed")
                # the guarded counter must be the one that accumulates the per-document failed counts (and the timeout increments)
                is_failed = fname_ is not None and any(_mentions_local(run, s, fname_) for s in sides) and inv_.get("doc_failed") is not None
                if is_failed and consts:
                    sat = {n for n in range(0, 5) if {"Gt": (n > consts[0]) if sides[1].kind == "const" else (consts[0] > n),
                                                       "Ge": (n >= consts[0]) if sides[1].kind == "const" else (consts[0] >= n),
                                                       "Lt": (n < consts[0]) if sides[1].kind == "const" else (consts[0] < n),
                                                       "Ne": n != consts[0]}[tree.a]}
                    tt, tf = be
                    on_true = bb in run.reachable(tt) and bb not in run.reachable(0, removed_edges=[(sb, tt)])
                    on_false = bb in run.reachable(tf) and bb not in run.reachable(0, removed_edges=[(sb, tf)])
                    fail_set = sat if on_true else (set(range(0, 5)) - sat if on_false else None)
                    ok = fail_set == {1, 2, 3, 4}
        ctx.check(ok, "fail-iff-count-failed", stmt_loc(run, bb, si), "run() returns Err(ValidationFailedError) exactly when count_failed > 0",
                  "ValidationFailedError is not guarded by `count_failed > 0`")
    m = [b for b in prog.bodies if b.promoted is None and b.crate.startswith("scrut-bin") and b.npath == "main"]
    if len(m) != 1:
        raise AnchorError("bin main not found")
    m = m[0]
    om = Origins(m)
    dc = [(bb, t) for bb, t in m.calls() if mname(t) == "Error::downcast_ref"]
    if len(dc) != 1 or "ValidationFailedError" not in dc[0][1]["callee_args"]:
        ctx.bad("main-downcast", m.where(), "main does not downcast the error to ValidationFailedError")
        return
    bb, t = dc[0]
    ve, rv = variant_edges(m, t["target"]) if m.blocks[t["target"]]["term"]["k"] == "switch" else (None, None)
    regions = {}
    if ve is not None:
        pk = place_key(rv["place"])
        for v, tg in ve.items():
            regions[v] = set(explore(m, tg, {pk: v}).keys())
    else:
        # `downcast_ref::<ValidationFailedError>().is_some()` / `.is_none()` form
        for b2, t2 in m.calls():
            if mname(t2) in ("Option::is_some", "Option::is_none") and any(n.kind == "call" and method_name(n.a) == "Error::downcast_ref" for n in om.operand(t2["args"][0]).walk()):
                be = bool_edges(m, t2["target"])
                if be:
                    some_edge, none_edge = (be if mname(t2) == "Option::is_some" else (be[1], be[0]))
                    regions = {"Some": set(m.reachable(some_edge)), "None": set(m.reachable(none_edge))}
        if not regions:
            raise AnchorError("main: downcast result is not matched")
    codes = {}
    for v in regions:
        other = set().union(*[r for vv, r in regions.items() if vv != v])
        for d in m.defs.get(0, []):
            if d[0] in regions[v] - other:
                n = om._def(d, 0, ())
                c = [x.a.as_int() for x in n.walk() if x.kind == "const" and x.a.as_int() is not None]
                codes[v] = c[0] if c else None
    ctx.check(codes.get("Some") == 50 and codes.get("None") == 1, "exit-codes", m.loc(bb), "validation failure -> 50, any other error -> 1",
              "main maps a ValidationFailedError to %s and other errors to %s" % (codes.get("Some"), codes.get("None")))
    # Ok -> SUCCESS: the Ok/else edge of `commands.run()` assigns ExitCode::SUCCESS (0)
    succ = [d for d in m.defs.get(0, []) if d[2] == "assign" and d[3]["k"] == "use" and "const" in d[3]["op"]]
    ctx.check(len(succ) == 1 and "ExitCode" in succ[0][3]["op"]["const"]["ty"], "exit-success", m.where(), "a run without error exits with ExitCode::SUCCESS")
    # no process::exit anywhere (the three codes above are the only ones)
    exits = [(b.npath, bb) for b, bb, t in prog.all_calls(lambda n: n.endswith("process::exit") or n.endswith("process::abort") or n == "exit" or n == "abort")]
    ctx.check(not exits, "no-process-exit", "-", "no process::exit/abort call in lib or bin", "process::exit/abort called in %s" % exits)


def _mentions_local(body, node, name):
    for n in node.walk():
        if n.kind in ("local", "phi") and str(n.a).split("(")[0] == name:
            return True
    return False


PROPAGATORS = {"Context::context", "Context::with_context", "Result::map_err", "Result::map", "Result::and_then", "Result::or_else"}
SWALLOWERS = {"Result::ok", "Result::unwrap_or_default", "Result::unwrap_or", "Result::unwrap_or_else", "Result::is_ok", "Result::is_err", "Result::err",
              "Result::iter", "Result::into_iter"}


def error_discipline(ctx, body, label):
    """every Result produced by a call in `body` is propagated: `?` (Try::branch), returned, or wrapped by context/map_err and
    then propagated. A `match`/`if let` whose Err edge continues, or .ok()/.unwrap_or*() on it, drops the error."""
    from ..cfgq import explore
    o = Origins(body)
    back = body.back_edges()
    n = 0
    for bb, t in body.calls():
        dest = t["dest"]
        if dest["p"] or not body.lty(dest["l"]).startswith("std::result::Result<"):
            continue
        m = mname(t)
        if m in ("Try::branch", "FromResidual::from_residual"):
            continue
        n += 1
        # how is the value used?
        l = dest["l"]
        verdict = None
        uses = []
        for b2, t2 in body.calls():
            for a in t2["args"]:
                pl = a.get("move") or a.get("copy")
                if pl is not None and body.canon_place(pl) == {"l": l, "p": []}:
                    uses.append(mname(t2))
        for m2 in uses:
            if m2 in SWALLOWERS:
                verdict = "the error is dropped through %s" % m2
        # a discriminant switch directly on it
        for sb, st in switches(body):
            ve, rv = variant_edges(body, sb)
            if ve is None or set(ve) != {"Ok", "Err"}:
                continue
            c = body.canon_place(rv["place"])
            if c["l"] != l or c["p"]:
                continue
            reg = set(explore(body, ve["Err"], {place_key(rv["place"]): "Err"}, removed_edges=back).keys())
            ok_reg = set(explore(body, ve["Ok"], {place_key(rv["place"]): "Ok"}, removed_edges=back).keys())
            err_only = reg - ok_reg
            returns_err = any(d[0] in err_only for d in body.defs.get(0, []))
            continues = any(b in reg for (b, s2) in back) or any(body.blocks[b]["term"]["k"] == "return" for b in reg if b in ok_reg and not returns_err)
            if not returns_err:
                verdict = "its Err arm does not return an error (it continues with the next item)"
        if not uses and verdict is None:
            # never used at all (dropped) unless it is the function result
            if not any(d[0] == bb for d in body.defs.get(0, [])) and not any(body.canon_place({"l": 0, "p": []}) == {"l": l, "p": []} for _ in [0]):
                moved_to_ret = any(st["k"] == "assign" and st["lhs"]["l"] == 0 and not st["lhs"]["p"] and st["rv"]["k"] == "use" and
                                   (st["rv"]["op"].get("move") or st["rv"]["op"].get("copy") or {}).get("l") == l
                                   for blk in body.blocks for st in blk["stmts"])
                sw = any(variant_edges(body, sb)[0] is not None and body.canon_place(variant_edges(body, sb)[1]["place"])["l"] == l for sb, _ in switches(body))
                if not moved_to_ret and not sw:
                    verdict = "the Result is never inspected"
        key = "%s:%s#%d" % (label, (m or "call").split("::")[-1], n)
        ctx.check(verdict is None, key, body.loc(bb), "the Result of %s is propagated (`?`, context + `?`, or returned)" % m,
                  "the Result of %s is not propagated: %s - a document that cannot be read or parsed is skipped silently and the run does not exit with 1" % (m, verdict))
    return n


def r20_6(ctx):
    prog = ctx.prog
    total = 0
    for anchor in ("FileParser::find_and_parse", "FileParser::find_all_test_files", "FileParser::read_test_contents", "file_parser::read_file"):
        fs_ = prog.find_fns(anchor)
        if not fs_:
            fs_ = [b for b in prog.bodies if b.promoted is None and b.npath.endswith(anchor.split("::")[-1]) and "file_parser" in b.path]
        if len(fs_) != 1:
            raise AnchorError("anchor %s: found %d" % (anchor, len(fs_)))
        total += error_discipline(ctx, fs_[0], fs_[0].name)
    ctx.check(total >= 10, "discipline-floor", "-", "%d Result-producing calls analysed in the document discovery / reading layer" % total,
              "only %d Result-producing calls found (10 confirmed by reading)" % total)


def r20_7(ctx):
    """counted results reach the exit status: a counter that is not the total guarding Err(ValidationFailedError) must be added to that total on every
    path from each of its increments to the next document (loop back edge) or to the exit decision - otherwise failures are rendered but exit 0"""
    from .c14 import counter_roles
    prog = ctx.prog
    run = _run(prog)
    roles = counter_roles(prog)
    inv = {v: k for k, v in roles.items()}
    total, doc = inv.get("total_failed"), inv.get("doc_failed")
    if total is None:
        raise AnchorError("test::Args::run: the counter guarding ValidationFailedError was not found")
    # the accumulation statement(s) `total += doc`
    adds = []
    for bi, blk in enumerate(run.blocks):
        for st in blk["stmts"]:
            if st["k"] == "assign" and st["rv"]["k"] == "bin" and st["rv"]["op"] in ("AddWithOverflow", "Add"):
                a = st["rv"]["a"].get("copy") or st["rv"]["a"].get("move")
                b = st["rv"]["b"].get("copy") or st["rv"]["b"].get("move")
                if a and b and run.place_name(a) == total and doc is not None and run.place_name(b) == doc:
                    adds.append(bi)
    # increment sites per counter name: in run itself, or (for closures) the block of run that creates the closure
    sites = {}
    for bb, si, nm in _counter_incs(run):
        sites.setdefault(nm, set()).add(bb)
    for cb in prog.closures_of(run):
        names = {nm for _, _, nm in _counter_incs(cb)}
        if not names:
            continue
        for bi, blk in enumerate(run.blocks):
            for st in blk["stmts"]:
                if st["k"] == "assign" and st["rv"]["k"] == "agg" and st["rv"].get("agg") == "closure" and st["rv"].get("def") == cb.path:
                    for nm in names:
                        sites.setdefault(nm, set()).add(bi)
    back = run.back_edges()
    guard_blocks = {bb for bb, si, rv in aggregates(run, "ValidationFailedError")}
    n = 0
    for nm, blocks in sorted(sites.items()):
        role = roles.get(nm)
        if role in ("total_failed",):
            n += 1
            ctx.ok("reaches-exit:" + nm, run.where(), "`%s` is the total that decides the exit status" % nm)
            continue
        if role not in ("doc_failed",):
            continue  # success / skipped / detached counts do not influence the exit status
        n += 1
        # outer (documents) loop: the outermost loop containing the accumulation
        outer_tails = set()
        for b_, h_ in back:
            # natural loop of the back edge b_ -> h_
            body_, stack_ = {h_, b_}, [b_]
            while stack_:
                x_ = stack_.pop()
                for p_ in run.preds[x_]:
                    if p_ not in body_ and run.dominates(h_, p_):
                        body_.add(p_)
                        stack_.append(p_)
            if any(a_ in body_ for a_ in adds):
                outer_tails.add(b_)
        leaks = []
        for sb in sorted(blocks):
            esc = set(run.reachable(sb, removed_blocks=adds)) - {sb}
            hit = sorted((esc & outer_tails) | (esc & guard_blocks))
            if hit or not adds:
                leaks.append((run.loc(sb), hit))
        ctx.check(bool(adds) and not leaks, "reaches-exit:" + nm, run.where(),
                  "every increment of the per-document failed count `%s` is followed by `%s += %s` before the next document / the exit decision" % (nm, total, nm),
                  "`%s` is incremented at %s but `%s += %s` is not passed on every path to the next document or to the exit decision: failures of such a document "
                  "are rendered, yet the process exits 0" % (nm, [l for l, _ in leaks], total, nm))
    ctx.check(n >= 2, "exit-counters", run.where(), "%d counters feeding the exit status analysed (roles %s)" % (n, roles), "only %d counters with an exit-status role found (%s)" % (n, roles))


def run(ctx):
    ctx.run_rule("R20.1", "order: prepend test cases, then the document's, then append's, unfiltered; one execute_all per document [E-FLOW]", r20_1, floor=5)
    ctx.run_rule("R20.3", "one output per test case: every continuing loop path of StatefulExecutor::execute_all pushes exactly one Output; Unknown pads; script executor count gate [E-STATE by segment enumeration]", r20_3, floor=4)
    ctx.run_rule("R20.4", "one outcome per non-detached test case, counted exactly once as failed (iff validate is Err) or succeeded; all zips positional [E-STATE]", r20_4, floor=7)
    ctx.run_rule("R20.6", "error discipline in document discovery/reading: no Result from read_dir / read_test_contents / read_file / parse is dropped or logged-and-skipped [E-SITE]", r20_6, floor=10)
    ctx.run_rule("R20.7", "counted failures reach the exit status: every increment of the per-document failed count passes `total += count` before the next document / the exit decision [E-PATH must-pass]", r20_7, floor=3)
    ctx.run_rule("R20.5", "exit mapping: Err(ValidationFailedError) iff count_failed > 0; main: 50 / 1 / SUCCESS; no process::exit [E-SITE, E-TABLE]", r20_5, floor=5)
    ctx.run_rule("R20.8", "every document is executed: no `continue` in the documents loop bypasses execute_all, except on emptiness of the accumulated prepend+own+append list [E-PATH must-pass]", r20_8, floor=1)
    from . import c14
    ctx.run_rule("R20.9", "executor / test command contract: ExecutionError::Timeout is constructed only in the arm of an output whose exit status is Timeout - the command counts one failure per such output, so exit 50 follows (shared with C14 R14.4) [E-PATH]", c14.r14_4, floor=4)
    from . import c16
    ctx.run_rule("R20.10", "prepend / append of front-matter and command line accumulate (own and inherited list, documented order): no list replaces the other (shared with C16 R16.1) [E-FLOW]",
                 lambda c: c16._merge_fields(c, c.prog.fn("DocumentConfig::with_defaults_from"), "DocumentConfig", only={"append", "prepend"}), floor=2)
    ctx.run_rule("R20.11", "a detached execution is never validated: every TestCase::validate in the test command sits behind a `!= Detached` test (body) or a filter on Detached (iterator chain) (F51) [E-PATH]", r20_11, floor=2)
