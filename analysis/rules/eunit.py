"""E-UNIT — index-unit dataflow: a *character count* must never be used as a *byte offset* of a str.

Sources (CharCount): field 0 of the item of `Enumerate<I>` where I iterates chars, `chars().count()`,
`chars().position(..)`, and any arithmetic on those (including `len - n`); results of crate-local
functions whose return value is such a value (summaries, fixpoint).
Sinks: the bounds of `str` slicing (`<str as Index<Range*>>::index`, `get`, `split_at`) and
`String::truncate/insert/remove/drain/replace_range`.
Taint travels through copies, fields, variants, Option/tuple aggregates, phi nodes, casts and
arithmetic only; any other call boundary stops it (`char_indices`, `len`, `find` give byte offsets)."""
from ..facts import Origins, call_name, method_name, mname

STR_INDEX_SINKS = {"Index::index", "IndexMut::index_mut", "str::get", "str::get_mut", "str::get_unchecked", "str::split_at", "str::split_at_checked",
                   "String::truncate", "String::insert", "String::insert_str", "String::remove", "String::drain", "String::replace_range", "String::split_off",
                   "str::is_char_boundary"}


def _is_char_enumerate(name):
    return name.startswith("<Enumerate<") and "Chars<" in name and name.endswith("as Iterator>::next")


def _is_chars_iter(node):
    """the iterator operand of count()/position() iterates chars"""
    return "Chars<" in node.a


def charcount_leaf(node, summaries):
    """is this node (exactly) a CharCount source?"""
    if node.kind == "field" and node.a == "0" and node.kids:
        k = node.kids[0]
        if k.kind == "field" and k.a == "0" and k.kids and k.kids[0].kind == "variant" and k.kids[0].a == "Some":
            src = k.kids[0].kids[0]
            while src.kind in ("ref", "deref", "phi") and src.kids:
                src = src.kids[0]
            if src.kind == "call" and _is_char_enumerate(src.a):
                return "enumerate index over chars"
    if node.kind == "call":
        m = method_name(node.a)
        if m in ("Iterator::count",) and "Chars<" in node.a:
            return "chars().count()"
        if m == "Iterator::position" and "Chars<" in node.a:
            return "chars().position()"
        if node.owner is not None and node.at is not None and node.at[1] == "term":
            t = node.owner.blocks[node.at[0]]["term"]
            if t.get("resolved_local") and (node.owner.crate, t["resolved"]) in summaries:
                return "result of %s (returns a character count)" % t["resolved"]
    return None


def tainted(node, summaries, depth=0, seen=None):
    """reason string if node's value is a CharCount, else None"""
    if seen is None:
        seen = set()
    if id(node) in seen or depth > 60:
        return None
    seen.add(id(node))
    r = charcount_leaf(node, summaries)
    if r:
        return r
    if node.kind in ("phi", "bin", "un", "cast", "ref", "deref", "field", "variant"):
        for k in node.kids:
            r = tainted(k, summaries, depth + 1, seen)
            if r:
                return r
        return None
    if node.kind == "agg":
        label = node.a[0]
        if label in ("tuple",) or label.startswith("Option::") or label.startswith("Range") or "Range" in label:
            for k in node.kids:
                r = tainted(k, summaries, depth + 1, seen)
                if r:
                    return r
    return None


def summaries(prog):
    """set of (crate, path) of local functions returning a CharCount (fixpoint, 3 rounds)"""
    s = set()
    for _ in range(3):
        changed = False
        for b in prog.bodies:
            if b.promoted is not None or b.kind not in ("Fn", "AssocFn"):
                continue
            if (b.crate, b.path) in s:
                continue
            if not b.lty(0).endswith("usize") and "usize" not in b.lty(0):
                continue
            o = Origins(b)
            if tainted(o.local(0), s):
                s.add((b.crate, b.path))
                changed = True
        if not changed:
            break
    return s


def sweep(prog, scope=None):
    """yield (body, bb, sink-name, operand-index, reason) for every CharCount reaching a str byte-offset sink"""
    summ = summaries(prog)
    for b in prog.bodies:
        if b.promoted is not None:
            continue
        if scope and not scope(b):
            continue
        o = None
        for bb, t in b.calls():
            m = mname(t)
            if m not in STR_INDEX_SINKS:
                continue
            st = t.get("self_ty", "")
            recv_ty = b.lty((t["args"][0].get("move") or t["args"][0].get("copy") or {"l": 0})["l"]) if t["args"] and ("move" in t["args"][0] or "copy" in t["args"][0]) else ""
            is_str = st in ("str", "std::string::String", "String") or "str" in recv_ty.replace("&", "").split("<")[0:1] or recv_ty.strip("&mut ").strip() in ("str", "std::string::String")
            if not is_str:
                continue
            if o is None:
                o = Origins(b)
            for i, a in enumerate(t["args"][1:], 1):
                tree = o.operand(a)
                r = tainted(tree, summ)
                if r:
                    yield b, bb, m, i, r
    return


def summary_functions(prog):
    return summaries(prog)
