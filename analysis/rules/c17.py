"""C17 — configuration survives being written out and read back (structural clauses)."""
import re

from ..cfgq import aggregates, bool_edges, cond_tree, const_str_of, stmt_loc, switches
from ..facts import AnchorError, ConstVal, Origins, callee_name, chain_to, method_name, mname, peel, strip_mods
from ..fmtq import FmtError, flat_pieces, pieces

STRING_SOURCES = {"environment": "environment", "path": "wait.path"}


def quoting_helpers(prog, crate):
    """crate-local `fn(&str, ..) -> String` whose every result is either its argument unchanged
    (under a guard computed from the argument's characters) or serde_json/serde_yaml `to_string`
    of it"""
    out = {}
    for b in prog.bodies:
        if b.promoted is not None or b.crate != crate or b.kind not in ("Fn", "AssocFn") or not b.lty(0).endswith("String"):
            continue
        if b.arg_count < 1 or "str" not in b.lty(1):
            continue
        o = Origins(b)
        r = o.local(0)
        alts = r.kids if r.kind == "phi" else [r]
        kinds = set()
        def _is_quote(n):
            return n.kind == "call" and n.owner is not None and n.at and n.at[1] == "term" and \
                n.owner.blocks[n.at[0]]["term"].get("callee_crate") in ("serde_json", "serde_yaml") and method_name(n.a).endswith("to_string")
        for a in alts:
            if any(_is_quote(n) for n in a.walk()):
                kinds.add("quoted")
            elif peel(a).kind == "call" and method_name(peel(a).a) in ("String::new", "String::with_capacity") and peel(a).at is not None:
                # accumulator form: `let mut s = String::new(); for c in quoted.chars() { s.push(..) / s.push_str(..) }` where every pushed piece derives
                # from the characters of the serde-quoted text (a post-processing loop over the quoted string)
                from .c16 import mut_calls
                acc = b.blocks[peel(a).at[0]]["term"]["dest"]["l"]
                muts = mut_calls(b, acc)
                pieces_ok = bool(muts)
                for mb, mt in muts:
                    if mname(mt) not in ("String::push", "String::push_str", "Extend::extend"):
                        pieces_ok = False
                        continue
                    arg = o.operand(mt["args"][1])
                    if not any(_is_quote(n) for n in arg.walk()):
                        pieces_ok = False
                kinds.add("quoted" if pieces_ok else "other:accumulator not fed from the quoted text")
            elif peel(a).kind == "arg" and peel(a).a == 1:
                kinds.add("plain")
            else:
                kinds.add("other:" + a.show()[:40])
        if "quoted" in kinds and kinds <= {"quoted", "plain"}:
            guard_ok = True
            if "plain" in kinds:
                guard_ok = any(mname(t) in ("Iterator::all", "Iterator::any") for _, t in b.calls())
            if guard_ok:
                out[b.path] = b
    return out


def _sanitised(prog, body, tree, helpers):
    for n in tree.walk():
        if n.kind != "call" or n.owner is None or not n.at or n.at[1] != "term":
            continue
        t = n.owner.blocks[n.at[0]]["term"]
        if t.get("resolved") in helpers:
            return "through %s" % t["resolved"].split("::")[-1]
        if t.get("callee_crate") in ("serde_json", "serde_yaml") and method_name(n.a).endswith("to_string"):
            return "through %s::to_string" % t.get("callee_crate")
    return None


def r17_1(ctx):
    prog = ctx.prog
    f = prog.fn("TestCaseConfig::to_yaml_one_liner")
    o = Origins(f)
    helpers = quoting_helpers(prog, f.crate)
    n_string_args = 0
    for body in [f] + list(prog.closures_of(f)):
        ob = o if body is f else Origins(body)
        for bb, t in body.calls():
            if mname(t) != "Arguments::new":
                continue
            node = ob._def((bb, "term", "call", t), 0, ())
            try:
                ps = pieces(node)
            except FmtError as e:
                ctx.bad("format-decodable", body.loc(bb), "a format! in to_yaml_one_liner is not decodable: %s" % e)
                continue
            for p in ps:
                if isinstance(p, str):
                    continue
                tree = p[1]
                src = None
                label = None
                if body is f:
                    # per-item renderings produced by a local closure (`.iter().map(|(k, v)| format!(..))`) are checked inside that closure
                    if any(n.kind == "call" and method_name(n.a) == "Iterator::map" for n in tree.walk()) and \
                            any(n.kind == "agg" and isinstance(n.a, tuple) and str(n.a[0]).startswith("closure ") for n in tree.walk()):
                        continue
                    for n in tree.walk():
                        if n.kind == "field" and n.a in STRING_SOURCES:
                            src = n.a
                    if src is None:
                        continue
                    if src == "environment":
                        # key or value of the map item
                        comp = None
                        for n in tree.walk():
                            if n.kind == "field" and n.a in ("0", "1") and n.kids and n.kids[0].kind == "field" and n.kids[0].a == "0" and n.kids[0].kids and n.kids[0].kids[0].kind == "variant":
                                comp = n.a
                        label = "environment-" + ("key" if comp == "0" else "value" if comp == "1" else "item")
                    else:
                        label = "wait.path"
                else:
                    # closure over the (key, value) items of the environment map: the tuple parameter's components are free text
                    comp = None
                    for n in tree.walk():
                        if n.kind == "field" and n.a in ("0", "1") and n.kids and peel(n.kids[0]).kind == "arg" and peel(n.kids[0]).a == 2:
                            comp = n.a
                    if comp is None:
                        continue
                    label = "environment-" + ("key" if comp == "0" else "value")
                n_string_args += 1
                how = _sanitised(prog, body, tree, helpers)
                ctx.check(how is not None, "quoted:" + label, body.loc(bb),
                          "%s is written %s" % (label, how),
                          "%s (free text) is interpolated into the one-line YAML with plain Display, also inside literal quotes: a value containing "
                          "`\"`, `\\`, `: `, `#`, `{`, `,` or leading/trailing spaces does not parse back to itself" % label)
    ctx.check(n_string_args >= 3, "string-args-found", f.where(), "environment key, value and wait.path interpolations found (%d)" % n_string_args,
              "only %d free-text interpolations found in to_yaml_one_liner (3 expected: environment key, value, wait.path)" % n_string_args)
    ctx.note("quoting helpers recognised: %s" % sorted(h.split("::")[-1] for h in helpers))


def _serde_fields(prog, ty):
    """(names the derived Serialize writes, names the derived Deserialize accepts)"""
    ser = prog.impl_fn(ty, "Serialize", "serialize")
    names = []
    for bb, t in ser.calls():
        if mname(t) in ("SerializeStruct::serialize_field", "SerializeStruct::skip_field", "SerializeMap::serialize_entry"):
            s = const_str_of(prog, ser, Origins(ser).operand(t["args"][1]))
            if s is not None:
                names.append(s)
    de = [c for (crate, p), c in prog.consts.items() if p.endswith("for config::%s>::deserialize::FIELDS" % ty)]
    de_names = None
    if len(de) == 1:
        de_names = ConstVal(de[0]).str_table()
    return ser, sorted(set(names)), sorted(de_names) if de_names is not None else None


def r17_2(ctx):
    prog = ctx.prog
    f = prog.fn("TestCaseConfig::to_yaml_one_liner")
    o = Origins(f)
    keys = set()
    nested = set()
    for bb, t in f.calls():
        if mname(t) not in ("Arguments::new", "Arguments::from_str"):
            continue
        try:
            ps = pieces(o._def((bb, "term", "call", t), 0, ()))
        except FmtError:
            continue
        text = "".join(p if isinstance(p, str) else "\x00" for p in ps)
        m = re.match(r"^([a-z_]+): ", text)
        if m:
            keys.add(m.group(1))
            inner = re.match(r"^[a-z_]+: \{(.*)\}$", text)
            if inner and m.group(1) == "wait":
                for part in inner.group(1).split(", "):
                    mm = re.match(r"^([a-z_]+): ", part)
                    if mm:
                        nested.add(mm.group(1))
    ser, ser_names, de_names = _serde_fields(prog, "TestCaseConfig")
    ctx.check(sorted(keys) == ser_names == de_names, "keys:TestCaseConfig", f.where(),
              "one-liner keys == serde field names of TestCaseConfig: %s" % sorted(keys),
              "one-liner writes keys %s; serde writes %s and reads %s" % (sorted(keys), ser_names, de_names))
    ser2, ser_w, de_w = _serde_fields(prog, "TestCaseWait")
    ctx.check(sorted(nested) == ser_w == de_w, "keys:TestCaseWait", f.where(),
              "nested wait keys == serde field names of TestCaseWait: %s" % sorted(nested),
              "one-liner writes wait keys %s; serde writes %s and reads %s" % (sorted(nested), ser_w, de_w))
    # every field of the struct is rendered (no key silently dropped)
    adt = prog.adt("TestCaseConfig", crate="scrut-lib")
    fields = sorted(x["name"] for x in adt["variants"][0]["fields"])
    ctx.check(fields == sorted(keys), "all-fields-rendered", f.where(), "every field of TestCaseConfig has a rendering in the one-liner",
              "fields %s are never rendered by to_yaml_one_liner" % sorted(set(fields) - keys))


def r17_3(ctx):
    prog = ctx.prog
    ser = prog.impl_fn("OutputStreamControl", "Serialize", "serialize")
    os_ = Origins(ser)
    names = {}
    for bb, t in ser.calls():
        if mname(t) == "Serializer::serialize_unit_variant":
            idx = peel(os_.operand(t["args"][2]))
            nm = const_str_of(prog, ser, os_.operand(t["args"][3]))
            if idx.kind == "const":
                names[idx.a.as_int()] = nm
    adt = prog.adt("OutputStreamControl", crate="scrut-lib")
    variants = [v["name"] for v in adt["variants"]]
    # how to_yaml_one_liner renders it: Display -> to_lowercase
    f = prog.fn("TestCaseConfig::to_yaml_one_liner")
    o = Origins(f)
    lowers = [t for _, t in f.calls() if mname(t) == "str::to_lowercase"]
    ctx.check(len(lowers) == 1, "enum-lowercased", f.where(), "output_stream is rendered as lowercase(Display)")
    disp = prog.impl_fn("OutputStreamControl", "Display", "fmt")
    dnames = _display_names(prog, disp, variants)
    for i, v in enumerate(variants):
        shown = dnames.get(v)
        ctx.check(shown is not None and shown.lower() == names.get(i), "variant:" + v, disp.where(),
                  "OutputStreamControl::%s is written `%s` and serde reads `%s`" % (v, (shown or "?").lower(), names.get(i)),
                  "OutputStreamControl::%s is written `%s` by the one-liner but serde expects `%s`" % (v, (shown or "?").lower(), names.get(i)))


def _display_names(prog, disp, variants):
    """variant -> text its Display impl writes (Display via Debug: the derived Debug names)"""
    o = Origins(disp)
    out = {}
    via_debug = any(mname(t) in ("Debug::fmt",) for _, t in disp.calls()) or any(
        p[3] == "debug" for bb, t in disp.calls() if mname(t) == "Arguments::new" for p in _safe_pieces(o, bb, t) if not isinstance(p, str))
    src = disp
    if via_debug:
        src = prog.impl_fn("OutputStreamControl", "Debug", "fmt")
    os_ = Origins(src)
    from ..cfgq import variant_edges
    for sb, st in switches(src):
        ve, rv = variant_edges(src, sb)
        if ve is None:
            continue
        for v, tg in ve.items():
            # literal assigned / written in the arm
            for bb in sorted(src.reachable(tg, removed_edges=src.back_edges())):
                for stt in src.blocks[bb]["stmts"]:
                    if stt["k"] == "assign":
                        n = peel(os_.rvalue(stt["rv"]))
                        if n.kind == "const" and n.a.as_str() is not None and v not in out and bb == tg:
                            out[v] = n.a.as_str()
    return out


def _safe_pieces(o, bb, t):
    try:
        return pieces(o._def((bb, "term", "call", t), 0, ()))
    except FmtError:
        return []


def r17_4(ctx):
    prog = ctx.prog
    pairs = {"render_duration": "parse_duration", "render_duration_opt": "parse_duration_opt"}
    for ty in ("TestCaseConfig", "DocumentConfig", "TestCaseWait"):
        ser_used, de_used = set(), set()
        for b in prog.bodies:
            if b.promoted is not None or "for config::%s>" % ty not in b.path:
                continue
            for bb, t in b.calls():
                nm = (t.get("resolved") or "").split("::")[-1]
                if nm in pairs:
                    ser_used.add(nm)
                if nm in pairs.values():
                    de_used.add(nm)
        want = {pairs[s] for s in ser_used}
        ctx.check(want == de_used, "with-pairing:" + ty, "-",
                  "%s: serialize_with %s is paired with deserialize_with %s" % (ty, sorted(ser_used), sorted(de_used)),
                  "%s: writes durations with %s but reads them with %s" % (ty, sorted(ser_used), sorted(de_used)))
    # both sides of each pair use humantime and the same "null" literal
    for r, p in pairs.items():
        rb, pb = prog.fn(r), prog.fn(p)
        rc = [mname(t) for _, t in rb.calls()]
        pc = [mname(t) for _, t in pb.calls()]
        ctx.check("format_duration" in rc and "parse_duration" in pc, "humantime:" + r, rb.where(),
                  "%s writes with humantime::format_duration and %s reads with humantime::parse_duration" % (r, p),
                  "%s/%s do not both use humantime (%s / %s)" % (r, p, rc, pc))
        if r.endswith("_opt"):
            rl = _str_literals(prog, rb)
            pl = _str_literals(prog, pb)
            ctx.check("null" in rl and "null" in pl, "null-literal", rb.where(), "the absent duration is written and read as the same literal `null`",
                      "absent-duration literals differ: writer %s reader %s" % (sorted(rl), sorted(pl)))
    # the one-liner writes durations with format_duration too
    f = prog.fn("TestCaseConfig::to_yaml_one_liner")
    _one_liner_durations(ctx, prog, f)


PURE_KINDS = {"field", "variant", "deref", "ref", "arg", "local", "phi", "cast", "agg"}


def _pure(tree):
    """the value is a stored Duration reached through projections/copies only (no arithmetic, no constructor)"""
    for n in tree.walk():
        if n.kind == "call":
            if method_name(n.a) not in ("Clone::clone", "Deref::deref", "Borrow::borrow", "AsRef::as_ref", "Option::as_ref", "Option::unwrap_or_default"):
                return False
        elif n.kind not in PURE_KINDS:
            return False
    return True


def _which(tree):
    names = {n.a for n in tree.walk() if n.kind == "field"}
    if "timeout" not in names:
        return None
    return "wait.timeout" if "wait" in names else "timeout"


def _one_liner_durations(ctx, prog, f):
    """both durations reach humantime::format_duration unmodified - directly, through a local closure or a crate-local helper"""
    from ..interp import Inliner
    inl = Inliner(prog)
    o = Origins(f)
    found, bad = set(), []
    wrappers = {}
    for c in prog.closures_of(f):
        if any(mname(t) == "format_duration" for _, t in c.calls()):
            wrappers[c.npath] = c
    for bb, t in f.calls():
        if mname(t) == "format_duration":
            tree = o.operand(t["args"][0])
            w = _which(tree)
            (found.add(w) if (w and _pure(tree)) else bad.append((f.loc(bb), tree.show()[:100])))
            continue
        cb = None
        if t.get("resolved_local"):
            cb = prog.body_by_def(t["resolved"], f.crate)
            if cb is not None and not any(mname(t2) == "format_duration" for _, t2 in cb.calls()):
                cb = None
        is_closure_call = mname(t) in ("Fn::call", "FnMut::call_mut", "FnOnce::call_once")
        if is_closure_call:
            recv = o.operand(t["args"][0])
            for n in recv.walk():
                if n.kind == "agg" and isinstance(n.a, tuple) and str(n.a[0]).startswith("closure "):
                    cand = prog.body_by_def(n.a[0][len("closure "):], f.crate)
                    if cand is not None and cand.npath in wrappers:
                        cb = cand
        if cb is None:
            continue
        # inside the wrapper: the formatted value is a parameter, untouched
        oc = Origins(cb)
        for b2, t2 in cb.calls():
            if mname(t2) == "format_duration":
                tr = oc.operand(t2["args"][0])
                if not (_pure(tr) and any(n.kind == "arg" for n in tr.walk())):
                    bad.append((cb.loc(b2), tr.show()[:100]))
        for a in t["args"][(1 if is_closure_call else 0):]:
            tree = o.operand(a)
            w = _which(tree)
            if w:
                (found.add(w) if _pure(tree) else bad.append((f.loc(bb), tree.show()[:100])))
    ctx.check(not bad, "one-liner-durations-unmodified", f.where(), "durations reach humantime::format_duration as stored (no arithmetic or re-construction on the way)",
              "a duration is transformed before it is formatted: %s - the one-liner then reads back as a different duration" % bad[:3])
    ctx.check(found == {"timeout", "wait.timeout"}, "one-liner-durations", f.where(), "timeout and wait.timeout are written with humantime::format_duration",
              "written with humantime::format_duration: %s (expected timeout and wait.timeout)" % sorted(found))


def _str_literals(prog, body):
    out = set()
    o = Origins(body)
    for bi, blk in enumerate(body.blocks):
        for st in blk["stmts"]:
            if st["k"] == "assign":
                for n in o.rvalue(st["rv"]).walk():
                    if n.kind == "const":
                        s = const_str_of(prog, body, n)
                        if s is not None:
                            out.add(s)
        t = blk["term"]
        if t["k"] == "call":
            for a in t["args"]:
                s = const_str_of(prog, body, o.operand(a))
                if s is not None:
                    out.add(s)
    return out


def config_uncut(ctx):
    """shared with C06 R6.12: the inline configuration reaches the parser uncut"""
    prog = ctx.prog
    it = prog.fn("<MarkdownIterator<'_> as Iterator>::next")
    o = Origins(it)
    # .. and nothing else: between the info string's configuration component (extract_code_block_start(..).2) and the stored config line the text
    # passes through the two strips only - no search for a "closing" brace, no slicing, no trimming (the one-liner quotes braces inside values)
    from ..facts import TRANSPARENT
    allowed = TRANSPARENT | {"str::strip_prefix", "str::strip_suffix", "Option::and_then", "Option::filter", "Try::branch"}
    stored = []
    for bi, blk in enumerate(it.blocks):
        if blk["cleanup"]:
            continue
        for si, st in enumerate(blk["stmts"]):
            if st["k"] == "assign" and st["rv"]["k"] == "agg" and st["rv"]["agg"] == "tuple":
                for op_ in st["rv"]["ops"]:
                    tree = o.operand(op_)
                    if any(n.kind == "call" and (n.a or "").endswith("extract_code_block_start") for n in tree.walk()):
                        stored.append((stmt_loc(it, bi, si), tree))
    cut = []
    for where_, tree in stored:
        def walk(n):
            if n.kind == "call":
                if (n.a or "").endswith("extract_code_block_start"):
                    return
                m = method_name(n.a)
                if m not in allowed and any(x.kind == "call" and (x.a or "").endswith("extract_code_block_start") for x in n.walk()):
                    cut.append((where_, m))
                    return
                for k in n.kids[:1]:
                    walk(k)
                return
            for k in n.kids:
                if n.kind == "phi" and peel(k).kind == "call" and method_name(peel(k).a) == "FromResidual::from_residual":
                    continue        # the None propagation alternative of `?` carries no text
                walk(k)
        walk(tree)
    ctx.check(bool(stored) and not cut, "config-uncut", stored[0][0] if stored else it.where(),
              "the stored inline configuration is the info string's `{..}` text minus the outer pair, otherwise uncut (%d store(s))" % len(stored),
              "the inline configuration is cut by %s before it is stored: the one-liner writes braces inside quoted values (`CLOSE: \"}\"`, wait path `/tmp/x}/ready`), "
              "a reader that looks for `the closing brace` truncates such a configuration and the document just written by create / --convert no longer parses" % sorted({m for _, m in cut}))


def r17_5(ctx):
    prog = ctx.prog
    it = prog.fn("<MarkdownIterator<'_> as Iterator>::next")
    o = Origins(it)
    strips = []
    for bb, t in it.calls():
        if mname(t) in ("str::strip_prefix", "str::strip_suffix"):
            c = peel(o.operand(t["args"][1]))
            strips.append((mname(t), c.a.as_char() if c.kind == "const" else None))
    for cb in prog.closures_of(it):
        oc = Origins(cb)
        for bb, t in cb.calls():
            if mname(t) in ("str::strip_prefix", "str::strip_suffix"):
                c = peel(oc.operand(t["args"][1]))
                strips.append((mname(t), c.a.as_char() if c.kind == "const" else None))
    ctx.check(sorted(strips) == [("str::strip_prefix", "{"), ("str::strip_suffix", "}")], "strip-one-pair", it.where(),
              "the fence config loses exactly one `{` .. `}` pair", "fence config strips %s" % sorted(strips))
    config_uncut(ctx)
    p = prog.impl_fn("MarkdownParser", "Parser", "parse")
    op = Origins(p)
    wraps = []
    for bb, t in p.calls():
        if mname(t) == "Arguments::new":
            try:
                ps = pieces(op._def((bb, "term", "call", t), 0, ()))
            except FmtError:
                continue
            text = "".join(x if isinstance(x, str) else "\x00" for x in ps)
            if text == "{\x00}":
                wraps.append(bb)
    ctx.check(len(wraps) == 1, "rewrap-one-pair", p.where(), "the parser re-wraps the inline config in exactly one `{..}` before handing it to serde_yaml",
              "found %d `{{{}}}` re-wraps in MarkdownParser::parse" % len(wraps))
    g = prog.impl_fn("MarkdownUpdateGenerator", "UpdateGenerator", "generate_update")
    og = Origins(g)
    forms = []
    for bb, t in g.calls():
        if mname(t) == "Arguments::new":
            try:
                ps = pieces(og._def((bb, "term", "call", t), 0, ()))
            except FmtError:
                continue
            text = "".join(x if isinstance(x, str) else "\x00" for x in ps)
            if "{" in text:
                forms.append(text)
    ctx.check(forms == [" {\x00}"], "update-rewrap", g.where(), "update writes the kept config lines back as ` {<config>}`", "update config forms: %r" % forms)
    f = prog.fn("TestCaseConfig::to_yaml_one_liner")
    of = Origins(f)
    try:
        ps = pieces(of.local(0))
        text = "".join(x if isinstance(x, str) else "\x00" for x in ps)
    except FmtError:
        text = None
    ctx.check(text == "{\x00}", "one-liner-braces", f.where(), "to_yaml_one_liner returns `{` + entries + `}`", "to_yaml_one_liner returns %r" % text)


def r17_6(ctx):
    """front matter: the opening and the closing delimiter are lines that *equal* `---`. serde_yaml writes multi-line values as indented block
    scalars, so a value line `  ---` is legal inside the front matter; a trimmed comparison ends the block there and the rest of the
    configuration is silently lost"""
    prog = ctx.prog
    f = prog.fn("<MarkdownIterator<'_> as Iterator>::next")
    bodies = [f] + [b for b in prog.bodies if b.promoted is None and b.file == f.file and b.npath.startswith("parsers::markdown::MarkdownIterator")]
    n = 0
    seen = set()
    for b in bodies:
        if id(b) in seen:
            continue
        seen.add(id(b))
        o = Origins(b)
        for bb, t in b.calls():
            if method_name(callee_name(t, resolved=False) or "") not in ("PartialEq::eq", "PartialEq::ne"):
                continue
            sides = [o.operand(a) for a in t["args"]]
            lit = [const_str_of(prog, b, x) for x in sides]
            if "---" not in lit:
                continue
            other = sides[1 - lit.index("---")]
            n += 1
            rew = sorted({method_name(x.a) for x in other.walk() if x.kind == "call" and method_name(x.a) in
                          ("str::trim", "str::trim_start", "str::trim_end", "str::trim_matches", "str::trim_end_matches", "str::trim_start_matches", "str::to_lowercase")})
            ctx.check(not rew, "frontmatter-delimiter#%d" % n, b.loc(bb), "a front-matter delimiter is a line equal to `---` (compared untrimmed)",
                      "a front-matter delimiter is recognised after %s: an indented `---` inside a block scalar of the rendered configuration ends the front matter early, "
                      "the keys after it are dropped without an error" % rew)
    ctx.check(n >= 2, "frontmatter-delimiters", f.where(), "%d comparisons with the `---` delimiter found (opening and closing)" % n,
              "only %d comparisons with `---` found in the Markdown tokenizer" % n)


def r17_7(ctx):
    """`is_empty` decides `nothing to write` for both renderings (the generator skips the `{..}` of an empty diff, serde skips `defaults:` when
    TestCaseConfig::is_empty): it must look at every field - a field it forgets makes a configuration that sets only that key vanish on the way out"""
    prog = ctx.prog
    n = 0
    for ty in ("TestCaseConfig", "DocumentConfig"):
        fs = prog.find_fns("%s::is_empty" % ty)
        if not fs:
            continue
        f = fs[0]
        adt = prog.adt(ty, crate="scrut-lib")
        fields = [x["name"] for x in adt["variants"][0]["fields"]]
        o = Origins(f)
        seen = set()
        for bb, t in f.calls():
            for a in t["args"]:
                for nd in o.operand(a).walk():
                    if nd.kind == "field" and nd.a in fields and nd.kids and peel(nd.kids[0]).kind == "arg":
                        seen.add(nd.a)
        for bi, blk in enumerate(f.blocks):
            for st in blk["stmts"]:
                if st["k"] == "assign":
                    for nd in o.rvalue(st["rv"]).walk():
                        if nd.kind == "field" and nd.a in fields and nd.kids and peel(nd.kids[0]).kind == "arg":
                            seen.add(nd.a)
            tt = blk["term"]
            if tt["k"] == "switch":
                pl = tt["discr"].get("copy") or tt["discr"].get("move")
                if pl is not None:
                    for nd in o.place(pl).walk():
                        if nd.kind == "field" and nd.a in fields and nd.kids and peel(nd.kids[0]).kind == "arg":
                            seen.add(nd.a)
        missing = sorted(set(fields) - seen)
        n += 1
        ctx.check(not missing, "is-empty-all-fields:" + ty, f.where(), "%s::is_empty looks at all %d fields" % (ty, len(fields)),
                  "%s::is_empty does not look at %s: a configuration that sets only %s counts as empty - `create` / `--convert` write the fence without `{..}` and the "
                  "front-matter loses its `defaults:` block, the key is gone when the document is read back" % (ty, missing, (missing or ["?"])[0]))
    if n < 1:
        raise AnchorError("no is_empty function on TestCaseConfig / DocumentConfig")


def r17_8(ctx):
    """(a) the quoted form of free text covers what JSON quoting leaves verbatim and YAML does not accept in a double quoted scalar: U+007F..U+009F
    (DEL, C1 controls incl. NEL, which YAML folds like a line break) - by an explicit range test or char::is_control; (b) `default, leave it out` for
    total_timeout is decided on the whole duration, not on a truncated one (900.5 s is not the default of 900 s)"""
    from .c01 import _all_consts
    prog = ctx.prog
    q = prog.fn("yaml_flow_scalar")
    bodies = [q] + prog.closures_of(q)
    bodies += [pb for b_ in list(bodies) for pb in prog.promoted_of(b_)]     # `('\u{7f}'..='\u{9f}').contains(&c)` keeps its range in a promoted constant
    consts, calls = set(), set()
    for b in bodies:
        for c, _ in _all_consts(b):
            if c.ty in ("char", "u32"):
                v = c.as_int()
                if v is not None:
                    consts.add(v)
        for bi, blk in enumerate(b.blocks):
            t = blk["term"]
            if t["k"] == "switch":
                for val, _tg in t.get("targets", []):
                    consts.add(int(val))
            if t["k"] == "call":
                calls.add(mname(t) or "")
    ranged = (0x7f in consts and (0x9f in consts or 0xa0 in consts)) or (0x7e in consts and (0x9f in consts or 0xa0 in consts))
    ctx.check(ranged or "char::is_control" in calls, "quoted-escapes-c1", q.where(),
              "the quoted form escapes U+007F..U+009F (range test %s / is_control %s)" % (ranged, "char::is_control" in calls),
              "yaml_flow_scalar writes DEL and the C1 control characters verbatim (JSON quoting leaves them): serde_yaml answers `control characters are not allowed` "
              "for the document just written, and NEL (U+0085) is read back as a blank")
    t = prog.fn("is_none_or_default_timeout")
    trunc = sorted({mname(tt) for _, tt in t.calls() if (mname(tt) or "").split("::")[-1] in ("as_secs", "as_millis", "as_micros", "as_secs_f32", "as_secs_f64", "subsec_millis", "subsec_nanos")})
    ctx.check(not trunc, "default-timeout-whole", t.where(), "`default, leave it out` compares the whole duration",
              "is_none_or_default_timeout decides on %s: 900.5 s counts as the default of 900 s, is left out of the front-matter and read back as 900 s" % trunc)


def r17_9(ctx):
    """writer / reader agreement on plain scalars: the one-liner writes a value unquoted when it consists of plain characters only - also `8080` or
    `1.5`. The readers of free-text fields therefore take the scalar's *text*: a reader that buffers the input first (serde's untagged enums,
    `deserialize_any` through `Content`) lets serde_yaml resolve a plain scalar to its YAML type, and a number-like wait path no longer reads as a path"""
    prog = ctx.prog
    bad = []
    n = 0
    for b in prog.bodies:
        if b.promoted is not None or b.crate != "scrut-lib" or not (b.file or "").endswith("src/config.rs") or "::tests" in b.npath:
            continue
        n += 1
        for bb, t in b.calls():
            c = (t.get("callee") or "") + " " + (t.get("resolved") or "")
            if "private::de::Content" in c or "ContentRefDeserializer" in c or "ContentDeserializer" in c or "de::content::" in c:
                bad.append((b.loc(bb), b.npath))
    ctx.check(not bad and n > 20, "no-typed-buffering", bad[0][0] if bad else "src/config.rs",
              "no deserializer in src/config.rs buffers its input through serde's typed `Content` (%d bodies)" % n,
              "%s buffers the input (untagged enum / deserialize_any): serde_yaml resolves plain scalars to their YAML type there, so the unquoted `path: 8080` that the "
              "one-liner writes for a number-like wait path is read as an integer and the configuration just written is rejected" % sorted({x for _, x in bad})[:2])


def run(ctx):
    ctx.run_rule("R17.1", "to_yaml_one_liner: every free-text value (environment keys/values, wait.path) passes a quoting function before interpolation [E-FLOW taint]", r17_1, floor=4)
    ctx.run_rule("R17.2", "key tables: one-liner keys == serde field names (write and read side) of TestCaseConfig / TestCaseWait; no field unrendered [E-TABLE]", r17_2, floor=3)
    ctx.run_rule("R17.3", "OutputStreamControl: lowercase(Display name) == serde variant name for every variant [E-TABLE]", r17_3, floor=4)
    ctx.run_rule("R17.6", "front matter is delimited by lines equal to `---`, compared untrimmed (block scalars of the rendered config may contain indented `---` lines) [E-FLOW]", r17_6, floor=3)
    ctx.run_rule("R17.4", "serialize_with/deserialize_with pairing per type; humantime on both sides; same `null` literal [E-TABLE]", r17_4, floor=6)
    ctx.run_rule("R17.5", "fence config: one `{}` pair stripped by the tokenizer, one re-wrapped by parser, update and one-liner [E-TABLE]", r17_5, floor=4)
    ctx.run_rule("R17.7", "is_empty (the `nothing to write` decision of generator and serde) looks at every field of the configuration [E-TABLE]", r17_7, floor=1)
    ctx.run_rule("R17.8", "quoting covers DEL / C1 controls (what JSON leaves raw and YAML rejects or folds); the default-timeout omission compares the whole duration (F36, F37) [E-TABLE]", r17_8, floor=2)
    ctx.run_rule("R17.9", "readers of free-text fields take the scalar's text: no typed buffering (untagged enum: serde's `Content`) in src/config.rs, because the writer leaves plain number-like values unquoted [E-SITE]", r17_9, floor=1)
