"""E-STATE — property simulation (ESP-style typestate) over `DiffTool::diff` for C01, C02, C03.

The abstract state is a small tuple of three-valued facts about the two cursors (expectation
cursor E, line cursor L), the current pair (match / optional / multiline / next-matches), the
open multiline run (M) and the records pushed in the current loop iteration ("credits").
States are *not* merged at joins, so correlations such as "run open => E in bounds" survive.
Roles (E, L, M, D, LINES, the expectation list) are bound by dataflow, never by name.

`analyse(prog)` returns a list of obligation records {rule, key, ok, where, what}; c01/c02/c03
report the subsets that belong to them."""
from ..cfgq import bool_edges, cond_tree, switches, variant_edges, place_key
from ..facts import AnchorError, Origins, call_name, callee_name, method_name, mname, peel, strip_mods

T, F, U = "T", "F", "?"


class Model:
    def __init__(self, prog):
        self.prog = prog
        self.f = prog.fn("DiffTool::diff")
        self.o = Origins(self.f)
        self.obl = {}
        self._bind()
        self._events = {}
        self.states = 0
        self.transitions = 0

    # -- recording --------------------------------------------------------------------------
    def need(self, rule, key, cond, where, ok_text, bad_text):
        k = (rule, key)
        cur = self.obl.get(k)
        if cur is None:
            self.obl[k] = {"rule": rule, "key": key, "ok": bool(cond), "where": where, "what": ok_text if cond else bad_text, "n": 1}
        else:
            cur["n"] += 1
            if not cond and cur["ok"]:
                cur.update({"ok": False, "what": bad_text, "where": where})

    # -- role binding -----------------------------------------------------------------------
    def _bind(self):
        f, o = self.f, self.o
        e_loc, l_loc = set(), set()
        self.exps_field = None
        lines_locals = [l for l in range(len(f.locals)) if any(d[2] == "call" and mname(d[3]) == "SplitLinesByNewline::split_at_newline" for d in f.defs.get(l, []))]
        if len(lines_locals) != 1:
            raise AnchorError("DiffTool::diff: the local holding split_at_newline(output) was not found (%d)" % len(lines_locals))
        self.LINES = lines_locals[0]
        src = peel(o.local(self.LINES))
        if not (src.kind == "call" and peel(src.kids[0]).kind == "arg" and peel(src.kids[0]).a == 2):
            raise AnchorError("DiffTool::diff: LINES is not split_at_newline(output)")
        # loops: one outer loop over the cursors; inner loops are accepted only as the explicit form of the ranged-unmatched
        # idiom and are contracted into a single event (see _summarise_inner)
        all_back = f.back_edges()
        heads = {h for _, h in all_back}
        outer = [h for h in heads if all(f.dominates(h, h2) for h2 in heads)]
        if len(outer) != 1:
            raise AnchorError("DiffTool::diff: expected one outermost loop, found heads %s" % sorted(heads))
        self.head = outer[0]
        self.back = [(b, h) for b, h in all_back if h == self.head]
        self.inner_body = {}
        for h in sorted(heads - {self.head}):
            body = {h}
            for b, hh in all_back:
                if hh != h:
                    continue
                stack = [b]
                body.add(b)
                while stack:
                    x = stack.pop()
                    for pq in f.preds[x]:
                        if pq not in body and f.dominates(h, pq):
                            body.add(pq)
                            stack.append(pq)
            self.inner_body[h] = body
        self.inner_blocks = set().union(*self.inner_body.values()) if self.inner_body else set()
        for bb, t in f.calls():
            if mname(t) != "Index::index" or bb in self.inner_blocks:
                continue
            st = strip_mods(t.get("self_ty", ""))
            recv = self._ref_target(t["args"][0])
            idx = f.canon_place(t["args"][1].get("copy") or t["args"][1].get("move")) if ("copy" in t["args"][1] or "move" in t["args"][1]) else None
            if st.startswith("Vec<Expectation") and recv is not None and recv["l"] == 1:
                fld = [p["n"] for p in recv["p"] if isinstance(p, dict) and "n" in p]
                self.exps_field = fld[-1] if fld else None
                if idx is not None and not idx["p"]:
                    e_loc.add(idx["l"])
            elif recv is not None and recv["l"] == self.LINES and not recv["p"] and idx is not None and not idx["p"]:
                l_loc.add(idx["l"])
        if len(e_loc) != 1 or len(l_loc) != 1 or self.exps_field is None:
            raise AnchorError("DiffTool::diff: cursor roles not unique (expectation cursors %s, line cursors %s)" % (sorted(e_loc), sorted(l_loc)))
        self.E, self.L = e_loc.pop(), l_loc.pop()
        # M: Option<usize> local assigned Some(L)
        ms = set()
        for l in range(len(f.locals)):
            if f.lty(l) == "std::option::Option<usize>" and len(f.defs.get(l, [])) > 1:
                for d in f.defs.get(l, []):
                    if d[2] == "assign":
                        src = self._agg_of(d[3])
                        if src is not None and src["variant"] == "Some" and self._is(src["ops"][0], self.L):
                            ms.add(l)
        if len(ms) != 1:
            raise AnchorError("DiffTool::diff: the multiline run marker (Option<usize> assigned Some(line cursor)) is not unique: %s" % sorted(ms))
        self.M = ms.pop()
        dn = [(bb, t) for bb, t in f.calls() if mname(t) == "Diff::new"]
        if len(dn) != 1:
            raise AnchorError("DiffTool::diff: expected one Diff::new call")
        c = f.canon_place(dn[0][1]["args"][0].get("move") or dn[0][1]["args"][0].get("copy"))
        self.D = c["l"]
        self.diff_new_bb = dn[0][0]
        self.inner = {h: self._summarise_inner(h, body) for h, body in self.inner_body.items()}
        # to_output_list closure
        self.tol = None
        for l in range(len(f.locals)):
            d = f.single_def(l)
            if d and d[2] == "assign" and d[3]["k"] == "agg" and d[3]["agg"] == "closure":
                cb = self.prog.body_by_def(d[3]["def"], f.crate)
                if cb is not None and cb.lty(0).startswith("(usize, std::vec::Vec<u8>"):
                    self.tol = (l, cb, d[3])

    def _ref_target(self, op):
        """canonical place an operand refers to (through `&P` temporaries, derefs and Deref::deref)"""
        f = self.f
        pl = op.get("copy") or op.get("move")
        if pl is None:
            return None
        c = f.canon_place(pl)
        for _ in range(10):
            rest = c["p"]
            if rest and rest[0] == "*":
                rest = rest[1:]
            elif rest:
                return c
            d = f.single_def(c["l"])
            if d and d[2] == "assign" and d[3]["k"] == "ref":
                inner = f.canon_place(d[3]["place"])
                c = {"l": inner["l"], "p": inner["p"] + rest}
                if rest:
                    return c
                continue
            if d and d[2] == "call" and mname(d[3]) in ("Deref::deref", "Borrow::borrow", "AsRef::as_ref"):
                a = d[3]["args"][0]
                inner = f.canon_place(a.get("copy") or a.get("move"))
                c = {"l": inner["l"], "p": inner["p"] + rest}
                continue
            if rest != c["p"]:
                return {"l": c["l"], "p": c["p"]}
            return c
        return c

    def _agg_of(self, rv):
        if rv["k"] == "agg" and rv["agg"] == "adt":
            return rv
        if rv["k"] == "use":
            pl = rv["op"].get("move") or rv["op"].get("copy")
            if pl and not pl["p"]:
                d = self.f.single_def(pl["l"])
                if d and d[2] == "assign":
                    return self._agg_of(d[3])
        return None

    def _is(self, op, local):
        pl = op.get("copy") or op.get("move")
        if pl is None:
            return False
        c = self.f.canon_place(pl)
        return c["l"] == local and not c["p"]

    def _canon(self, op):
        pl = op.get("copy") or op.get("move")
        return None if pl is None else self.f.canon_place(pl)

    # -- classification of values -----------------------------------------------------------
    def kind_of_index(self, op):
        """'E', 'L', 'M.payload', 'peek.NextExpectation', 'peek.NextLine', 'len.EXPS', 'len.LINES', 'E+1', 'L+1', const, or None"""
        f = self.f
        if "const" in op:
            v = op["const"].get("val", {})
            return "const:%s" % v.get("bits")
        c = self._canon(op)
        if c is None:
            return None
        if not c["p"]:
            if c["l"] == self.E:
                return "E"
            if c["l"] == self.L:
                return "L"
            d = f.single_def(c["l"])
            if d and d[2] == "call" and mname(d[3]) in ("Vec::len", "slice::len"):
                r = self._ref_target(d[3]["args"][0])
                if r is not None and r["l"] == self.LINES:
                    return "len.LINES"
                if r is not None and r["l"] == 1 and [p["n"] for p in r["p"] if isinstance(p, dict) and "n" in p][-1:] == [self.exps_field]:
                    return "len.EXPS"
            if d and d[2] == "assign" and d[3]["k"] == "use":
                return None
            return None
        names = [(p.get("dc") or p.get("n")) for p in c["p"] if isinstance(p, dict)]
        if c["l"] == self.M and names == ["Some", "0"]:
            return "M.payload"
        d = f.single_def(c["l"])
        if d and d[2] == "call" and (callee_name(d[3]) or "").endswith("DiffTool::peek_match") and len(names) == 2 and names[1] == "0":
            return "peek." + names[0]
        # (AddWithOverflow(C, 1)).0
        if d and d[2] == "assign" and d[3]["k"] == "bin" and d[3]["op"] in ("AddWithOverflow", "Add") and names == ["0"]:
            a = d[3]["a"]
            b = d[3]["b"]
            one = "const" in b and b["const"].get("val", {}).get("bits") == "1"
            if one and self._is(a, self.E):
                return "E+1"
            if one and self._is(a, self.L):
                return "L+1"
        return None

    def exp_ref_kind(self, op):
        """does the operand denote &EXPS[E] ('cur'), the payload of EXPS.get(E+1) ('next') or neither"""
        f = self.f
        c = self._ref_target(op)
        if c is None:
            return None
        # deref of a local defined by Index::index(&EXPS, E)
        base = c["l"]
        for _ in range(6):
            d = f.single_def(base)
            if d is None:
                return None
            if d[2] == "call":
                t = d[3]
                if mname(t) == "Index::index" and strip_mods(t.get("self_ty", "")).startswith("Vec<Expectation"):
                    return "cur" if self.kind_of_index(t["args"][1]) == "E" else None
                if mname(t) == "slice::get":
                    return "next" if self.kind_of_index(t["args"][1]) == "E+1" else None
                if mname(t) in ("ToOwned::to_owned", "Clone::clone", "Deref::deref"):
                    r = self._ref_target(t["args"][0])
                    if r is None:
                        return None
                    base = r["l"]
                    continue
                return None
            if d[2] == "assign":
                rv = d[3]
                if rv["k"] == "ref":
                    r = f.canon_place(rv["place"])
                    base = r["l"]
                    continue
                if rv["k"] == "use":
                    pl = rv["op"].get("copy") or rv["op"].get("move")
                    if pl is None:
                        return None
                    r = f.canon_place(pl)
                    base = r["l"]
                    continue
            return None
        return None

    def line_ref_ok(self, op):
        """operand denotes LINES[L] (the current line)"""
        f = self.f
        c = self._ref_target(op)
        if c is None:
            return False
        base = c["l"]
        for _ in range(6):
            d = f.single_def(base)
            if d is None:
                return False
            if d[2] == "call":
                t = d[3]
                if mname(t) == "Index::index":
                    r = self._ref_target(t["args"][0])
                    return r is not None and r["l"] == self.LINES and self.kind_of_index(t["args"][1]) == "L"
                if mname(t) in ("ToOwned::to_owned", "Deref::deref", "slice::to_vec"):
                    r = self._ref_target(t["args"][0])
                    if r is None:
                        return False
                    base = r["l"]
                    continue
                return False
            if d[2] == "assign":
                rv = d[3]
                pl = rv.get("place") if rv["k"] == "ref" else (rv["op"].get("copy") or rv["op"].get("move")) if rv["k"] == "use" else None
                if pl is None:
                    return False
                base = f.canon_place(pl)["l"]
                continue
            return False
        return False

    # -- events -----------------------------------------------------------------------------
    def _summarise_inner(self, h, body):
        """explicit form of the ranged idiom:  for i in A..B { if !EXPS[i].optional { D.push(Unmatched{ index: i, expectation: EXPS[i].clone() }) } }
        -> (("ranged", where, info), exit_block)"""
        f, o = self.f, self.o
        where = f.loc(h)
        nexts = [(bb, t) for bb, t in f.calls() if bb in body and mname(t) == "Iterator::next"]
        if len(nexts) != 1 or "Range<usize>" not in strip_mods(nexts[0][1].get("self_ty", "") or ""):
            raise AnchorError("DiffTool::diff: inner loop at %s is not a `for i in a..b` loop" % where)
        nb, nt = nexts[0]
        ve, rv = variant_edges(f, nt["target"])
        if ve is None or set(ve) != {"Some", "None"} or ve["None"] in body or ve["Some"] not in body:
            raise AnchorError("DiffTool::diff: inner loop at %s: iterator result is not matched Some/None" % where)
        exits = {s2 for b in body for s2 in f.succ(b) if s2 not in body and not f.blocks[s2]["cleanup"] and f.blocks[s2]["term"]["k"] != "unreachable"}
        early = sorted(exits - {ve["None"]})
        if ve["None"] not in exits:
            raise AnchorError("DiffTool::diff: inner loop at %s is never left by iterator exhaustion (%s)" % (where, sorted(exits)))
        info = {"start": None, "end": None, "filter_ok": False, "push_ok": False, "targets_d": False, "early_exit": sorted({f.loc(b) for b in body for s2 in f.succ(b) if s2 in early})}
        it = o.operand(nt["args"][0])
        rngs = [n for n in it.walk() if n.kind == "agg" and n.a[0].endswith("Range::Range") and n.at is not None]
        if len(rngs) == 1:
            st = f.blocks[rngs[0].at[0]]["stmts"][rngs[0].at[1]]
            info["start"] = self.kind_of_index(st["rv"]["ops"][0])
            info["end"] = self.kind_of_index(st["rv"]["ops"][1])

        def is_i(tree):
            n = peel(tree)
            return n.kind == "field" and n.a == "0" and n.kids and n.kids[0].kind == "variant" and n.kids[0].a == "Some" and \
                any(k.kind == "call" and k.at is not None and k.at[0] == nb for k in n.walk())

        def is_exp_i(tree):
            return any(n.kind == "call" and method_name(n.a) == "Index::index" and len(n.kids) == 2 and is_i(n.kids[1]) and
                       any(k.kind == "field" and k.a == self.exps_field for k in n.kids[0].walk()) for n in tree.walk())
        # any write to a cursor / the run marker / other effects inside the inner loop are not part of the idiom
        for b in body:
            for st in f.blocks[b]["stmts"]:
                if st["k"] == "assign" and not st["lhs"]["p"] and st["lhs"]["l"] in (self.E, self.L, self.M):
                    raise AnchorError("DiffTool::diff: inner loop at %s writes a cursor" % where)
        pushes = [(bb, t) for bb, t in f.calls() if bb in body and mname(t) == "Vec::push"]
        if len(pushes) == 1:
            pb, pt = pushes[0]
            info["targets_d"] = (self._ref_target(pt["args"][0]) or {}).get("l") == self.D
            a = peel(o.operand(pt["args"][1]))
            if a.kind == "agg" and a.a[0].endswith("DiffLine::UnmatchedExpectation"):
                vals = dict(zip(a.a[1], a.kids))
                ex = peel(vals["expectation"])
                info["push_ok"] = is_i(vals["index"]) and ex.kind == "call" and method_name(ex.a) in ("Clone::clone", "ToOwned::to_owned", "Index::index") and is_exp_i(ex)
            # guard: the push is control dependent on `!EXPS[i].optional`
            for sb in body:
                be = bool_edges(f, sb) if f.blocks[sb]["term"]["k"] == "switch" else None
                if be is None:
                    continue
                tt, tf = be
                inner_back = [(b, h)] if False else [(b2, h2) for b2, h2 in f.back_edges() if h2 == h]
                on_t = pb in f.reachable(tt, removed_edges=inner_back)
                on_f = pb in f.reachable(tf, removed_edges=inner_back)
                if on_t == on_f:
                    continue
                tree = cond_tree(f, sb, o)
                neg = False
                while tree.kind == "un" and tree.a == "Not":
                    neg = not neg
                    tree = tree.kids[0]
                tr = peel(tree)
                is_opt = tr.kind == "field" and tr.a == "optional" and is_exp_i(tr)
                # push when optional is false
                pushes_when_optional = on_f if neg else on_t
                info["filter_ok"] = bool(is_opt and not pushes_when_optional)
        return ("ranged", where, info), ve["None"]

    def events(self, bb):
        if bb in self._events:
            return self._events[bb]
        if bb in self.inner:
            self._events[bb] = [self.inner[bb][0]]
            return self._events[bb]
        f = self.f
        ev = []
        blk = f.blocks[bb]
        for si, st in enumerate(blk["stmts"]):
            if st["k"] != "assign" or st["lhs"]["p"]:
                continue
            l = st["lhs"]["l"]
            if l in (self.E, self.L):
                k = self.kind_of_index(st["rv"]["op"]) if st["rv"]["k"] == "use" else None
                who = "E" if l == self.E else "L"
                if k == who + "+1":
                    ev.append((who + "_inc", f.loc(bb, st["sp"])))
                elif k == ("peek.NextExpectation" if who == "E" else "peek.NextLine"):
                    ev.append((who + "_jump", f.loc(bb, st["sp"])))
                elif k == "const:0" and bb not in f.reachable(self.head):
                    ev.append((who + "_init", f.loc(bb, st["sp"])))
                else:
                    ev.append((who + "_other", f.loc(bb, st["sp"]), k))
            elif l == self.M:
                a = self._agg_of(st["rv"])
                if a is not None and a["variant"] == "Some":
                    ev.append(("M_open", f.loc(bb, st["sp"]), self.kind_of_index(a["ops"][0])))
                elif a is not None and a["variant"] == "None":
                    ev.append(("M_close", f.loc(bb, st["sp"])))
                else:
                    ev.append(("M_other", f.loc(bb, st["sp"])))
        t = blk["term"]
        if t["k"] == "call":
            m = mname(t)
            where = f.loc(bb)
            touches_d = any((self._ref_target(a) or {}).get("l") == self.D for a in t["args"])
            if m == "Vec::push" and touches_d:
                ev.append(self._push_event(bb, t))
            elif m == "Iterator::for_each":
                ev.append(self._ranged_event(bb, t))
            elif m == "Index::index":
                recv = self._ref_target(t["args"][0])
                if recv is not None and recv["l"] == self.LINES:
                    ev.append(("index", where, "LINES", self.kind_of_index(t["args"][1])))
                elif strip_mods(t.get("self_ty", "")).startswith("Vec<Expectation"):
                    ev.append(("index", where, "EXPS", self.kind_of_index(t["args"][1])))
            elif (callee_name(t) or "").endswith("DiffTool::peek_match"):
                ev.append(("peek", where, self.kind_of_index(t["args"][1]), (self._ref_target(t["args"][2]) or {}).get("l") == self.LINES, self.kind_of_index(t["args"][3])))
            elif m == "Diff::new":
                ev.append(("diff_new", where, self._is(t["args"][0], self.D)))
            elif touches_d and m not in ("Vec::new",):
                ev.append(("D_other", where, m))
        self._events[bb] = ev
        return ev

    def _lines_payload(self, op):
        """classify the `lines:` operand of a DiffLine: ('single', idx_kind, line_ok) | ('range', start, end, tol_ok) | ('other', text)"""
        f, o = self.f, self.o
        tree = peel(o.operand(op))
        if tree.kind == "call" and method_name(tree.a) == "Iterator::collect":
            mp = peel(tree.kids[0])
            if mp.kind == "call" and method_name(mp.a) == "Iterator::map":
                rng = peel(mp.kids[0])
                fn = mp.kids[1]
                tol_ok = self.tol is not None and any(n.kind == "agg" and n.a[0] == "closure " + self.tol[2]["def"] for n in fn.walk())
                if rng.kind == "agg" and rng.a[0].endswith("Range::Range") and rng.at is not None:
                    st = f.blocks[rng.at[0]]["stmts"][rng.at[1]]
                    ops = st["rv"]["ops"]
                    return ("range", self.kind_of_index(ops[0]), self.kind_of_index(ops[1]), tol_ok)
        # vec![(L, line.to_owned())]: boxed array idiom
        if tree.kind == "call" and any(n.kind == "call" and method_name(n.a) == "Box::new_uninit" for n in tree.walk()):
            box_nodes = [n for n in tree.walk() if n.kind == "call" and method_name(n.a) == "Box::new_uninit"]
            box_at = box_nodes[0].at
            for bi, blk in enumerate(f.blocks):
                for st in blk["stmts"]:
                    if st["k"] == "assign" and st["lhs"]["p"] and st["lhs"]["p"][0] == "*" and st["rv"]["k"] == "agg" and st["rv"]["agg"] == "array":
                        base = o.local(st["lhs"]["l"])
                        if any(n.kind == "call" and n.at == box_at for n in base.walk()) and len(st["rv"]["ops"]) == 1:
                            el = st["rv"]["ops"][0]
                            d = f.single_def((el.get("move") or el.get("copy"))["l"])
                            if d and d[2] == "assign" and d[3]["k"] == "agg" and d[3]["agg"] == "tuple" and len(d[3]["ops"]) == 2:
                                return ("single", self.kind_of_index(d[3]["ops"][0]), self.line_ref_ok(d[3]["ops"][1]))
            return ("other", "boxed array without recognisable element")
        return ("other", tree.show()[:80])

    def _push_event(self, bb, t):
        f = self.f
        where = f.loc(bb)
        pl = t["args"][1].get("move") or t["args"][1].get("copy")
        d = f.single_def(pl["l"]) if pl and not pl["p"] else None
        if not d or d[2] != "assign" or d[3]["k"] != "agg" or d[3]["agg"] != "adt" or not strip_mods(d[3]["adt"]).endswith("DiffLine"):
            return ("push", where, "?", {})
        rv = d[3]
        info = {}
        for fld, op in zip(rv["fields"], rv["ops"]):
            if fld == "index":
                info["index"] = self.kind_of_index(op)
            elif fld == "expectation":
                info["expectation"] = self.exp_ref_kind(op)
            elif fld == "lines":
                info["lines"] = self._lines_payload(op)
        return ("push", where, rv["variant"], info)

    def _ranged_event(self, bb, t):
        """for_each(filter(Range{a,b}, |i| !EXPS[i].optional), |i| D.push(Unmatched{i, EXPS[i].clone()}))"""
        f, o, prog = self.f, self.o, self.prog
        where = f.loc(bb)
        src = peel(o.operand(t["args"][0]))
        info = {"start": None, "end": None, "filter_ok": False, "push_ok": False, "targets_d": False}
        if src.kind == "call" and method_name(src.a) == "Iterator::filter":
            rng = peel(src.kids[0])
            if rng.kind == "agg" and rng.a[0].endswith("Range::Range") and rng.at is not None:
                st = f.blocks[rng.at[0]]["stmts"][rng.at[1]]
                info["start"] = self.kind_of_index(st["rv"]["ops"][0])
                info["end"] = self.kind_of_index(st["rv"]["ops"][1])
            fc = peel(src.kids[1])
            if fc.kind == "agg" and fc.a[0].startswith("closure "):
                cb = prog.body_by_def(fc.a[0][len("closure "):], f.crate)
                if cb is not None:
                    oc = Origins(cb)
                    r = oc.local(0)
                    info["filter_ok"] = r.kind == "un" and r.a == "Not" and peel(r.kids[0]).kind == "field" and peel(r.kids[0]).a == "optional" and \
                        any(n.kind == "call" and method_name(n.a) == "Index::index" and any(x.kind == "arg" and x.a == 2 for x in n.kids[1].walk()) for n in r.walk())
        elif src.kind == "agg" and src.a[0].endswith("Range::Range"):
            info["filter_ok"] = False
        gc = peel(o.operand(t["args"][1]))
        if gc.kind == "agg" and gc.a[0].startswith("closure "):
            cb = prog.body_by_def(gc.a[0][len("closure "):], f.crate)
            # the closure must capture &mut D
            for k in gc.kids:
                n = k
                while n.kind in ("ref", "deref") and n.kids:
                    n = n.kids[0]
            for bi, blk in enumerate(f.blocks):
                for st in blk["stmts"]:
                    if st["k"] == "assign" and st["rv"]["k"] == "agg" and st["rv"]["agg"] == "closure" and cb is not None and st["rv"]["def"] == cb.path:
                        info["targets_d"] = any((self._ref_target(op) or {}).get("l") == self.D for op in st["rv"]["ops"])
            if cb is not None:
                oc = Origins(cb)
                pushes = [(b2, t2) for b2, t2 in cb.calls() if mname(t2) == "Vec::push"]
                if len(pushes) == 1 and all(pushes[0][0] in cb.reachable(0) and rb not in cb.reachable(0, removed_blocks=[pushes[0][0]]) for rb in cb.return_blocks()):
                    a = peel(oc.operand(pushes[0][1]["args"][1]))
                    if a.kind == "agg" and a.a[0].endswith("DiffLine::UnmatchedExpectation"):
                        vals = dict(zip(a.a[1], a.kids))
                        idx_ok = peel(vals["index"]).kind == "arg" and peel(vals["index"]).a == 2
                        ex = peel(vals["expectation"])
                        ex_ok = ex.kind == "call" and method_name(ex.a) == "Index::index" and peel(ex.kids[1]).kind == "arg" and peel(ex.kids[1]).a == 2
                        info["push_ok"] = idx_ok and ex_ok
        return ("ranged", where, info)

    # -- edge refinement --------------------------------------------------------------------
    def edge_facts(self, bb):
        """{target: [(fact, value)]} for a switch block"""
        f, o = self.f, self.o
        t = f.blocks[bb]["term"]
        out = {}
        if t["k"] != "switch":
            return out
        be = bool_edges(f, bb)
        if be is not None:
            tt, tf = be
            tree = cond_tree(f, bb, o)
            neg = False
            while tree.kind == "un" and tree.a == "Not":
                neg = not neg
                tree = tree.kids[0]
            fact = None
            pl = t["discr"].get("move") or t["discr"].get("copy")
            # a user variable holding the result (`let is_match = ..; if is_match`): chase copies of bare locals only
            for _ in range(4):
                dd = f.single_def(pl["l"]) if pl is not None and not pl["p"] else None
                if dd and dd[2] == "assign" and dd[3]["k"] == "use":
                    src = dd[3]["op"].get("copy") or dd[3]["op"].get("move")
                    if src is not None and not src["p"]:
                        pl = src
                        continue
                break
            d = f.single_def(pl["l"]) if pl and not pl["p"] else None
            if d and d[2] == "call":
                ct = d[3]
                m = mname(ct)
                if (callee_name(ct) or "").endswith("Expectation::matches"):
                    which = self.exp_ref_kind(ct["args"][0])
                    if self.line_ref_ok(ct["args"][1]):
                        fact = "match" if which == "cur" else ("nextm" if which == "next" else None)
                elif m in ("Option::is_some", "Option::is_none"):
                    r = self._ref_target(ct["args"][0])
                    if r is not None and r["l"] == self.M and not r["p"]:
                        fact = "run"
                        if m == "Option::is_none":
                            neg = not neg
            elif d and d[2] == "assign":
                rv = d[3]
                if rv["k"] == "use":
                    c = self._canon(rv["op"])
                    if c is not None and c["p"]:
                        fld = [p["n"] for p in c["p"] if isinstance(p, dict) and "n" in p]
                        base_kind = self.exp_ref_kind({"copy": {"l": c["l"], "p": []}})
                        if fld[-1:] == ["multiline"] and base_kind == "cur":
                            fact = "multi"
                        elif fld[-1:] == ["optional"] and base_kind == "cur":
                            fact = "opt"
                elif rv["k"] == "bin" and rv["op"] in ("Lt", "Gt", "Le", "Ge"):
                    a, b = self.kind_of_index(rv["a"]), self.kind_of_index(rv["b"])
                    if rv["op"] == "Lt" and a == "E" and b == "len.EXPS":
                        fact = "Einb"
                    elif rv["op"] == "Lt" and a == "L" and b == "len.LINES":
                        fact = "Linb"
                    elif rv["op"] == "Gt" and b == "E" and a == "len.EXPS":
                        fact = "Einb"
                    elif rv["op"] == "Gt" and b == "L" and a == "len.LINES":
                        fact = "Linb"
            if fact is not None:
                tv, fv = (F, T) if neg else (T, F)
                if fact == "run":
                    tv, fv = ("open", "closed") if not neg else ("closed", "open")
                out.setdefault(tt, []).append((fact, tv))
                out.setdefault(tf, []).append((fact, fv))
            return out
        ve, rv = variant_edges(f, bb)
        if ve is not None:
            c = f.canon_place(rv["place"])
            if c["l"] == self.M and not c["p"]:
                for v, tg in ve.items():
                    out.setdefault(tg, []).append(("run", "open" if v == "Some" else "closed"))
            else:
                d = f.single_def(c["l"])
                if d and d[2] == "call" and (callee_name(d[3]) or "").endswith("DiffTool::peek_match") and not c["p"]:
                    for v, tg in ve.items():
                        out.setdefault(tg, []).append(("peek", v))
        return out

    # -- simulation -------------------------------------------------------------------------
    def run(self):
        f = self.f
        init = {"match": U, "opt": U, "multi": U, "nextm": U, "run": U, "Einb": U, "Linb": U, "cred": frozenset(), "prog": False,
                "Ewr": False, "Lwr": False, "peek": U, "tail": False, "in_loop": False, "run_at_start": U, "rne": U}
        work = [(0, self._freeze(init))]
        seen = set()
        while work:
            bb, fs = work.pop()
            if (bb, fs) in seen:
                continue
            seen.add((bb, fs))
            self.states += 1
            if self.states > 200000:
                raise RuntimeError("diffstate: state space unexpectedly large")
            s = dict(fs)
            if bb == self.head:
                if s["in_loop"]:
                    # arriving over the back edge: iteration obligations
                    self.need("R2.2", "progress", s["prog"], f.loc(bb), "every loop iteration strictly advances a cursor",
                              "a path through the loop body reaches the loop head without advancing the expectation or the line cursor (non-termination)")
                    self.need("R1.2", "run-closed-after-E-write", (not s["Ewr"]) or s["run"] == "closed", f.loc(bb),
                              "whenever the expectation cursor moves, the multiline run is closed before the next iteration",
                              "the expectation cursor was advanced while the multiline run marker stays set: lines of the run are attributed to the wrong expectation")
                s.update({"match": U, "nextm": U, "cred": frozenset(), "prog": False, "peek": U, "in_loop": True})
                if s["Ewr"]:
                    # facts about EXPS[E] survive an iteration only while E is unchanged (self is immutable)
                    s.update({"Einb": U, "opt": U, "multi": U})
                if s["Lwr"]:
                    s["Linb"] = U
                s["Ewr"] = s["Lwr"] = False
                s["run_at_start"] = s["run"]
            for ev in self.events(bb):
                s = self.apply(bb, ev, s)
            t = f.blocks[bb]["term"]
            facts = self.edge_facts(bb)
            succs = f.succ(bb)
            if bb in self.inner:
                facts, succs = {}, [self.inner[bb][1]]
            for nb in succs:
                ns = dict(s)
                feasible = True
                for fact, val in facts.get(nb, []):
                    cur = ns.get(fact, U)
                    if cur != U and cur != val:
                        feasible = False
                    ns[fact] = val
                if not feasible:
                    continue
                # leaving the loop
                if ns["in_loop"] and not ns["tail"] and nb not in self._loop_blocks():
                    ns["tail"] = True
                    ns["cred"] = frozenset()
                    ns["match"] = U
                self.transitions += 1
                work.append((nb, self._freeze(ns)))
        return self

    def _loop_blocks(self):
        if not hasattr(self, "_lb"):
            f = self.f
            body = set()
            for b, h in self.back:
                # natural loop of back edge b->h
                stack = [b]
                body |= {h, b}
                while stack:
                    x = stack.pop()
                    for p in f.preds[x]:
                        if p not in body and f.dominates(h, p):
                            body.add(p)
                            stack.append(p)
            self._lb = body
        return self._lb

    @staticmethod
    def _freeze(s):
        return tuple(sorted(s.items(), key=lambda kv: kv[0]))

    def apply(self, bb, ev, s):
        s = dict(s)
        kind, where = ev[0], ev[1]
        cred = set(s["cred"])
        tail = s["tail"]
        if kind == "L_inc":
            ok = s["match"] == T and ("matched_single" in cred or (s["run"] == "open" and s["multi"] == T))
            self.need("R1.1", "L+1@%s" % self._site(bb), ok, where,
                      "the line cursor advances only over a line that matched and was recorded (single match) or belongs to the open multiline run",
                      "the line cursor advances although the current line was not matched-and-recorded (match=%s, credits=%s, run=%s): an output line disappears from the result"
                      % (s["match"], sorted(cred), s["run"]))
            s.update({"Lwr": True, "prog": True, "Linb": U, "nextm": U})
            if s["run"] == "open":
                s["rne"] = T
        elif kind == "L_jump":
            ok = "unexpected_jump" in cred and s["match"] == F
            self.need("R1.3", "L=X@%s" % self._site(bb), ok, where, "the line cursor jumps only after the skipped lines L..X were recorded as unexpected (and the current pair did not match)",
                      "the line cursor jumps ahead without an UnexpectedLines{L..X} record (match=%s, credits=%s)" % (s["match"], sorted(cred)))
            s.update({"Lwr": True, "prog": True, "Linb": U, "nextm": U})
        elif kind == "E_inc":
            ok = bool({"matched_single", "matched_range", "unmatchedE"} & cred) or s["opt"] == T
            if s["run"] == "open" or (tail and s["run"] == "open"):
                ok = ok and "matched_range" in cred
            self.need("R1.2", "E+1@%s" % self._site(bb), ok, where,
                      "the expectation cursor advances only past an expectation that was recorded (matched / unmatched) or is optional; an open run is recorded first",
                      "the expectation cursor advances although the expectation was neither recorded nor optional, or its open multiline run was not recorded "
                      "(credits=%s, optional=%s, run=%s): a test can pass on output its expectations do not describe" % (sorted(cred), s["opt"], s["run"]))
            if s["match"] == T and s["multi"] == T and not tail:
                self.need("R3.2", "yield-after-first-line@%s" % self._site(bb), s["opt"] == T or s["rne"] == T, where,
                          "a non-optional multiline expectation yields only after it consumed at least one line",
                          "a multiline expectation not known to be optional can yield its *first* line to the next expectation (run-non-empty=%s): a `+` expectation ends "
                          "up with zero lines and the rest of its lines are reported as unexpected" % s["rne"])
                self.need("R3.2", "yield@%s" % self._site(bb), s["nextm"] == T, where, "a matching multiline expectation yields only when the next expectation matches the current line",
                          "a multiline expectation that still matches is abandoned although the next expectation does not match the current line (next-matches=%s)" % s["nextm"])
            s.update({"Ewr": True, "prog": True, "Einb": U, "opt": U, "multi": U, "nextm": U})
        elif kind == "E_jump":
            ok = "ranged_jump" in cred and s["match"] == F
            self.need("R1.3", "E=X@%s" % self._site(bb), ok, where, "the expectation cursor jumps only after every skipped non-optional expectation E..X was recorded as unmatched",
                      "the expectation cursor jumps ahead without the `for i in E..X if !optional: Unmatched{i}` records (credits=%s)" % sorted(cred))
            s.update({"Ewr": True, "prog": True, "Einb": U, "opt": U, "multi": U, "nextm": U})
        elif kind in ("E_other", "L_other"):
            self.need("R2.2", "cursor-write@%s" % self._site(bb), False, where, "", "a cursor is assigned a value that is neither cursor+1 nor a peek result (%s): monotone progress cannot be established" % (ev[2],))
            self.need("R3.1", "cursor-lands-on-peek@%s" % self._site(bb), False, where, "",
                      "a cursor is moved to %s instead of the position the look-ahead found (or the next one): the expectation / line that was found to match is passed "
                      "over, its remaining lines are reported as unexpected although the expectations describe the output" % (ev[2],))
            s.update({"Ewr": True, "Lwr": True, "Einb": U, "Linb": U})
        elif kind == "M_open":
            ok = ev[2] == "L" and s["match"] == T and s["multi"] == T and s["run"] == "closed"
            self.need("R1.1", "M=Some@%s" % self._site(bb), ok, where, "a multiline run is opened at the current line, only when it matched a multiline expectation and no run is open",
                      "a run is opened with start=%s under match=%s multiline=%s run=%s" % (ev[2], s["match"], s["multi"], s["run"]))
            s["run"] = "open"
            s["rne"] = F
        elif kind == "M_close":
            s["run"] = "closed"
            s["rne"] = U
        elif kind == "M_other":
            self.need("R1.1", "M-write@%s" % self._site(bb), False, where, "", "the run marker is assigned an unrecognised value")
            s["run"] = U
        elif kind == "push":
            variant, info = ev[2], ev[3]
            site = self._site(bb)
            if variant == "MatchedExpectation":
                lp = info.get("lines", ("other", "?"))
                self.need("R2.1", "matched-index@%s" % site, info.get("index") == "E" and info.get("expectation") == "cur", where,
                          "a Matched record names the current expectation (index E, EXPS[E])", "a Matched record carries index=%s expectation=%s" % (info.get("index"), info.get("expectation")))
                if lp[0] == "single":
                    self.need("R2.1", "matched-single-payload@%s" % site, lp[1] == "L" and lp[2], where, "a single-line Matched record carries exactly [(L, LINES[L])]",
                              "a single-line Matched record carries (%s, current-line=%s)" % (lp[1], lp[2]))
                    self.need("R1.4", "matched-single-guard@%s" % site, s["match"] == T and not s["Lwr"] and not s["Ewr"], where,
                              "a single-line Matched record is pushed only when the current pair matched", "single-line Matched pushed with match=%s" % s["match"])
                    cred.add("matched_single")
                elif lp[0] == "range":
                    self.need("R2.1", "matched-range-payload@%s" % site, lp[1] == "M.payload" and lp[2] == "L" and lp[3], where,
                              "a ranged Matched record covers exactly the open run M..L", "a ranged Matched record covers %s..%s (to_output_list=%s)" % (lp[1], lp[2], lp[3]))
                    self.need("R1.4", "matched-range-guard@%s" % site, s["run"] == "open" and not s["Ewr"], where,
                              "a ranged Matched record is pushed only while a multiline run is open", "ranged Matched pushed with run=%s" % s["run"])
                    self.need("R1.4", "matched-range-nonempty@%s" % site, s["rne"] == T or s["opt"] == T, where,
                              "a ranged Matched record covers at least one line (the run was opened in an earlier iteration and the line cursor advanced since), unless the expectation is optional",
                              "a ranged Matched record M..L can be pushed in the very iteration that opened the run (M == L, zero lines) for an expectation not known to be "
                              "optional: a `+` expectation is recorded as matched without any line (run-non-empty=%s, optional=%s)" % (s["rne"], s["opt"]))
                    cred.add("matched_range")
                else:
                    self.need("R2.1", "matched-payload@%s" % site, False, where, "", "unrecognised `lines` payload of a Matched record: %s" % (lp[1],))
            elif variant == "UnmatchedExpectation":
                self.need("R2.1", "unmatched-index@%s" % site, info.get("index") == "E" and info.get("expectation") == "cur" and not s["Ewr"], where,
                          "an Unmatched record names the current expectation", "an Unmatched record carries index=%s expectation=%s" % (info.get("index"), info.get("expectation")))
                self.need("R3.1", "unmatched-guard@%s" % site, s["opt"] == F and (s["match"] == F or tail), where,
                          "Unmatched{E} is pushed only for a non-optional expectation whose current pair did not match",
                          "Unmatched{E} is pushed with optional=%s match=%s: a failure is reported without a failing guard" % (s["opt"], s["match"]))
                cred.add("unmatchedE")
            elif variant == "UnexpectedLines":
                lp = info.get("lines", ("other", "?"))
                if lp[0] == "range" and lp[1] == "L" and lp[2] == "peek.NextLine" and lp[3]:
                    cred.add("unexpected_jump")
                    self.need("R3.1", "unexpected-guard@%s" % site, s["match"] == F and s["peek"] == "NextLine" and not s["Lwr"], where,
                              "UnexpectedLines{L..X} is pushed only in the NextLine arm after the current pair did not match",
                              "UnexpectedLines pushed with match=%s peek=%s" % (s["match"], s["peek"]))
                elif lp[0] == "range" and lp[1] == "L" and lp[2] == "len.LINES" and lp[3]:
                    cred.add("unexpected_tail")
                    self.need("R3.1", "unexpected-tail-guard@%s" % site, tail and s["Linb"] == T, where, "the tail UnexpectedLines{L..len} is pushed after the loop when lines remain",
                              "UnexpectedLines{L..len} pushed with tail=%s L-in-bounds=%s" % (tail, s["Linb"]))
                else:
                    self.need("R2.1", "unexpected-payload@%s" % site, False, where, "", "UnexpectedLines carries %s: not exactly L..X / L..len" % (lp,))
            else:
                self.need("R2.1", "push@%s" % site, False, where, "", "an unrecognised record is pushed onto the result")
        elif kind == "ranged":
            info = ev[2]
            site = self._site(bb)
            good = info["filter_ok"] and info["push_ok"] and info["targets_d"] and info["start"] == "E" and not info.get("early_exit")
            if info.get("early_exit"):
                for rule_ in ("R1.3", "R2.1", "R3.1"):
                    self.need(rule_, "ranged-complete@%s" % site, False, where, "",
                              "the loop over the skipped expectations E..X can be left early (break / return at %s): the expectations behind that point are skipped "
                              "without a record - a required one among them gets no line and no Unmatched entry, the test passes" % info["early_exit"])
            self.need("R1.3", "ranged-shape@%s" % site, good, where,
                      "`for i in E..X if !EXPS[i].optional: push Unmatched{i, EXPS[i]}` (filter keeps exactly the non-optional, the closure pushes onto the result)",
                      "the ranged unmatched idiom is malformed: start=%s filter-ok=%s push-ok=%s pushes-to-result=%s" % (info["start"], info["filter_ok"], info["push_ok"], info["targets_d"]))
            self.need("R3.1", "ranged-filter@%s" % site, info["filter_ok"], where, "skipped *optional* expectations are passed over silently (filter `!optional`)",
                      "the filter of the ranged unmatched idiom is not `!EXPS[i].optional`: optional expectations that were skipped are reported as failures")
            if info["end"] == "peek.NextExpectation":
                self.need("R3.1", "ranged-guard@%s" % site, s["match"] == F and s["peek"] == "NextExpectation" and not s["Ewr"], where,
                          "skipped expectations are reported only in the NextExpectation arm after the current pair did not match", "ranged unmatched with match=%s peek=%s" % (s["match"], s["peek"]))
                if good:
                    cred.add("ranged_jump")
            elif info["end"] == "len.EXPS":
                self.need("R3.1", "ranged-tail-guard@%s" % site, tail and s["Einb"] == T, where, "remaining expectations are reported after the loop when some remain", "tail ranged unmatched with tail=%s E-in-bounds=%s" % (tail, s["Einb"]))
                if good:
                    cred.add("ranged_tail")
            else:
                self.need("R1.3", "ranged-end@%s" % site, False, where, "", "ranged unmatched ends at %s (neither the peek result nor len)" % info["end"])
        elif kind == "index":
            which, idx = ev[2], ev[3]
            site = self._site(bb)
            if which == "EXPS":
                ok = idx == "E" and s["Einb"] == T
                self.need("R2.3", "index-EXPS@%s" % site, ok, where, "EXPS[E] is evaluated only with E < len(EXPS) established on the path",
                          "EXPS[%s] is evaluated with E-in-bounds=%s: index out of bounds panic" % (idx, s["Einb"]))
            else:
                ok = idx == "L" and s["Linb"] == T
                self.need("R2.3", "index-LINES@%s" % site, ok, where, "LINES[L] is evaluated only with L < len(LINES) established on the path",
                          "LINES[%s] is evaluated with L-in-bounds=%s: index out of bounds panic" % (idx, s["Linb"]))
        elif kind == "peek":
            ok = ev[2] == "L" and ev[3] and ev[4] == "E" and s["Einb"] == T and s["Linb"] == T
            self.need("R3.3", "peek-args@%s" % self._site(bb), ok, where, "peek_match is asked about the current line and expectation (L, LINES, E), both in bounds",
                      "peek_match called with (%s, LINES=%s, %s)" % (ev[2], ev[3], ev[4]))
            self.need("R3.1", "peek-only-after-mismatch@%s" % self._site(bb), s["match"] == F and s["run"] == "closed", where,
                      "the look-ahead is consulted only after the current pair did not match and no run is open",
                      "peek_match is consulted with match=%s run=%s" % (s["match"], s["run"]))
        elif kind == "diff_new":
            self.need("R1.5", "result-is-D", ev[2], where, "the Vec handed to Diff::new is the one all records were pushed to", "Diff::new receives a different value than the record list")
            self.need("R1.5", "tail-run", s["run"] != "open" or "matched_range" in cred, where, "a run still open after the loop is recorded before the result is built",
                      "the function can return while a multiline run is open and unrecorded: its lines and expectation vanish from the result")
            self.need("R1.5", "tail-expectations", s["Einb"] == F or (s["Einb"] == T and "ranged_tail" in cred), where,
                      "after the loop every remaining non-optional expectation is reported (or none remain)",
                      "the result is built with E-in-bounds=%s and credits=%s: remaining expectations are not reported as unmatched" % (s["Einb"], sorted(cred)))
            self.need("R1.5", "tail-lines", s["Linb"] == F or (s["Linb"] == T and "unexpected_tail" in cred), where,
                      "after the loop every remaining output line is reported as unexpected (or none remain)",
                      "the result is built with L-in-bounds=%s and credits=%s: remaining output lines are not reported" % (s["Linb"], sorted(cred)))
        elif kind == "D_other":
            self.need("R2.1", "D-other@%s" % self._site(bb), False, where, "", "the result list is modified through %s (neither push nor the ranged idiom)" % ev[2])
        # on a matching pair nothing but Matched may be recorded in that iteration
        if kind in ("push", "ranged") and not tail:
            nonmatched = kind == "ranged" or ev[2] != "MatchedExpectation"
            if nonmatched:
                self.need("R3.1", "no-failure-on-match@%s" % self._site(bb), s["match"] != T, where, "no failure record is produced in an iteration whose pair matched",
                          "a failure record is pushed although the current line matched the current expectation")
        s["cred"] = frozenset(cred)
        return s

    def _site(self, bb):
        """line-number-free site label: ordinal of the block among blocks with events of its kind"""
        if not hasattr(self, "_ord"):
            self._ord = {}
            n = 0
            for b in range(len(self.f.blocks)):
                if self.f.blocks[b]["cleanup"]:
                    continue
                if self.events(b):
                    self._ord[b] = n
                    n += 1
        return "s%d" % self._ord.get(bb, -1)


_cache = {}


def analyse(prog):
    k = id(prog)
    if k not in _cache:
        _cache[k] = Model(prog).run()
    return _cache[k]
