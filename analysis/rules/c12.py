"""C12 — shell state carries from one test case to the next: Rust-side wiring of the state carrier
and order/presence tables of the bash template. What bash *does* with the template is NOT decided."""
import os
import re
import shlex

from ..cfgq import bool_edges, cond_tree, const_str_of, stmt_loc, switches
from ..facts import AnchorError, ConstVal, Origins, callee_name, method_name, mname, peel
from .c13 import replace_chain

INTERNAL = {"__SCRUT_DECLARE_VARS_CMD", "__SCRUT_EXIT_CODE", "__SCRUT_TEMP_STATE_PATH", "SCRUT_TEST"}


def template(prog):
    t = prog.const("BASH_TEMPLATE", crate="scrut-lib").as_str()
    if not t:
        raise AnchorError("BASH_TEMPLATE constant is not a decodable string")
    return t


def r12_1(ctx):
    prog = ctx.prog
    f = prog.impl_fn("StatefulExecutor", "Executor", "execute_all")
    o = Origins(f)
    heads = [bb for bb, t in f.calls() if mname(t) == "Iterator::next" and "Enumerate<" in (t.get("self_ty") or "")]
    if len(heads) != 1:
        raise AnchorError("execute_all: test case loop not found")
    head = heads[0]
    gens = [(bb, t) for bb, t in f.calls() if "callee" not in t or mname(t) in ("Fn::call", "FnMut::call_mut", "FnOnce::call_once")]
    # the runner generator call: a dyn Fn call whose argument is a &Path
    sites = []
    for bb, t in f.calls():
        m = mname(t)
        if m in ("Fn::call", "FnMut::call_mut", "FnOnce::call_once") and "Runner" in f.lty(t["dest"]["l"]):
            sites.append((bb, t))
    if len(sites) != 1:
        raise AnchorError("execute_all: expected one runner generator call, found %d" % len(sites))
    bb, t = sites[0]
    arg = o.operand(t["args"][1])
    made = [n for n in arg.walk() if n.kind == "call" and method_name(n.a) in ("TempDir::with_prefix_in", "TempDir::new_in", "TempDir::with_prefix", "TempDir::new")]
    ctx.check(arg.has_call("TempDir::path") and len(made) == 1, "state-dir-is-tempdir", f.loc(bb), "every runner receives the path of one TempDir",
              "the runner generator receives %s" % arg.show()[:120])
    if made:
        mb = made[0].at[0]
        ctx.check(f.dominates(mb, head) and mb not in f.reachable(f.blocks[head]["term"]["target"], removed_edges=[]) or (f.dominates(mb, head) and not f.dominates(head, mb)),
                  "state-dir-before-loop", f.loc(mb), "the state directory is created once, before the test case loop (all test cases share it)",
                  "the state directory is created inside the test case loop: every test case starts from an empty state")
        inside = any(n.kind == "field" and n.a == "temp_directory" for n in made[0].walk())
        ctx.check(inside, "state-dir-location", f.loc(mb), "it lives inside the document's temp directory (cleaned up with it)")
        ctx.check(f.dominates(head, bb), "runner-per-testcase", f.loc(bb), "one runner is generated per test case, inside the loop")
    # generator closure: state_directory flows into BashRunner.state_directory
    g = prog.fn("BashRunner::stateful_generator")
    for cb in prog.closures_of(g):
        oc = Origins(cb)
        from ..cfgq import aggregates
        n_agg = 0
        for ab, si, rv in aggregates(cb, "BashRunner", "BashRunner"):
            n_agg += 1
            src = peel(oc.operand(rv["ops"][rv["fields"].index("state_directory")]))
            ctx.check(src.kind == "arg" and src.a == 2, "generator-wires-state-dir", stmt_loc(cb, ab, si), "the generated BashRunner uses the directory it was given",
                      "BashRunner.state_directory is %s" % src.show()[:80])
        if not n_agg:
            # built through the constructor: BashRunner::new(shell, state_directory) with `new` storing its second parameter
            for cbb, ct in cb.calls():
                if (callee_name(ct) or "").endswith("BashRunner::new"):
                    nw = prog.fn("BashRunner::new")
                    onw = Origins(nw)
                    stores = [peel(onw.operand(rv2["ops"][rv2["fields"].index("state_directory")])) for _a, _s, rv2 in aggregates(nw, "BashRunner", "BashRunner")]
                    param = stores[0].a if len(stores) == 1 and stores[0].kind == "arg" else None
                    src = peel(oc.operand(ct["args"][param - 1])) if param else None
                    ctx.check(src is not None and src.kind == "arg" and src.a == 2, "generator-wires-state-dir", cb.loc(cbb),
                              "the generated BashRunner is constructed with the directory the generator was given (BashRunner::new stores parameter %s)" % param,
                              "BashRunner::new receives %s as state directory" % (src.show()[:80] if src is not None else "?"))


def r12_2(ctx):
    prog = ctx.prog
    f = prog.impl_fn("BashRunner", "Runner", "run")
    o = Origins(f)
    chain = replace_chain(f, o)
    by_pat = {c[3]: c for c in chain}
    # persist_state
    c = by_pat.get("{persist_state}")
    if c is None:
        raise AnchorError("BashRunner::run does not substitute {persist_state}")
    val = c[4]
    alts = peel(val)
    alts = alts.kids if alts.kind == "phi" else [alts]
    lits = sorted(const_str_of(prog, f, a) or "?" for a in alts)
    ctx.check(lits == ["0", "1"], "persist-literals", f.loc(c[1]), "{persist_state} is replaced by \"0\" or \"1\"", "{persist_state} is replaced by %s" % lits)
    # which edge gives "0": the detached edge
    sel = None
    for sb, st in switches(f):
        be = bool_edges(f, sb)
        if be is None:
            continue
        tree = peel(cond_tree(f, sb, o))
        if tree.kind == "call" and method_name(tree.a) in ("Option::unwrap_or", "Option::unwrap_or_default") and any(n.kind == "field" and n.a == "detached" for n in tree.walk()):
            dflt_false = len(tree.kids) < 2 or (tree.kids[1].kind == "const" and tree.kids[1].a.as_bool() is False)
            sel = (sb, be, dflt_false)
    if sel is None:
        # match form: `match testcase.config.detached { Some(true) => "0", _ => "1" }`: the bool payload of the Some variant is switched on
        inner = None
        for sb, st in switches(f):
            be = bool_edges(f, sb)
            pl = st["discr"].get("copy") or st["discr"].get("move")
            if be is None or pl is None:
                continue
            cp = f.canon_place(pl)
            names = [p_.get("n") for p_ in cp["p"] if isinstance(p_, dict) and "n" in p_]
            if "detached" in names and any(isinstance(p_, dict) and p_.get("dc") == "Some" for p_ in cp["p"]):
                inner = (sb, be)
        if inner is None:
            ctx.bad("persist-guard", f.where(), "no branch on testcase.config.detached (unwrap_or(false) / Some(true) arm) selects the persist flag")
        else:
            sb, (tt, tf) = inner
            lit_blocks = {}
            for bi, blk in enumerate(f.blocks):
                for st in blk["stmts"]:
                    if st["k"] == "assign" and st["rv"]["k"] == "use" and "const" in st["rv"]["op"]:
                        sv = const_str_of(prog, f, peel(o.rvalue(st["rv"])))
                        if sv in ("0", "1"):
                            lit_blocks.setdefault(sv, []).append(bi)
            via_t = set(f.reachable(tt))
            without_t = set(f.reachable(0, removed_edges=[(sb, tt)]))
            zero, one = lit_blocks.get("0", []), lit_blocks.get("1", [])
            good = len(zero) == 1 and zero[0] in via_t and zero[0] not in without_t and bool(one) and all(b_ in without_t for b_ in one) and \
                not any(b_ in via_t and b_ not in without_t for b_ in one)
            ctx.check(good, "persist-guard", f.loc(sb),
                      "a detached test case (detached == Some(true)) gets persist_state=0 (leaves no state behind), every other one 1",
                      "persist_state literals: \"0\" in blocks %s, \"1\" in blocks %s - not split by the Some(true) arm" % (zero, one))
    else:
        sb, (tt, tf), dflt_false = sel

        def lit_on(edge):
            for st in f.blocks[edge]["stmts"]:
                if st["k"] == "assign":
                    n = peel(o.rvalue(st["rv"]))
                    s = const_str_of(prog, f, n)
                    if s is not None:
                        return s
            return None
        ctx.check(dflt_false and lit_on(tt) == "0" and lit_on(tf) == "1", "persist-guard", f.loc(sb),
                  "a detached test case gets persist_state=0 (leaves no state behind), every other one 1",
                  "persist_state is %r for detached and %r otherwise (default detached=%s)" % (lit_on(tt), lit_on(tf), "false" if dflt_false else "?"))
    c = by_pat.get("{excluded_variables}")
    if c is None:
        ctx.bad("excluded-subst", f.where(), "BashRunner::run does not substitute {excluded_variables}")
    else:
        v = peel(c[4])
        sep = const_str_of(prog, f, v.kids[1]) if v.kind == "call" and len(v.kids) > 1 else None
        tb = peel(v.kids[0]) if v.kind == "call" else None
        table = tb.a.str_table() if tb is not None and tb.kind == "const" else None
        want = prog.const("BASH_EXCLUDED_VARIABLES").str_table()
        ctx.check(v.kind == "call" and method_name(v.a).endswith("join") and sep == "|" and table is not None and table == want, "excluded-subst", f.loc(c[1]),
                  "{excluded_variables} = BASH_EXCLUDED_VARIABLES.join(\"|\") (%d names)" % len(want or []),
                  "{excluded_variables} is replaced by %s" % c[4].show()[:120])
    c = by_pat.get("{state_directory}")
    ctx.check(c is not None and any(n.kind == "field" and n.a == "state_directory" for n in c[4].walk()), "state-dir-subst", f.where(),
              "{state_directory} is replaced by self.state_directory")
    if c is not None:
        from ..facts import chain_to
        ch = chain_to(c[4], lambda n: n.kind == "field" and n.a == "state_directory") or []
        ch = [x for x in ch if x not in ("Deref::deref", "Path::to_string_lossy", "PathBuf::as_path", "AsRef::as_ref", "Borrow::borrow")]
        tpl = template(prog)
        quoted = re.search(r'="\{state_directory\}"', tpl) is not None
        ctx.check(not ch and quoted, "state-dir-raw-in-double-quotes", f.loc(c[1]),
                  "the state directory path is inserted unmodified into a double-quoted assignment of the template",
                  "the state directory path passes %s before it is inserted into %s of the template: quoting is applied twice (or not at all), the trap then writes "
                  "its state below a different, stray directory" % (ch, "a double-quoted assignment" if quoted else "an unquoted position"))


def r12_3(ctx):
    prog = ctx.prog
    tpl = template(prog)
    f = prog.impl_fn("BashRunner", "Runner", "run")
    o = Origins(f)
    chain = replace_chain(f, o)
    replaced = sorted(c[3] for c in chain if c[3])
    # strip comments before looking for placeholders
    code = "\n".join(l for l in tpl.splitlines() if not l.lstrip().startswith("#"))
    holes = sorted(set(re.findall(r"\{[a-z_]+\}", code)))
    ctx.check(set(holes) <= set(replaced), "all-placeholders-replaced", f.where(), "every placeholder of the template is substituted: %s" % holes,
              "template placeholders %s are never substituted" % sorted(set(holes) - set(replaced)))
    unused = sorted(set(replaced) - set(re.findall(r"\{[a-z_]+\}", tpl)))
    ctx.ok("dead-substitutions", f.where(), "substitutions without a placeholder in the template (harmless, listed): %s" % unused, obligation=False)
    # the template on disk is the one compiled in
    p = os.path.join(ctx.repo, "src/executors/bash_runner.template")
    ctx.check(os.path.exists(p) and open(p, encoding="utf-8").read() == tpl, "template-file", "src/executors/bash_runner.template",
              "the analysed template is the constant compiled into the binary (include_str!)")


def _statements(tpl):
    """top-level statements (outside the function body) and the body of the persist function"""
    lines = tpl.splitlines()
    top, fn_body, in_fn, depth = [], [], False, 0
    for raw in lines:
        line = raw.strip()
        if not line or line.startswith("#"):
            continue
        if re.match(r"^function\s+__scrut_persist_state\s*\{", line) or re.match(r"^__scrut_persist_state\s*\(\)\s*\{", line):
            in_fn = True
            continue
        if in_fn:
            if raw.startswith("}"):
                in_fn = False
                continue
            fn_body.append(line)
        else:
            top.append(line)
    return top, fn_body


TRAP_ARMING = r"""trap\s+(--\s+)?['\"]?__scrut_persist_state['\"]?\s+EXIT\b"""   # bare, quoted or after `--`: the same argument vector


def r12_4(ctx):
    tpl = template(ctx.prog)
    top, body = _statements(tpl)
    where = "src/executors/bash_runner.template"

    def idx(pred):
        for i, l in enumerate(top):
            if pred(l):
                return i
        return None
    i_src = idx(lambda l: re.search(r"\bsource\s+\"\$__SCRUT_TEMP_STATE_PATH/state\"", l))
    i_trap = idx(lambda l: re.search(r"\b%s" % TRAP_ARMING, l))
    i_expr = idx(lambda l: l == "{shell_expression}")
    i_path = idx(lambda l: l.startswith("__SCRUT_TEMP_STATE_PATH="))
    ctx.check(None not in (i_src, i_trap, i_expr, i_path) and i_path < i_src < i_trap < i_expr and i_expr == len(top) - 1, "template-order", where,
              "state path set, previous state sourced, EXIT trap installed, then the user's expression as the last statement",
              "template statement order is path=%s source=%s trap=%s expression=%s of %d" % (i_path, i_src, i_trap, i_expr, len(top)))
    if i_trap is not None:
        # `[ {persist_state} -eq 1 ] && trap ..` or the same test as the condition of an enclosing `if`
        inline = re.match(r"^\[\[? \{persist_state\} (-eq|==|=) 1 \]\]? && trap ", top[i_trap]) is not None
        gs = []
        enclosing = None
        for i_, l in enumerate(top):
            if re.match(r"^if\b", l):
                gs.append(l)
            if i_ == i_trap:
                enclosing = list(gs)
            if re.match(r"^fi\b", l) and gs:
                gs.pop()
        in_if = bool(enclosing) and any(re.match(r"^if \[\[? \{persist_state\} (-eq|==|=) 1 \]\]?\s*;?\s*(then)?$", g) for g in enclosing) and \
            re.match(r"^%s" % TRAP_ARMING, top[i_trap]) is not None
        ctx.check(inline or in_if, "trap-conditional", where, "the trap is installed exactly when {persist_state} is 1",
                  "the EXIT trap statement `%s` is not guarded by `{persist_state} -eq 1`" % top[i_trap])
    # loading the previous state must not depend on {persist_state}: a detached test case (persist_state=0) leaves nothing behind, but it
    # still has to *see* what its predecessors left
    guards, src_guards = [], None
    for l in top:
        if re.match(r"^(if|while|until)\b", l):
            guards.append(l)
        if re.search(r"\bsource\s+\"\$__SCRUT_TEMP_STATE_PATH/state\"", l) or re.search(r"(^|\s)\.\s+\"\$__SCRUT_TEMP_STATE_PATH/state\"", l):
            src_guards = list(guards) + [l]
        if re.match(r"^(fi|done)\b", l) and guards:
            guards.pop()
    ctx.check(src_guards is not None and not any("{persist_state}" in g for g in src_guards), "source-unconditional", where,
              "the persisted state is sourced whether or not this test case persists its own state (detached test cases see their predecessors' state)",
              "the `source state` statement is guarded by {persist_state} (%s): a detached test case starts from a blank shell instead of the state "
              "the previous test cases left behind" % (src_guards,))
    m0 = re.match(r"^(?:local\s+)?([A-Za-z_][A-Za-z_0-9]*)=\$\?$", body[0]) if body else None
    ctx.check(m0 is not None and re.match(r"^exit\s+\"?\$\{?%s\}?\"?$" % re.escape(m0.group(1)), body[-1]) is not None, "trap-preserves-exit-code", where,
              "the trap function first saves $? and finally exits with it (the command's exit code is preserved)",
              "the trap function does not start with `<name>=$?` / end with `exit $<name>`")
    joined = "\n".join(body)
    m = re.search(r"\(\n(.*)\n\)\s*(>\|?)\s*\"\$__SCRUT_TEMP_STATE_PATH/state\"", joined, re.S)
    ctx.check(m is not None, "dump-target", where, "the dump group is redirected to the very file that is sourced ($__SCRUT_TEMP_STATE_PATH/state)")
    group = m.group(1) if m else ""
    # F34: the state file exists from the second test case on - with `set -C` (noclobber) restored from the state a plain `>` fails and the dump is lost
    ctx.check(m is not None and m.group(2) == ">|", "dump-overwrites", where, "the dump is written with `>|` (also when the test cases have set noclobber)",
              "the dump is written with `>`: once a test case has run `set -C`, every later dump fails with `cannot overwrite existing file` - the state of those test "
              "cases is silently lost and their successors keep seeing the state of the one that set the option")
    need = {
        "set-options": r"(?m)^set \+o$",
        "shopt-options": r"(?m)^shopt -p$",
        "aliases": r"(?m)^alias( -p)?$",
        "functions": r"(?m)^(declare|typeset) -f$",
        "variables": r"eval \"\$__SCRUT_DECLARE_VARS_CMD\"",
        "cwd": r"printf \"(builtin )?cd %q",
        "dirstack": r"printf \"(builtin )?pushd %q",
    }
    for k, pat in need.items():
        ctx.check(re.search(pat, group) is not None, "dump:" + k, where, "the state dump contains the `%s` printer" % k, "the state dump no longer prints %s" % k)
    # order inside the dump: `source state` parses the file command by command, so options that change *parsing*
    # (shopt extglob, set -o posix, ...) must be restored before function bodies and variable assignments are read
    def pos(pat):
        mm = re.search(pat, group)
        return mm.start() if mm else None
    p_opts = [pos(need["set-options"]), pos(need["shopt-options"])]
    p_later = [pos(need["functions"]), pos(need["variables"])]
    ctx.check(None not in p_opts + p_later and max(p_opts) < min(p_later), "dump:options-first", where,
              "`set +o` / `shopt -p` are dumped before functions and variables (parser-affecting options are active again when the rest of the state is sourced)",
              "the option dumps come after the function / variable dumps: a function using extglob patterns no longer parses when the state is sourced, and everything after it is lost")
    ctx.check("{excluded_variables}" in group, "dump:exclusion-filter", where, "the variable dump is filtered by {excluded_variables}")
    # F38: functions and aliases are restored before the directory lines are run - a plain `cd` / `pushd` there calls a user function of that name
    plain = re.findall(r"printf \"(cd|pushd) %q", group)
    ctx.check(not plain, "dump:dir-builtin", where, "the directory lines of the state are `builtin cd` / `builtin pushd`",
              "the state restores directories with plain %s: after a test case defined a function or alias of that name, sourcing the state runs it - its output "
              "appears in the next test case" % sorted(set(plain)))
    # F39: those lines overwrite the OLDPWD that was restored with the variables; it is set again behind them
    p_old = pos(r"printf \"OLDPWD=%q")
    p_dirs = [pos(need["cwd"]), pos(need["dirstack"])]
    ctx.check(p_old is not None and None not in p_dirs and p_old > max(p_dirs), "dump:oldpwd-last", where, "OLDPWD is written after the cd / pushd lines",
              "the state does not set OLDPWD after its cd / pushd lines: `cd -` in the next test case goes to the wrong directory")
    ctx.check(re.search(r"(?m)^shopt -s expand_aliases$", "\n".join(top)) is not None, "expand-aliases", where, "aliases are expanded in the non-interactive shell")
    ctx.check("unset -f __scrut_persist_state" in joined, "trap-not-persisted", where, "the trap function removes itself before dumping functions")


def _segments(text):
    """quote-aware split of shell text into simple-command segments (unquoted ; & | ( ) { } and newlines separate)"""
    out, cur, q, i = [], [], None, 0
    while i < len(text):
        c = text[i]
        if q:
            cur.append(c)
            if c == "\\" and q == '"' and i + 1 < len(text):
                cur.append(text[i + 1])
                i += 1
            elif c == q:
                q = None
        elif c in "'\"":
            q = c
            cur.append(c)
        elif c == "\\" and i + 1 < len(text):
            cur.append(c + text[i + 1])
            i += 1
        elif c == "#" and (not cur or cur[-1] in " \t"):
            while i < len(text) and text[i] != "\n":
                i += 1
            continue
        elif c in ";&|(){}\n":
            out.append("".join(cur))
            cur = []
        else:
            cur.append(c)
        i += 1
    out.append("".join(cur))
    res = []
    for seg in out:
        seg = seg.strip()
        while True:
            m = re.match(r"^(then|do|else|elif|if|while|until|time|!)\s+(.*)$", seg, re.S)
            if not m:
                break
            seg = m.group(2).strip()
        if seg:
            res.append(seg)
    return res


ASSIGN = re.compile(r"^([A-Za-z_][A-Za-z_0-9]*)(\[[^\]]*\])?\+?=")
DECL = re.compile(r"^(local|declare|typeset|export|readonly)\b((?:\s+-[A-Za-z]+)*)\s+(.*)$", re.S)


def template_assigned_names(tpl):
    """names that scrut's own template statements assign, declare, read into or loop over (the user's expression is a placeholder)"""
    names = {}
    for seg in _segments(tpl.replace("{shell_expression}", ":")):
        m = ASSIGN.match(seg)
        if m:
            names.setdefault(m.group(1), seg)
            continue
        m = DECL.match(seg)
        if m and not re.search(r"-[A-Za-z]*[pfF]", m.group(2) or ""):
            for w in re.findall(r"(?:^|\s)([A-Za-z_][A-Za-z_0-9]*)(?==|\s|$)", m.group(3)):
                names.setdefault(w, seg)
            continue
        m = re.match(r"^for\s+([A-Za-z_][A-Za-z_0-9]*)\s+in\b", seg) or re.match(r"^(?:read|mapfile|readarray)\b(?:\s+-\w+(?:\s+[^-\s]\S*)?)*\s+([A-Za-z_][A-Za-z_0-9]*)\s*$", seg)
        if m:
            names.setdefault(m.group(1), seg)
    return names


def r12_6(ctx):
    """whatever the template itself assigns or declares is visible to the `declare -p` dump that runs inside the trap function
    (a `local` shadows the user's variable of that name, a global assignment overwrites it): such names must be scrut-internal
    and excluded from the dump"""
    tpl = template(ctx.prog)
    where = "src/executors/bash_runner.template"
    table = ctx.prog.const("BASH_EXCLUDED_VARIABLES").str_table() or []
    names = template_assigned_names(tpl)
    ctx.check(len(names) >= 3, "assigned-names", where, "names assigned by scrut's own template statements: %s" % sorted(names), "only %d assigned names recognised" % len(names))
    for n, seg in sorted(names.items()):
        ctx.check(n in table and n.startswith("__SCRUT"), "template-name:" + n, where,
                  "`%s` is scrut-internal (prefix __SCRUT) and excluded from the persisted variables" % n,
                  "the template statement `%s` declares or assigns `%s`, which is not an excluded scrut-internal name: the variable dump runs in the same scope, so the "
                  "user's `%s` from the test case is persisted with scrut's value (a `local` shadows it) and later test cases no longer see what a single "
                  "session would" % (seg[:60], n, n))


def r12_5(ctx):
    prog = ctx.prog
    table = prog.const("BASH_EXCLUDED_VARIABLES").str_table()
    if table is None:
        raise AnchorError("BASH_EXCLUDED_VARIABLES is not a decodable &[&str]")
    p = os.path.join(ctx.repo, "src/executors/bash_runner.excluded_variables.md")
    excl, incl = [], []
    for line in open(p, encoding="utf-8"):
        m = re.match(r"^\|\s*`([A-Za-z_0-9]+)`\s*\|\s*(\*\*EXCL\*\*|INCL)\s*\|", line)
        if m:
            (excl if "EXCL" in m.group(2) else incl).append(m.group(1))
    ctx.check(len(excl) >= 15, "doc-rows", p, "%d EXCL / %d INCL rows parsed from the rustdoc table" % (len(excl), len(incl)))
    ctx.check(sorted(set(table) - INTERNAL) == sorted(excl), "exclusion-table", "src/executors/bash_runner.rs",
              "BASH_EXCLUDED_VARIABLES == the EXCL rows of its documentation + scrut's internal names",
              "exclusion list differs from its documentation: only in code %s, only in doc %s" % (sorted(set(table) - INTERNAL - set(excl)), sorted(set(excl) - set(table))))
    ctx.check(INTERNAL <= set(table), "internal-excluded", "src/executors/bash_runner.rs", "scrut's own variables %s are never persisted" % sorted(INTERNAL))
    ctx.check(not (set(table) & set(incl)), "no-included-excluded", "src/executors/bash_runner.rs", "no variable documented as INCL is excluded",
              "variables documented as included are excluded: %s" % sorted(set(table) & set(incl)))
    ctx.check(all(re.match(r"^[A-Za-z_][A-Za-z_0-9]*$", x) for x in table), "names-are-plain", "src/executors/bash_runner.rs",
              "all names are plain identifiers (safe inside the `(a|b|..)` alternation of the grep filter)")


KEEP_LINES = [
    # `declare -p` lines of variables that are neither read-only nor excluded: every one must survive all dump filters
    'declare -- GREETING="hello dear world"', 'declare -x OWNER="user name"', 'declare -a WORDS=([0]="bar baz" [1]="qux")',
    'declare -A MAP=([key]="r r " [other]="x")', 'declare -- QUOTED="declare -r X=1"', 'declare -i NUM="5"', 'declare -- TR="r "',
    'declare -x PATHLIKE="/usr/r /bin:-r x"', 'declare -- EQ="a=b r c=d"', 'declare -l lower="r"', 'declare -- r="1"', 'declare -x rr="r r"',
    'declare -- EMPTY=""', 'declare -- UNSET', "declare -- NL=$'a\\nr b'", 'declare -ax EXPARR=([0]="r ")', 'declare -- UML="gr\u00fc\u00dfe r "',
]
READONLY_LINES = ['declare -r RO="1"', 'declare -xr ROX="1"', 'declare -ar ROA=([0]="1")', 'declare -ir ROI="1"']


def _unquote_dq(text):
    """what bash hands on for a double-quoted word (\\$ \\" \\\\ \\` unescaped)"""
    return re.sub(r"\\([$\"\\`])", r"\1", text)


def r12_7(ctx):
    """the variable dump is filtered by `grep -Ev` expressions: each must decide on the *head* of a `declare -p` line (`declare -<flags> <name>`) only.
    (a) structure: anchored at `^declare -`, and no unbounded wildcard (`.*`, `.+`) before the first blank - such a pattern runs on into the name and the value;
    (b) table: representative lines of ordinary variables (values with blanks, `r `, `=`, quotes, arrays) survive all filters, read-only and excluded ones are dropped"""
    prog = ctx.prog
    tpl = template(prog)
    where = "src/executors/bash_runner.template"
    table = prog.const("BASH_EXCLUDED_VARIABLES").str_table() or []
    segs = _segments(tpl.replace("{shell_expression}", ":"))
    filters = []
    for x in segs:
        x = x.replace("\\\n", " ").strip()
        m = re.match(r"^grep\s+-(E?v|vE)\s+\"(.*)\"\s*$", x, re.S)
        if m and "declare" in m.group(2):
            filters.append(_unquote_dq(m.group(2)))
    if len(filters) < 2:
        raise AnchorError("bash runner template: expected the read-only filter and the exclusion filter of the variable dump, found %d `grep -Ev` segment(s)" % len(filters))
    compiled = []
    for i, f in enumerate(filters):
        head = f.split(" ", 2)
        flagpart = f[len("^declare -"):].split(" ")[0] if f.startswith("^declare -") else None
        ok = flagpart is not None and not re.search(r"\.(\*|\+|\{\d*,\})", flagpart)
        ctx.check(ok, "filter-head-anchored#%d" % i, where, "`grep -Ev \"%s\"` is anchored at `^declare -` and its flag part cannot run past the attribute block" % f,
                  "`grep -Ev \"%s\"` %s: the pattern matches inside variable names and values, so ordinary variables whose value happens to contain the rest of "
                  "the pattern (e.g. `GREETING=\"hello dear world\"` for `.*r `) are missing in the next test case" % (
                      f, "is not anchored at `^declare -`" if flagpart is None else "has an unbounded wildcard in its flag part"))
        try:
            compiled.append(re.compile(f.replace("{excluded_variables}", "|".join(re.escape(t_) for t_ in table) or "__NONE__")))
        except re.error as e:
            ctx.bad("filter-regex#%d" % i, where, "`%s` is not a regular expression this analysis can evaluate (%s)" % (f, e))
    if len(compiled) != len(filters):
        return
    lost = [l for l in KEEP_LINES if any(c.search(l) for c in compiled)]
    ctx.check(not lost, "filter-table:keep", where, "%d representative `declare -p` lines of ordinary variables pass all %d filters" % (len(KEEP_LINES), len(compiled)),
              "the dump filters drop ordinary variables: %s - these are unset in the following test case" % lost[:4])
    kept = [l for l in READONLY_LINES if not any(c.search(l) for c in compiled)]
    ctx.check(not kept, "filter-table:readonly", where, "read-only variables (-r, -xr, -ar, -ir) are not dumped (re-importing them would fail)",
              "read-only variables are dumped: %s - sourcing the state fails on them" % kept)
    exkept = [t_ for t_ in table if not any(c.search('declare -x %s="v"' % t_) for c in compiled)]
    ctx.check(not exkept, "filter-table:excluded", where, "all %d excluded variables are dropped from the dump" % len(table), "excluded variables are dumped: %s" % exkept[:5])


def r12_8(ctx):
    """the state is persisted by an EXIT trap that is armed *before* the test's own shell expression runs in the same shell: a `trap .. EXIT` of the test
    replaces it, and nothing of that test case is persisted. The template would have to shield the handler (e.g. a `trap` wrapper function that chains
    the user's EXIT handler, defined after the state was sourced) or persist outside the user's reach"""
    prog = ctx.prog
    tpl = template(prog)
    where = "src/executors/bash_runner.template"
    segs = _segments(tpl.replace("{shell_expression}", ":"))
    shield = [x for x in segs if re.match(r"^(function\s+trap\b|trap\s*\(\))", x) or re.match(r"^(readonly|declare\s+-r)\s+-f\b.*__scrut_persist_state", x)]
    top = [l.strip() for l in tpl.splitlines() if l.strip() and not l.strip().startswith("#")]
    arm = [i for i, l in enumerate(top) if re.search(TRAP_ARMING, l)]
    expr = [i for i, l in enumerate(top) if "{shell_expression}" in l]
    same_shell = bool(arm) and bool(expr) and arm[-1] < expr[-1] and not re.search(r"[(]\s*\{shell_expression\}|bash\s+-c", tpl)
    ctx.check(bool(shield) or not same_shell, "exit-trap-shielded", where, "the persist handler cannot be displaced by the test's own `trap .. EXIT`",
              "the EXIT handler is armed before `{shell_expression}` runs in the same shell and nothing shields it: a test case that sets its own EXIT trap "
              "(`trap 'rm -f $tmp' EXIT; A=1`) replaces __scrut_persist_state - its variables, functions, options and directory are not persisted")


def run(ctx):
    ctx.run_rule("R12.1", "one state directory (a TempDir in the document's temp dir) created before the loop and handed to every per-test-case runner [E-FLOW]", r12_1, floor=5)
    ctx.run_rule("R12.2", "BashRunner::run: persist_state 0 exactly for detached test cases; excluded_variables = BASH_EXCLUDED_VARIABLES.join(|); state_directory wired [E-FLOW, E-PATH]", r12_2, floor=4)
    ctx.run_rule("R12.3", "placeholder table: template placeholders == substitutions; the analysed template is the compiled constant [E-TABLE]", r12_3, floor=3)
    ctx.run_rule("R12.6", "every name the template itself assigns/declares (incl. `local` in the trap function) is an excluded __SCRUT internal: user variables are never shadowed in the dump [template analyzer]", r12_6, floor=4)
    ctx.run_rule("R12.4", "template order/presence: path, source state, conditional EXIT trap, expression last; trap saves/restores $?; dump group prints every state class into the sourced file [template analyzer]", r12_4, floor=14)
    ctx.run_rule("R12.5", "exclusion table == EXCL rows of the rustdoc table + scrut internals [E-TABLE]", r12_5, floor=5)
    ctx.run_rule("R12.7", "dump filters decide on the head of a `declare -p` line only: anchored, no unbounded wildcard in the flag part; representative ordinary variables survive, read-only / excluded ones are dropped [template analyzer, E-TABLE]", r12_7, floor=5)
    ctx.run_rule("R12.8", "the persist handler is shielded from a `trap .. EXIT` of the test itself (known finding F46) [template analyzer]", r12_8, floor=1)
