"""C13 — commands run verbatim; output bytes and exit codes captured exactly (structural clauses)."""
from collections import defaultdict

from ..cfgq import aggregates, bool_edges, cond_tree, promoted_tree, result_variant_blocks, stmt_loc, switches, variant_edges, explore, place_key
from ..facts import AnchorError, Origins, callee_name, method_name, mname, peel, strip_mods, call_name
from ..interp import Inliner

USER_TEXT_FIELDS = {"shell_expression"}

# recursion table: function -> (bound, reason). Suppressions are one named symbol each.
RECURSION_TABLE = {
    "trim_newlines": "depth = number of trailing newline bytes of one line; lines come from split_at_newline, so <= 1 (+1 for CR)",
    "FileParser::read_test_contents": "depth = directory nesting of the test paths given on the command line",
}


def replace_chain(f, o):
    """ordered list of (bb, term, pattern, replacement-tree) for the chain of `str::replace` calls"""
    calls = [(bb, t) for bb, t in f.calls() if method_name(callee_name(t, resolved=False) or "") in ("str::replace", "replace", "str::replacen")]
    by_dest = {}
    for bb, t in calls:
        by_dest[t["dest"]["l"]] = (bb, t)
    # order by dependency: receiver derives from previous result
    order = []
    for bb, t in calls:
        recv = peel(o.operand(t["args"][0]))
        depth = len([n for n in recv.walk() if n.kind == "call" and method_name(n.a) in ("str::replace", "replace", "str::replacen")])
        pat = peel(o.operand(t["args"][1]))
        order.append((depth, bb, t, pat.a.as_str() if pat.kind == "const" else None, o.operand(t["args"][2])))
    order.sort(key=lambda x: x[0])
    return order


def r13_1(ctx):
    f = ctx.prog.impl_fn("BashRunner", "Runner", "run")
    o = Origins(f)
    chain = replace_chain(f, o)
    if len(chain) < 3:
        raise AnchorError("BashRunner::run: expected a chain of template substitutions, found %d" % len(chain))
    depths = [c[0] for c in chain]
    ctx.check(depths == list(range(len(chain))), "chain-linear", f.where(), "the substitutions form one linear chain over BASH_TEMPLATE",
              "template substitutions are not a single chain (depths %s)" % depths)
    user = [i for i, c in enumerate(chain) if any(n.kind == "field" and n.a in USER_TEXT_FIELDS for n in c[4].walk())]
    ctx.check(len(user) == 1, "user-splice-count", f.where(), "the document's shell expression is spliced in exactly once",
              "the shell expression is spliced %d times" % len(user))
    for i in user:
        later = [c[3] for c in chain[i + 1:]]
        ctx.check(not later, "splice-last", f.loc(chain[i][1]),
                  "`%s` is substituted last: user text is never rescanned for placeholders" % chain[i][3],
                  "placeholder(s) %s are substituted *after* the user's shell expression was spliced in, so the same text inside a command "
                  "is rewritten (e.g. `echo \"{persist_state}\"` prints 1)" % later, {"order": [c[3] for c in chain]})
    # the spliced value is the expression itself
    for i in user:
        v = peel(chain[i][4])
        ctx.check(v.kind == "field" and v.a == "shell_expression" and peel(v.kids[0]).kind == "arg", "splice-verbatim", f.loc(chain[i][1]),
                  "the spliced text is testcase.shell_expression unmodified", "the spliced text is %s" % chain[i][4].show()[:120])
    # Cram: compile_script pushes the expression through to_string only
    cs = ctx.prog.fn("compile_script")
    oc = Origins(cs)
    pushes = []
    for bb, t in cs.calls():
        if method_name(callee_name(t, resolved=False) or "") == "Vec::push":
            arg = oc.operand(t["args"][1])
            if any(n.kind == "field" and n.a == "shell_expression" for n in arg.walk()):
                pushes.append((bb, arg))
    ctx.check(len(pushes) == 1, "cram-splice-count", cs.where(), "compile_script pushes each shell expression exactly once", "found %d pushes of shell_expression" % len(pushes))
    for bb, arg in pushes:
        v = peel(arg)
        ctx.check(v.kind == "field" and v.a == "shell_expression", "cram-splice-verbatim", cs.loc(bb), "the Cram script contains the expression unmodified (to_string only)",
                  "the Cram script receives %s" % arg.show()[:120])


def r13_2(ctx):
    prog = ctx.prog
    inl = Inliner(prog, 4)
    ex = prog.impl_fn("BashScriptExecutor", "Executor", "execute_all")
    o = Origins(ex)
    readers = [(bb, t) for bb, t in ex.calls() if (callee_name(t) or "").split("::<")[0].endswith("iterate_divided_output")]
    if len(readers) < 2:
        raise AnchorError("BashScriptExecutor::execute_all: expected two iterate_divided_output calls, found %d" % len(readers))

    def nonce_arg(t):
        for i, a in enumerate(t["args"]):
            r = inl.reduce(ex, o.operand(a))
            p = peel(r)
            cands = p.kids if p.kind == "phi" else [p]
            if cands and all(peel(c).kind == "call" and peel(c).a.endswith("random_string") for c in cands):
                return i
        return None
    idxs = []
    for k_, (bb, t) in enumerate(readers):
        i = nonce_arg(t)
        idxs.append(i)
        ctx.check(i is not None, "reader-gets-nonce#%d" % k_, ex.loc(bb),
                  "iterate_divided_output receives this run's random salt (argument %s)" % i,
                  "the divider reader is not given the random salt compile_script generated: any output line that looks like "
                  "`~~~~~~~~EXECDIVIDER::x::0::0` is taken for a divider (the nonce is write-only)")
    k_ = 0
    for bb, t in ex.calls():
        if (callee_name(t) or "").endswith("remove_dividers_from_output"):
            k_ += 1
            ctx.check(nonce_arg(t) is not None, "remover-gets-nonce#%d" % k_, ex.loc(bb), "remove_dividers_from_output filters by this run's salt",
                      "remove_dividers_from_output is not given the salt: output lines that merely start with the divider prefix are dropped")
    # inside the reader the salt gates divider recognition
    rd = [b for b in prog.bodies if b.promoted is None and b.crate == ex.crate and b.npath.endswith("iterate_divided_output")]
    if len(rd) != 1:
        raise AnchorError("iterate_divided_output not found")
    rd = rd[0]
    if any(i is None for i in idxs):
        return
    k = idxs[0] + 1
    ord_ = Origins(rd)
    parse = [bb for bb, t in rd.calls() if (callee_name(t) or "").endswith("parse_divider_bytes")]
    cands = []
    for sb, st in switches(rd):
        be = bool_edges(rd, sb)
        if be is not None:
            tree = inl.reduce(rd, cond_tree(rd, sb, ord_))
            if any(n.kind == "arg" and n.a == k for n in tree.walk()):
                cands.append((sb, be, tree))
            continue
        # `match position_of_bytes(line, &salted_prefix) { Some(start) => parse(&line[start..]) .. }`
        ve, rvv = variant_edges(rd, sb)
        if ve is not None and set(ve) == {"Some", "None"}:
            tree = inl.reduce(rd, ord_.operand({"copy": rvv["place"]}))
            if any(n.kind == "arg" and n.a == k for n in tree.walk()):
                cands.append((sb, (ve["Some"], ve["None"]), tree))
    gate = None
    for c_ in cands:
        sb_, (tt_, tf_), _t = c_
        if parse and all(p in rd.reachable(tt_) and p not in rd.reachable(0, removed_edges=[(sb_, tt_)]) for p in parse):
            gate = c_
    if gate is None and cands:
        gate = cands[0]
    if gate is None or not parse:
        ctx.bad("reader-uses-nonce", rd.where(), "the salt parameter of iterate_divided_output does not reach any comparison that gates divider parsing")
        return
    sb, (tt, tf), tree = gate
    ctx.check(all(p in rd.reachable(tt) and p not in rd.reachable(0, removed_edges=[(sb, tt)]) for p in parse), "reader-uses-nonce", rd.loc(sb),
              "a line is parsed as a divider only when it carries this run's salt",
              "parse_divider_bytes is reachable without the salt test succeeding")
    # .. and the parser is handed the line from the salted prefix on: text in front of it (unterminated output of the test, which may itself
    # look like a divider) is never searched for the unsalted prefix
    for pbb in parse:
        pt_ = rd.blocks[pbb]["term"]
        arg = ord_.operand(pt_["args"][0])
        from_salted = False
        for n in arg.walk():
            if n.kind == "call" and method_name(n.a) == "Index::index" and len(n.kids) == 2:
                rng = peel(n.kids[1])
                if rng.kind == "agg" and "RangeFrom" in str(rng.a[0]) and rng.kids:
                    st_ = inl.reduce(rd, rng.kids[0])
                    if any(x.kind == "arg" and x.a == k for x in st_.walk()) and any(x.kind == "variant" and x.a == "Some" for x in st_.walk()):
                        from_salted = True
        ctx.check(from_salted, "reader-parses-from-salt", rd.loc(pbb),
                  "parse_divider_bytes receives line[start..] with start = position of this run's salted prefix",
                  "parse_divider_bytes receives %s: it searches the whole line for the first *unsalted* divider prefix, so unterminated output that contains "
                  "the prefix text in front of the real divider makes the document fail (or shifts the captured bytes)" % arg.show()[:80])
    # writer and reader prefix constants agree
    a = prog.const("DIVIDER_PREFIX").as_bytes()
    b = prog.const("DIVIDER_PREFIX_BYTES").as_bytes()
    ctx.check(a is not None and a == b, "prefix-tables", "-", "DIVIDER_PREFIX and DIVIDER_PREFIX_BYTES are the same bytes (%r)" % a,
              "writer prefix %r != reader prefix %r" % (a, b))


def call_graph(prog):
    g = defaultdict(set)
    by = {}
    for b in prog.bodies:
        if b.promoted is None:
            by[(b.crate, b.path)] = b
    for b in prog.bodies:
        if b.promoted is not None:
            continue
        me = (b.crate, b.path)
        for bi, t in b.calls():
            if t.get("resolved_local") and (b.crate, t["resolved"]) in by:
                g[me].add((b.crate, t["resolved"]))
            # fn items passed as values (map(f)) and closures created here
            for a in t["args"]:
                c = a.get("const")
                if c and c.get("val", {}).get("kind") == "zst" and "fn" in c["val"] and (b.crate, c["val"]["fn"]) in by:
                    g[me].add((b.crate, c["val"]["fn"]))
        for blk in b.blocks:
            for st in blk["stmts"]:
                if st["k"] == "assign" and st["rv"]["k"] == "agg" and st["rv"]["agg"] == "closure" and (b.crate, st["rv"]["def"]) in by:
                    g[me].add((b.crate, st["rv"]["def"]))
    return g, by


def sccs(g, nodes):
    index = {}
    low = {}
    stack, on = [], set()
    out = []
    counter = [0]
    import sys
    sys.setrecursionlimit(10000)

    def strong(v):
        index[v] = low[v] = counter[0]
        counter[0] += 1
        stack.append(v)
        on.add(v)
        for w in g.get(v, ()):
            if w not in index:
                strong(w)
                low[v] = min(low[v], low[w])
            elif w in on:
                low[v] = min(low[v], index[w])
        if low[v] == index[v]:
            comp = []
            while True:
                w = stack.pop()
                on.discard(w)
                comp.append(w)
                if w == v:
                    break
            out.append(comp)
    for v in nodes:
        if v not in index:
            strong(v)
    return out


def recursion_findings(prog):
    g, by = call_graph(prog)
    out = []
    for comp in sccs(g, list(by.keys())):
        cyc = len(comp) > 1 or comp[0] in g.get(comp[0], ())
        if not cyc:
            continue
        bodies = [by[c] for c in comp]
        if all(b.auto_derived for b in bodies):
            continue
        out.append(bodies)
    return out


def r13_3(ctx):
    found = recursion_findings(ctx.prog)
    seen_allowed = set()
    for bodies in found:
        names = sorted(b.npath for b in bodies)
        allowed = [k for k in RECURSION_TABLE if all(n == k or n.endswith("::" + k) or ("::" + k + "::{closure") in n or n.endswith(k) for n in names)]
        key = "cycle:" + "+".join(n.split("::")[-1] if not n.startswith("<") else n for n in names)
        if allowed:
            seen_allowed.add(allowed[0])
            ctx.ok(key, bodies[0].where(), "recursion %s is in the confirmed table: %s" % (names, RECURSION_TABLE[allowed[0]]))
        else:
            ctx.bad(key, bodies[0].where(),
                    "unbounded recursion on the data path: %s calls itself once per occurrence in its input (e.g. every CRLF of an output), "
                    "so large inputs overflow the stack and abort the process" % names, {"cycle": names})
    ctx.ok("recursion-sweep", "-", "call graph of lib+bin searched for cycles: %d found" % len(found), obligation=False)
    # positive control: the fixture crate contains a self-recursive function
    if ctx.ctrl is not None:
        cf = recursion_findings(ctx.ctrl)
        ctx.control("self-recursion", any("control_recursion" in b.npath for bs in cf for b in bs), "fixtures/positive control_recursion")


def _option_eq_switch(prog, f, o, field, const_pred):
    """switch testing `self.config.<field> ==/!= Some(<const>)` -> (bb, edge_true_means_equal, edges)"""
    for sb, st in switches(f):
        be = bool_edges(f, sb)
        if be is None:
            continue
        tree = cond_tree(f, sb, o)
        neg = False
        while tree.kind == "un" and tree.a == "Not":
            neg = not neg
            tree = tree.kids[0]
        if tree.kind == "call" and method_name(tree.a) in ("PartialEq::eq", "PartialEq::ne"):
            if method_name(tree.a) == "PartialEq::ne":
                neg = not neg
            l, r = peel(tree.kids[0]), peel(tree.kids[1])
            fld = l if (l.kind == "field" and l.a == field) else (r if (r.kind == "field" and r.a == field) else None)
            if fld is None:
                continue
            other = r if fld is l else l
            val = other
            if other.kind == "const":
                pt = promoted_tree(prog, f, other.a)
                if pt is not None:
                    val = peel(pt)
            if const_pred(val.show()):
                tt, tf = be
                return sb, (tf if neg else tt), (tt if neg else tf)
    # `matches!(cfg.<field>, Some(V))` / `let flag = match cfg.<field> { Some(V) => true, _ => false }`: a bool local that is
    # `true` exactly below the V edge of the (nested) switch over the field
    wanted_edges = []
    for isb, ist in switches(f):
        ve, rv = variant_edges(f, isb)
        if ve is not None:
            names = [p_.get("n") for p_ in f.canon_place(rv["place"])["p"] if isinstance(p_, dict)]
            if field in names and set(ve) != {"Some", "None"}:
                for v, tg in ve.items():
                    if const_pred("Option::Some(%s::%s)" % (rv["ty"].split("<")[0], v)) and list(ve.values()).count(tg) == 1:
                        wanted_edges.append((isb, tg))
        else:
            be = bool_edges(f, isb)
            pl = ist["discr"].get("copy") or ist["discr"].get("move")
            if be and pl is not None:
                cp = f.canon_place(pl)
                names = [p_.get("n") for p_ in cp["p"] if isinstance(p_, dict)]
                if field in names and any(isinstance(p_, dict) and p_.get("v") == "Some" or p_ == "Some" or (isinstance(p_, dict) and "Some" in str(p_)) for p_ in cp["p"]):
                    if const_pred("Option::Some(true)"):
                        wanted_edges.append((isb, be[0]))
    if len(wanted_edges) == 1:
        isb, T = wanted_edges[0]
        via_t = set(f.reachable(T))
        without_t = set(f.reachable(0, removed_edges=[(isb, T)]))
        for sb, st in switches(f):
            be = bool_edges(f, sb)
            pl = st["discr"].get("copy") or st["discr"].get("move")
            if be is None or pl is None or pl["p"]:
                continue
            l = pl["l"]
            # chase one copy
            d1 = f.single_def(l)
            if d1 and d1[2] == "assign" and d1[3]["k"] == "use" and ("copy" in d1[3]["op"] or "move" in d1[3]["op"]):
                src = d1[3]["op"].get("copy") or d1[3]["op"].get("move")
                if not src["p"]:
                    l = src["l"]
            defs = [d for d in f.defs.get(l, []) if d[2] == "assign" and d[3]["k"] == "use" and "const" in d[3]["op"] and d[3]["op"]["const"]["ty"] == "bool"]
            if len(defs) < 2 or len(defs) != len(f.defs.get(l, [])):
                continue
            vals = {}
            for d in defs:
                v = d[3]["op"]["const"].get("val", {})
                vals.setdefault(bool(int(v.get("bits", 0))), []).append(d[0])
            if True in vals and False in vals and all(b in via_t and b not in without_t for b in vals[True]) and all(b in without_t for b in vals[False]) \
                    and not any(b in set(f.reachable(T)) - without_t for b in vals[False]):
                return sb, be[0], be[1]
    return None


def r13_4(ctx):
    prog = ctx.prog
    f = prog.fn("TestCase::render_output")
    o = Origins(f)
    g1 = _option_eq_switch(prog, f, o, "keep_crlf", lambda s: "Option::Some" in s and "true" in s)
    g2 = _option_eq_switch(prog, f, o, "strip_ansi_escaping", lambda s: "Option::Some" in s and "true" in s)
    if g1 is None or g2 is None:
        raise AnchorError("render_output: guards on keep_crlf / strip_ansi_escaping == Some(true) not found")
    for name, callee, guard, on_equal in (("crlf", "replace_crlf", g1, False), ("ansi", "strip_colors_bytes", g2, True)):
        sb, eq_edge, ne_edge = guard
        edge = eq_edge if on_equal else ne_edge
        other = ne_edge if on_equal else eq_edge
        sites = [bb for bb, t in f.calls() if (callee_name(t) or "").endswith(callee)]
        ctx.check(len(sites) == 1, name + "-site", f.where(), "render_output calls %s once" % callee, "render_output calls %s %d times" % (callee, len(sites)))
        for bb in sites:
            good = bb in f.reachable(edge) and bb not in f.reachable(0, removed_edges=[(sb, edge)])
            ctx.check(good, name + "-guard", f.loc(bb),
                      "%s runs exactly when %s" % (callee, "strip_ansi_escaping == Some(true)" if on_equal else "keep_crlf != Some(true)"),
                      "%s is applied on the wrong edge of its configuration test" % callee)
            # input of the transformation is the function's input / the previous stage, unmodified
            t = f.blocks[bb]["term"]
            src = peel(o.operand(t["args"][0]))
            calls = [method_name(c) for c in src.call_names()]
            extra = [c for c in calls if c not in ("replace_crlf", "Cow::Borrowed", "Deref::deref")]
            ctx.check(not extra, name + "-input", f.loc(bb), "%s receives the captured bytes (after the previous stage only)" % callee,
                      "%s receives %s" % (callee, src.show()[:120]))
    # SubprocessRunner::run wiring
    r = prog.impl_fn("SubprocessRunner", "Runner", "run")
    orr = Origins(r)
    g3 = _option_eq_switch(prog, r, orr, "output_stream", lambda s: "Option::Some" in s and "OutputStreamControl::Combined" in s)
    if g3 is None:
        raise AnchorError("SubprocessRunner::run: no `output_stream == Some(Combined)` test")
    sb, eq_edge, ne_edge = g3
    merges = [(bb, si) for bb, si, rv in aggregates(r, "Redirection", "Merge")]
    ctx.check(len(merges) == 1, "merge-site", r.where(), "Redirection::Merge constructed once")
    for bb, si in merges:
        ctx.check(bb in r.reachable(eq_edge) and bb not in r.reachable(0, removed_edges=[(sb, eq_edge)]), "merge-guard", stmt_loc(r, bb, si),
                  "stderr is merged into stdout exactly when output_stream == Some(Combined)",
                  "Redirection::Merge is selected on the wrong edge of the output_stream test")
    # stdin is the shell expression
    cs = [(bb, t) for bb, t in r.calls() if method_name(callee_name(t, resolved=False) or "") == "Popen::communicate_start"]
    for bb, t in cs:
        src = orr.operand(t["args"][1])
        ok = any(n.kind == "field" and n.a == "shell_expression" for n in src.walk()) and not src.has_call("str::trim", "str::trim_end", "str::replace", "str::to_lowercase")
        ctx.check(ok, "stdin-source", r.loc(bb), "the shell receives testcase.shell_expression as stdin, byte for byte", "stdin is %s" % src.show()[:160])
    # stdout/stderr reach Output only through unwrap_or_default + render_output + conversions
    from ..facts import chain_to
    inl = Inliner(prog, 0)
    outs = [(bb, si, rv) for bb, si, rv in aggregates(r, "Output", "Output")]
    allowed = {"Option::unwrap_or_default", "TestCase::render_output", "Try::branch", "to_vec", "Cow::to_vec", "slice::to_vec", "Into::into", "Index::index",
               "Deref::deref", "From::from", "Cow::into_owned", "Vec::from", "ToOwned::to_owned"}
    n = 0
    for bb, si, rv in outs:
        for fld, op in zip(rv["fields"], rv["ops"]):
            if fld not in ("stdout", "stderr"):
                continue
            tree = orr.operand(op)
            if not tree.has_call("Communicator::read"):
                continue
            n += 1
            red = inl.reduce(r, tree)
            chain = chain_to(red, lambda x: x.kind == "call" and method_name(x.a) == "Communicator::read") or []
            extra = [c for c in chain if c not in allowed]
            has_render = "TestCase::render_output" in chain
            same = _same_stream(red, fld)
            ctx.check(has_render and not extra and same, "capture-flow:" + fld, stmt_loc(r, bb, si),
                      "captured %s reaches Output.%s through unwrap_or_default + render_output + container conversions only" % (fld, fld),
                      "captured %s flows through %s (render_output present: %s, same stream: %s)" % (fld, chain, has_render, same))
    ctx.check(n == 2, "capture-flow-count", r.where(), "both captured streams flow into the Output of the normal path", "found %d captured stream flows" % n)


def _same_stream(tree, fld):
    """every tuple component of communicate's Ok((stdout, stderr)) / err.capture that feeds
    Output.<fld> is the one of the same stream"""
    want = "0" if fld == "stdout" else "1"
    seen = []
    for n in tree.walk():
        if n.kind == "field" and n.a in ("0", "1") and n.kids:
            k = n.kids[0]
            if k.kind == "field" and k.a == "0" and k.kids and k.kids[0].kind == "variant" and k.kids[0].a == "Ok" and k.kids[0].kids[0].has_call("Communicator::read"):
                seen.append(n.a)
            elif k.kind == "field" and k.a == "capture":
                seen.append(n.a)
    return bool(seen) and all(x == want for x in seen)


def r13_5(ctx):
    prog = ctx.prog
    ex = prog.impl_fn("BashScriptExecutor", "Executor", "execute_all")
    # closure that pushes Output{stdout: out, exit_code: Code(exit_code)} for the STDOUT pass
    cl = [c for c in prog.closures_of(ex) if any(True for _ in aggregates(c, "ExitStatus", "Code")) and any(True for _ in aggregates(c, "Output", "Output"))]
    if len(cl) != 1:
        raise AnchorError("execute_all: the per-divider closure constructing Output{..Code(exit_code)} was not found (%d)" % len(cl))
    c = cl[0]
    oc = Origins(c)
    for bb, si, rv in aggregates(c, "ExitStatus", "Code"):
        src = peel(oc.operand(rv["ops"][0]))
        ctx.check(src.kind == "arg" and src.a == 4, "exit-from-divider", stmt_loc(c, bb, si),
                  "each test's exit code is the integer the reader parsed from that divider (callback argument 3)",
                  "per-test exit code is %s" % src.show())
    for bb, si, rv in aggregates(c, "Output", "Output"):
        src = oc.operand(rv["ops"][rv["fields"].index("stdout")])
        ok = any(n.kind == "arg" and n.a == 3 for n in src.walk()) and not src.has_call("slice::trim_ascii", "str::trim", "BytesNewline::trim_newlines")
        ctx.check(ok, "stdout-from-divider", stmt_loc(c, bb, si), "each test's stdout is the byte block between its dividers, unmodified")
    # reader: Found.exit_code flows to the callback; parse result from `parse::<i32>` of the text after the last `::`
    # outputs.len() == testcases.len() dominates Ok
    o = Origins(ex)
    oks = [b for b, _, _ in result_variant_blocks(ex, "Ok")]
    gate = None
    for sb, st in switches(ex):
        be = bool_edges(ex, sb)
        if be is None:
            continue
        tree = cond_tree(ex, sb, o)
        if tree.kind == "bin" and tree.a in ("Ne", "Eq"):
            sides = [peel(k) for k in tree.kids]
            if all(s.kind == "call" and method_name(s.a) in ("Vec::len", "slice::len", "len") for s in sides):
                gate = (sb, tree.a, be)
    if gate is None:
        ctx.bad("count-gate", ex.where(), "no `outputs.len() == testcases.len()` test before Ok(outputs)")
    else:
        sb, op, (tt, tf) = gate
        eq = tf if op == "Ne" else tt
        ctx.check(all(b not in ex.reachable(0, removed_edges=[(sb, eq)]) for b in oks), "count-gate", ex.loc(sb),
                  "Ok(outputs) is returned only when exactly one output per test case was found")


def r13_6(ctx):
    """Cram script: the user's expression is followed by something that ends its logical line before scrut's own footer,
    so that a trailing `\\` (line continuation) or an unterminated construct cannot swallow the divider echo"""
    from ..fmtq import FmtError, flat_pieces
    prog = ctx.prog
    cs = prog.fn("compile_script")
    oc = Origins(cs)
    allp = []
    for bb, t in cs.calls():
        if mname(t) == "Vec::push":
            allp.append((bb, t, oc.operand(t["args"][1]), cs.arg_name(t["args"][0])))
    user = [p for p in allp if any(n.kind == "field" and n.a == "shell_expression" for n in p[2].walk())]
    if len(user) != 1:
        raise AnchorError("compile_script: push of the shell expression not found")
    # the script-lines vector is bound by role: the one the user's expression is pushed onto
    pushes = [(bb, t, tree) for bb, t, tree, nm in allp if nm == user[0][3]]
    ub = user[0][0]
    # the pushes that can directly follow the user's expression (next push in the CFG, loops cut)
    back = cs.back_edges()
    push_blocks = {p[0]: p for p in pushes}
    nxt = []
    todo, seen = [cs.blocks[ub]["term"]["target"]], set()
    while todo:
        b = todo.pop()
        if b in seen:
            continue
        seen.add(b)
        if b in push_blocks:
            nxt.append(push_blocks[b])
            continue
        for s2 in cs.succ(b):
            if (b, s2) not in back:
                todo.append(s2)
    ctx.check(len(nxt) >= 1, "separator-site", cs.loc(ub), "something is pushed after the user's expression inside the same iteration")
    for bb, t, tree in nxt:
        lit = None
        n = peel(tree)
        if n.kind == "call" and n.kids and peel(n.kids[0]).kind == "const":
            lit = peel(n.kids[0]).a.as_str()
        elif n.kind == "call" and not n.kids and method_name(n.a) in ("String::new", "Default::default"):
            lit = ""
        elif n.kind == "const":
            lit = n.a.as_str()
        else:
            try:
                ps = flat_pieces(tree)
                if ps and isinstance(ps[0], str):
                    lit = ps[0] if ps[0].startswith("\n") else None
                    if lit is None:
                        lit = "<format:%r>" % ps[0][:12]
            except FmtError:
                lit = None
        ok = lit is not None and (lit == "" or lit.startswith("\n"))
        ctx.check(ok, "separator-after-user-text", cs.loc(bb),
                  "the element pushed right after the user's expression is an empty line (a dangling `\\` continuation or comment ends there, not in scrut's footer)",
                  "the user's expression is immediately followed by scrut's own script line (%s): an expression ending in a backslash is joined with the "
                  "divider echo, so the command is not run as written and its output / exit code are misattributed" % (lit,))


def r13_7(ctx):
    """replace_crlf drops exactly the CR of every CR LF pair: per byte, the only path that does not copy the byte is guarded by
    `byte == CR` *and* `bytes.get(index + 1) == Some(&LF)`; the copied value is the byte itself; all bytes are visited; the
    no-CRLF fast path tests windows(2) against b"\r\n" """
    prog = ctx.prog
    f = prog.fn("newline::replace_crlf")
    o = Origins(f)
    back = f.back_edges()
    nexts = [(bb, t) for bb, t in f.calls() if mname(t) == "Iterator::next" and "Enumerate<" in (t.get("self_ty") or "") and "u8" in (t.get("self_ty") or "")]
    pushes = [(bb, t) for bb, t in f.calls() if mname(t) == "Vec::push"]
    if len(nexts) != 1 or len(pushes) != 1 or len({h for _, h in back}) != 1:
        raise AnchorError("replace_crlf: not a single per-byte loop with one push (unrecognised form: %d next, %d push)" % (len(nexts), len(pushes)))
    (nb, nt), (pb, pt) = nexts[0], pushes[0]
    ve, rv = variant_edges(f, nt["target"])
    if ve is None or "Some" not in ve:
        raise AnchorError("replace_crlf: iterator result not matched")
    start, head = ve["Some"], list({h for _, h in back})[0]
    it = o.operand(nt["args"][0])
    whole = any(n.kind == "call" and method_name(n.a) == "slice::iter" and any(k.kind == "arg" and k.a == 1 for k in n.walk()) for n in it.walk()) and \
        not any(n.kind == "call" and method_name(n.a) in ("Iterator::skip", "Iterator::take", "Iterator::step_by", "Iterator::filter", "Iterator::rev") for n in it.walk())
    ctx.check(whole, "crlf:all-bytes", f.loc(nb), "every byte of the input is visited in order", "the loop iterates %s" % it.show()[:100])

    def is_item(tree, comp):
        n = peel(tree)
        while n.kind == "deref" and n.kids:
            n = peel(n.kids[0])
        return n.kind == "field" and n.a == comp and n.kids and n.kids[0].kind == "field" and n.kids[0].a == "0" and \
            any(k.kind == "call" and k.at == (nb, "term") for k in n.walk())
    cr = lf = None
    for sb, st in switches(f):
        be = bool_edges(f, sb)
        if be is None or sb not in f.reachable(start, removed_edges=back):
            continue
        tree = cond_tree(f, sb, o)
        neg = False
        while tree.kind == "un" and tree.a == "Not":
            neg, tree = not neg, tree.kids[0]
        if tree.kind == "bin" and tree.a in ("Eq", "Ne") and any(k.kind == "const" and k.a.as_int() == 13 for k in tree.kids) and any(is_item(k, "1") for k in tree.kids):
            if tree.a == "Ne":
                neg = not neg
            cr = (sb, be[1] if neg else be[0])
        elif tree.kind == "call" and method_name(tree.a) in ("PartialEq::eq", "PartialEq::ne"):
            if method_name(tree.a) == "PartialEq::ne":
                neg = not neg
            sides = [peel(k) for k in tree.kids]
            get = [x for x in sides if x.kind == "call" and method_name(x.a) == "slice::get"]
            cst = [x for x in sides if x.kind == "const"]
            if len(get) == 1 and len(cst) == 1:
                idx = peel(get[0].kids[1])
                plus1 = idx.kind == "field" and idx.a == "0" and idx.kids[0].kind == "bin" and idx.kids[0].a in ("AddWithOverflow", "Add") and \
                    idx.kids[0].kids[1].kind == "const" and idx.kids[0].kids[1].a.as_int() == 1 and is_item(idx.kids[0].kids[0], "0")
                on_input = any(k.kind == "arg" and k.a == 1 for k in get[0].kids[0].walk())
                pt_ = promoted_tree(prog, f, cst[0].a)
                some_lf = pt_ is not None and "Some" in pt_.show() and any(k.kind == "const" and k.a.as_int() == 10 for k in pt_.walk())
                if plus1 and on_input and some_lf:
                    lf = (sb, be[1] if neg else be[0])
    ctx.check(cr is not None, "crlf:cr-test", f.where(), "the current byte is compared with CR (13)", "no `byte == b'\\r'` test on the current byte")
    ctx.check(lf is not None, "crlf:lf-test", f.where(), "the following byte is looked up as bytes.get(index + 1) and compared with Some(&LF)",
              "no `bytes.get(index + 1) == Some(&b'\\n')` test: what follows a CR is not examined in the input itself")
    val = o.operand(pt["args"][1])
    ctx.check(is_item(val, "1"), "crlf:copy-verbatim", f.loc(pb), "the byte copied to the result is the current input byte", "the copied value is %s" % val.show()[:80])
    if cr is not None and lf is not None:
        # the only way to finish an iteration without pushing leads over both guard edges
        tails = {b for b, h in back}

        def skip_possible(removed):
            seen, todo = set(), [start]
            rem = set(removed)
            while todo:
                b = todo.pop()
                if b in seen or b == pb:
                    continue
                seen.add(b)
                if b in tails:
                    return True
                for s2 in f.succ(b):
                    if (b, s2) not in rem and not f.blocks[s2]["cleanup"]:
                        todo.append(s2)
            return False
        ctx.check(skip_possible([]) and not skip_possible([cr]) and not skip_possible([lf]), "crlf:skip-guarded", f.loc(pb),
                  "a byte is dropped only if it is CR and the next input byte is LF (every other path of the iteration copies it)",
                  "a byte can be dropped without passing both the CR test and the LF look-ahead (or no byte is ever dropped)")
    # the fast path: no CR LF pair -> input returned as is
    anys = [(bb, t) for bb, t in f.calls() if mname(t) == "Iterator::any"]
    ok_fast = False
    for bb, t in anys:
        src = o.operand(t["args"][0])
        win = [n for n in src.walk() if n.kind == "call" and method_name(n.a) == "slice::windows"]
        cl = peel(o.operand(t["args"][1]))
        if win and peel(win[0].kids[1]).kind == "const" and peel(win[0].kids[1]).a.as_int() == 2 and cl.kind == "agg" and str(cl.a[0]).startswith("closure "):
            cb = prog.body_by_def(cl.a[0][len("closure "):], f.crate)
            r = peel(Origins(cb).local(0)) if cb is not None else None
            if r is not None and r.kind == "call" and method_name(r.a) == "PartialEq::eq":
                for k in r.walk():
                    if k.kind == "const":
                        pt_ = promoted_tree(prog, cb, k.a)
                        if pt_ is not None and any(x.kind == "const" and x.a.as_bytes() == b"\r\n" for x in pt_.walk()):
                            ok_fast = True
    if anys:
        ctx.check(ok_fast, "crlf:fast-path", f.where(), "the unchanged-input fast path is taken exactly when no window of two bytes equals CR LF",
                  "the fast path of replace_crlf does not test windows(2) against b\"\\r\\n\"")
    else:
        ctx.ok("crlf:fast-path", f.where(), "no fast path")


def consistency_gates(ctx, fields):
    """single-script (Cram / --cram-compat) execution has ONE configuration for the whole document - the script is set up from it (stream merge, CRLF,
    skip code) while validation reads each test case's own value. compile_testcase therefore rejects documents whose test cases disagree: for every
    key in `fields` there is a comparison `config.<key> != testcase.config.<key>` whose `different` edge reaches nothing but an Err result"""
    from ..cfgq import bool_edges, cond_tree, switches, result_variant_blocks
    prog = ctx.prog
    f = prog.fn("compile_testcase")
    o = Origins(f)
    back = f.back_edges()
    tails = {b_ for b_, _ in back}
    oks = {b for b, _, _ in result_variant_blocks(f, "Ok")}
    found = {}
    for sb, st in switches(f):
        be = bool_edges(f, sb)
        if be is None:
            continue
        tree = cond_tree(f, sb, o)
        neg = False
        while tree.kind == "un" and tree.a == "Not":
            neg, tree = not neg, tree.kids[0]
        if not (tree.kind == "call" and method_name(tree.a) in ("PartialEq::ne", "PartialEq::eq") and len(tree.kids) == 2):
            continue
        names = []
        for k in tree.kids:
            n = peel(k)
            names.append(n.a if n.kind == "field" else None)
        if names[0] is None or names[0] != names[1]:
            continue
        sides = [k.show() for k in tree.kids]
        if not (any("Iterator::next" in x or "arg1" in x for x in sides) and any("TestCaseConfig::empty" in x or "phi[" in x for x in sides)):
            continue
        diff_edge = be[0] if ((method_name(tree.a) == "PartialEq::ne") != neg) else be[1]
        # (path-sensitive: a generic helper that was inlined returns `Err(..)` and the caller's `?` takes it from there - the Continue edge is not feasible)
        from ..cfgq import explore as _explore
        reach = set(_explore(f, diff_edge, {}, removed_edges=back).keys())
        found[names[0]] = (sb, not (reach & tails) and not (reach & oks))
    for key in fields:
        hit = found.get(key)
        ctx.check(hit is not None and hit[1], "consistent:" + key, f.loc(hit[0]) if hit else f.where(),
                  "test cases that disagree on `%s` are rejected (the `different` edge of config.%s != testcase.config.%s only reaches an Err result)" % (key, key, key),
                  "compile_testcase %s: the one script of the document is set up after one test case's `%s` while validation reads each test case's own value - e.g. a "
                  "`combined` test case after a `stdout` one is validated against stdout only, a `stderr` one after `combined` against an always-empty stderr, and passes"
                  % ("does not compare config.%s with the test case's value" % key if hit is None else "continues after finding a different `%s`" % key, key))


def r13_13(ctx):
    """F50: what is left of the script's output after the divider lines were removed is the kept lines put together as they are - the lines carry their
    line feed (split_at_newline), so joining them with a separator doubles every line feed of the output that is reported for a timed-out document"""
    prog = ctx.prog
    f = prog.fn("remove_dividers_from_output")
    o = Origins(f)
    bodies = [f] + prog.closures_of(f)
    names = [mname(t) or "" for b_ in bodies for _, t in b_.calls()]
    sep_bad = []
    for bb, t in f.calls():
        if mname(t) in ("slice::join", "Join::join") and len(t["args"]) > 1:
            k = peel(o.operand(t["args"][1]))
            sep = k.a.as_bytes() if k.kind == "const" else None
            if sep is None and k.kind == "const":
                from ..cfgq import promoted_tree as _pt
                q = _pt(prog, f, k.a)
                sep = peel(q).a.as_bytes() if q is not None and peel(q).kind == "const" else None
            if sep != b"":
                sep_bad.append(sep)
    ctx.check(any(n.endswith("split_at_newline") for n in names) and not sep_bad, "kept-lines-concatenated", f.where(),
              "the kept lines (with their line feeds) are put together without a separator",
              "the kept lines are joined with the separator %r although split_at_newline keeps each line's line feed: the output reported for a timed-out Cram "
              "document has every line feed doubled (`a\\nb\\n` becomes `a\\n\\nb\\n`)" % (sep_bad[:1] or ["?"])[0])


def run(ctx):
    ctx.run_rule("R13.1", "splice-last: the str::replace that inserts the user's shell expression is the last substitution; Cram pushes the expression unmodified [E-FLOW]", r13_1, floor=6)
    ctx.run_rule("R13.2", "divider nonce: the random salt reaches the divider reader and gates divider recognition; writer/reader prefix agree [E-FLOW, summaries depth 4]", r13_2, floor=4)
    ctx.run_rule("R13.3", "no unbounded recursion: every cycle of the resolved call graph (lib+bin) is in the confirmed table [E-REC]", r13_3, floor=2)
    ctx.run_rule("R13.7", "replace_crlf: per byte, the only non-copying path is guarded by byte==CR and bytes.get(index+1)==Some(&LF); copies are verbatim; fast path = no CR LF window [E-PATH]", r13_7, floor=6)
    from . import c07 as _c07
    ctx.run_rule("R13.8", "the shell expression leaves the parser as written: `$ `/`> ` lines are stored after stripping exactly the prefix, nothing else (shared with C07 R7.2 / C06 R6.10) [E-FLOW]", _c07.line_parser_rules, floor=4)
    ctx.run_rule("R13.4", "guard tables: replace_crlf iff keep_crlf != Some(true); strip_colors iff strip_ansi_escaping == Some(true); Merge iff Combined; stdin and captured streams unmodified [E-PATH, E-FLOW]", r13_4, floor=10)
    ctx.run_rule("R13.6", "Cram script: the user's expression is separated from scrut's footer by an empty line (no continuation into the divider echo) [E-FLOW order]", r13_6, floor=2)
    ctx.run_rule("R13.5", "Cram: per-test exit code and stdout come from the divider reader; outputs.len()==testcases.len() dominates Ok [E-FLOW, E-PATH]", r13_5, floor=3)
    from . import c16
    ctx.run_rule("R13.9", "the transformation guards (keep_crlf, strip_ansi_escaping, output_stream) read the test case's *effective* configuration: layer order at every merge call site, the executor keeps the test case's own value above the document defaults (shared with C16 R16.3) [E-SITE]", c16.r16_3, floor=9)
    ctx.run_rule("R13.10", "the keys that drive the output transformations (keep_crlf, strip_ansi_escaping, output_stream) are merged receiver-first from their own field of the lower layer - no cross-wiring (shared with C16 R16.1) [E-FLOW]",
                 lambda c: c16._merge_fields(c, c.prog.fn("TestCaseConfig::with_defaults_from"), "TestCaseConfig", only={"keep_crlf", "strip_ansi_escaping", "output_stream"}), floor=3)
    ctx.run_rule("R13.11", "single-script execution: test cases that disagree on keep_crlf / output_stream are rejected by compile_testcase (one script, one configuration) [E-PATH]", lambda c: consistency_gates(c, ["keep_crlf", "output_stream"]), floor=2)
    from . import c20
    ctx.run_rule("R13.12", "per test: every continuing loop path of StatefulExecutor::execute_all pushes exactly one Output (also the Detached placeholder), so outputs and test cases pair positionally (shared with C20 R20.3) [E-STATE]", c20.r20_3, floor=4)
    ctx.run_rule("R13.13", "remove_dividers_from_output concatenates the kept lines (which carry their line feed) without a separator (F50) [E-FLOW]", r13_13, floor=1)
