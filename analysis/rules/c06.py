"""C06 — Markdown: every scrut block becomes exactly one test; nothing is dropped; no crash."""
from ..cfgq import aggregates, bool_edges, cond_tree, explore, place_key, result_variant_blocks, stmt_loc, switches, variant_edges
from ..facts import AnchorError, Origins, call_name, callee_name, method_name, mname, peel, strip_mods
from . import eunit, c07

SCOPE_LEN_MINUS = ("src/parsers/", "src/generators/", "src/renderers/", "src/diff.rs", "src/expectation.rs")


# ---------------------------------------------------------------------------------------------
# line sources
# ---------------------------------------------------------------------------------------------
def is_lines_next(t):
    return mname(t) == "Iterator::next" and "Lines<" in (t.get("self_ty") or "")


def line_source_helpers(prog, crate):
    """crate-local functions whose Some-result *is* the result of `Lines::next` (e.g. next_line)"""
    out = {}
    for b in prog.bodies:
        if b.promoted is not None or b.crate != crate or b.kind not in ("AssocFn", "Fn"):
            continue
        if not b.lty(0).startswith("std::option::Option<&"):
            continue
        srcs = [bb for bb, t in b.calls() if is_lines_next(t)]
        if len(srcs) != 1:
            continue
        o = Origins(b)
        r = o.local(0)
        alts = r.kids if r.kind == "phi" else [r]
        good = False
        for a in alts:
            a = peel(a)
            if a.kind == "agg" and a.a[0] == "Option::Some":
                payload = peel(a.kids[0])
                if any(n.kind == "call" and "Lines<" in n.a and method_name(n.a) == "Iterator::next" for n in payload.walk()):
                    good = True
            elif a.kind == "call" and "Lines<" in a.a and method_name(a.a) == "Iterator::next":
                good = True        # the Option of Lines::next handed on as it is
        if good:
            out[(b.crate, b.path)] = b
    return out


def source_calls(prog, f):
    helpers = line_source_helpers(prog, f.crate)
    out = []
    for bb, t in f.calls():
        if is_lines_next(t):
            out.append((bb, t, None))
        elif t.get("resolved_local") and (f.crate, t["resolved"]) in helpers:
            out.append((bb, t, helpers[(f.crate, t["resolved"])]))
    return out, helpers


def success_edge(f, bb, t):
    """(switch block, target) taken when the line source call at bb yielded a line"""
    dest = t["dest"]["l"]
    cur = t["target"]
    test = None
    for _ in range(6):
        blk = f.blocks[cur]
        term = blk["term"]
        if term["k"] == "call" and mname(term) == "Try::branch":
            cur = term["target"]
            continue
        if term["k"] == "call" and mname(term) in ("Option::is_some", "Option::is_none") and test is None:
            test = mname(term)          # `if line.is_some() { .. }`: the bool switch that follows decides
            cur = term["target"]
            continue
        if term["k"] == "switch" and test is not None:
            be = bool_edges(f, cur)
            if be is None:
                return None
            yes, no = (be[0], be[1]) if test == "Option::is_some" else (be[1], be[0])
            return cur, yes, [no]
        if term["k"] == "switch":
            ve, rv = variant_edges(f, cur)
            if ve is None:
                return None
            for name in ("Some", "Continue"):
                if name in ve:
                    return cur, ve[name], [tg for v, tg in ve.items() if v != name]
            return None
        if term["k"] == "goto":
            cur = term["target"]
            continue
        return None
    return None


def none_results(f):
    """blocks where the function's Option result becomes None: explicit None or `?` residual"""
    out = []
    for bb, si, kind, payload in f.defs.get(0, []):
        if kind == "assign" and payload["k"] == "agg" and payload.get("variant") == "None":
            out.append((bb, "explicit None"))
        elif kind == "call" and mname(payload) == "FromResidual::from_residual":
            out.append((bb, "`?` on an exhausted document"))
    return out


def r6_1(ctx):
    prog = ctx.prog
    f = prog.fn("<MarkdownIterator<'_> as Iterator>::next")
    srcs, helpers = source_calls(prog, f)
    if not srcs:
        raise AnchorError("MarkdownIterator::next reads no lines")
    first = [s for s in srcs if all(f.dominates(s[0], o[0]) for o in srcs)]
    if len(first) != 1:
        raise AnchorError("MarkdownIterator::next: no unique first line read")
    bb, t, _ = first[0]
    se = success_edge(f, bb, t)
    if se is None:
        raise AnchorError("MarkdownIterator::next: cannot find the `got a line` edge of the first read")
    sb, target, _ = se
    reach = set(explore(f, target).keys())
    nones = none_results(f)
    n = 0
    for nb, why in sorted(nones):
        if nb in reach:
            n += 1
            ctx.bad("early-none#%d" % n, f.loc(nb),
                    "after a line was consumed the iterator can end (%s): an unterminated fence or front-matter silently drops the token being "
                    "built and every later test of the document" % why)
    if n == 0:
        ctx.ok("no-early-none", f.loc(sb), "once a line was read, every path yields a token (%d None results, all on the exhausted-at-boundary edge)" % len(nones))
    ctx.ok("line-reads", f.where(), "%d line reads analysed (%d through helper %s)" % (len(srcs), len([s for s in srcs if s[2] is not None]),
                                                                                     sorted(h.npath for h in helpers.values())), obligation=False)
    # MarkdownParser::parse consumes the iterator completely (no take/skip/take_while/break out of the token loop on Ok paths)
    p = prog.impl_fn("MarkdownParser", "Parser", "parse")
    bad = [mname(t) for _, t in p.calls() if mname(t) in ("Iterator::take", "Iterator::skip", "Iterator::take_while", "Iterator::skip_while", "Iterator::step_by", "Iterator::nth")]
    ctx.check(not bad, "iterator-consumed", p.where(), "MarkdownParser::parse iterates all tokens (no take/skip adaptor)", "token iterator adaptors in parse: %s" % bad)


def r6_2(ctx):
    prog = ctx.prog
    hits = list(eunit.sweep(prog, scope=lambda b: "src/parsers/" in b.file))
    n = 0
    seen = {}
    for b, bb, m, i, r in hits:
        k = seen.setdefault(b.npath, 0)
        seen[b.npath] = k + 1
        ctx.bad("char-as-byte:%s#%d" % (b.npath.split("::")[-1], k), b.loc(bb),
                "a character count (%s) is used as byte offset in %s of a str: any multi-byte character before it makes this panic "
                "(`not a char boundary`) or slice the wrong text" % (r, m))
    swept = len([b for b in prog.bodies if b.promoted is None and "src/parsers/" in b.file])
    if not hits:
        ctx.ok("no-char-as-byte", "-", "no character count reaches a str byte-offset sink in src/parsers (%d bodies swept)" % swept)
    ctrl = list(eunit.sweep(ctx.ctrl)) if ctx.ctrl else []
    ctx.control("char-index", any("control_char_index" == b.npath for b, *_ in ctrl), "fixtures/positive control_char_index")
    ctx.control("char-index-summary", any("control_char_index_via_helper" == b.npath for b, *_ in ctrl), "fixtures/positive control_char_index_via_helper")


def _guard_set(op, k, const_left, domain=range(0, 12)):
    f = {"Lt": lambda a, b: a < b, "Le": lambda a, b: a <= b, "Gt": lambda a, b: a > b, "Ge": lambda a, b: a >= b,
         "Eq": lambda a, b: a == b, "Ne": lambda a, b: a != b}[op]
    return {n for n in domain if (f(k, n) if const_left else f(n, k))}


def _is_fence_length(tree):
    """does this value measure the leading backtick run of the line?"""
    for n in tree.walk():
        if n.kind == "call":
            m = method_name(n.a)
            if m == "Iterator::next" and "Enumerate<" in n.a and "Chars<" in n.a:
                return "char position of the first non-backtick"
            if m in ("str::trim_start_matches", "str::strip_prefix") and any(k.kind == "const" and k.a.as_char() == "`" for k in n.walk()):
                return "length difference around trim_start_matches('`')"
            if m == "Iterator::count" and "TakeWhile<" in n.a:
                return "take_while(..).count()"
    return None


def r6_3(ctx):
    f = ctx.prog.fn("extract_code_block_start")
    o = Origins(f)
    nones = {bb for bb, why in none_results(f)}
    found = []
    for sb, st in switches(f):
        be = bool_edges(f, sb)
        if be is None:
            continue
        tree = cond_tree(f, sb, o)
        if tree.kind != "bin" or tree.a not in ("Lt", "Le", "Gt", "Ge", "Eq", "Ne"):
            continue
        a, b = tree.kids
        ka = a.a.as_int() if a.kind == "const" else None
        kb = b.a.as_int() if b.kind == "const" else None
        if (ka is None) == (kb is None):
            continue
        var = b if ka is not None else a
        what = _is_fence_length(var)
        if what is None:
            continue
        tt, tf = be

        def leads_to_none(tg):
            cur = tg
            for _ in range(4):
                if cur in nones:
                    return True
                s = f.succ(cur)
                if len(s) != 1 or f.blocks[cur]["term"]["k"] != "goto":
                    return cur in nones
                cur = s[0]
            return False
        t_none, f_none = leads_to_none(tt), leads_to_none(tf)
        if t_none == f_none:
            continue
        sat = _guard_set(tree.a, ka if ka is not None else kb, ka is not None)
        none_set = sat if t_none else set(range(0, 12)) - sat
        found.append((sb, none_set, what, tree.show()))
    if not found:
        raise AnchorError("extract_code_block_start: no comparison of the fence length with a constant that rejects short fences")
    for sb, none_set, what, shown in found:
        ctx.check(none_set == {0, 1, 2}, "fence-threshold", f.loc(sb),
                  "a line is not a fence opener exactly when it starts with 0, 1 or 2 backticks (%s)" % what,
                  "lines with %s leading backticks are rejected as fence openers but the CommonMark threshold is 3: a line starting with two "
                  "backticks (inline code such as ``x``) opens a `code block` that swallows the following tests (%s; guard %s)" % (sorted(none_set), what, shown[:80]))


def _len_minus_sites(prog):
    for b in prog.bodies:
        if b.promoted is not None or not any(s in b.file for s in SCOPE_LEN_MINUS):
            continue
        o = None
        for bi, blk in enumerate(b.blocks):
            if blk["cleanup"]:
                continue
            for si, st in enumerate(blk["stmts"]):
                if st["k"] != "assign" or st["rv"]["k"] != "bin" or st["rv"]["op"] not in ("Sub", "SubWithOverflow"):
                    continue
                if o is None:
                    o = Origins(b)
                l = peel(o.operand(st["rv"]["a"]))
                r = o.operand(st["rv"]["b"])
                if l.kind == "call" and method_name(l.a) in ("Vec::len", "slice::len", "str::len", "String::len", "len", "VecDeque::len") and r.kind == "const" and (r.a.as_int() or 0) >= 1:
                    yield b, o, bi, si, st, l, r.a.as_int()


def _collection_of(len_node):
    c = peel(len_node.kids[0])
    return c.show()


def r6_4(ctx):
    prog = ctx.prog
    n_sites = 0
    for b, o, bi, si, st, lnode, k in _len_minus_sites(prog):
        coll = _collection_of(lnode)
        # is the result used as an index into the same collection?
        res_local = st["lhs"]["l"]
        used_as_index = False
        for bb2, t in b.calls():
            if mname(t) in ("Index::index", "IndexMut::index_mut", "slice::get_unchecked") and len(t["args"]) >= 2:
                idx = o.operand(t["args"][1])
                base = peel(o.operand(t["args"][0])).show()
                if any(n.kind == "bin" and n.at == (bi, si) for n in idx.walk()) and base == coll:
                    used_as_index = True
        for bi2, blk in enumerate(b.blocks):
            for st2 in blk["stmts"]:
                if st2["k"] == "assign":
                    for pl in _places_of(st2):
                        for p in pl["p"]:
                            if isinstance(p, dict) and "idx" in p:
                                idx = o.local(p["idx"])
                                if any(n.kind == "bin" and n.at == (bi, si) for n in idx.walk()):
                                    used_as_index = True
        if not used_as_index:
            continue
        n_sites += 1
        # guard: dominated by an edge implying len(coll) >= k
        guarded = _len_guard(b, o, bi, coll, k)
        key = "len-minus:%s" % b.npath.split("::")[-1] if not b.npath.startswith("<") else "len-minus:" + b.npath
        ctx.check(guarded is not None, key, stmt_loc(b, bi, si),
                  "`%s.len() - %d` used as index is guarded (%s)" % (coll[:40], k, guarded),
                  "`%s[%s.len() - %d]` is evaluated without a guard that the collection is non-empty: an empty collection (e.g. a scrut "
                  "block without any line) underflows and panics" % (coll[:40], coll[:40], k))
    ctx.ok("len-minus-sweep", "-", "%d `len()-k` index sites found in %s" % (n_sites, list(SCOPE_LEN_MINUS)), obligation=False)


def _places_of(st):
    out = [st["lhs"]]
    rv = st.get("rv", {})
    for key in ("place",):
        if key in rv:
            out.append(rv[key])
    for key in ("op", "a", "b"):
        v = rv.get(key)
        if isinstance(v, dict):
            pl = v.get("copy") or v.get("move")
            if pl:
                out.append(pl)
    return out


def _len_guard(b, o, bi, coll, k):
    """a dominating edge that implies len(coll) >= k"""
    for sb, stt in switches(b):
        be = bool_edges(b, sb)
        if be is None:
            continue
        tree = cond_tree(b, sb, o)
        neg = False
        while tree.kind == "un" and tree.a == "Not":
            neg = not neg
            tree = tree.kids[0]
        tt, tf = be
        implied_edge = None
        if tree.kind == "call" and method_name(tree.a) in ("Vec::is_empty", "slice::is_empty", "str::is_empty", "String::is_empty", "is_empty") and peel(tree.kids[0]).show() == coll and k == 1:
            implied_edge = tt if neg else tf
            desc = "!is_empty()"
        elif tree.kind == "bin" and tree.a in ("Gt", "Ge", "Lt", "Le", "Ne", "Eq"):
            a, c = peel(tree.kids[0]), peel(tree.kids[1])
            la = a.kind == "call" and method_name(a.a).endswith("len") and peel(a.kids[0]).show() == coll
            lc = c.kind == "call" and method_name(c.a).endswith("len") and peel(c.kids[0]).show() == coll
            kc = c.a.as_int() if c.kind == "const" else None
            ka = a.a.as_int() if a.kind == "const" else None
            desc = tree.show()[:60]
            if la and kc is not None:
                sat = {n for n in range(0, 8) if {"Gt": n > kc, "Ge": n >= kc, "Lt": n < kc, "Le": n <= kc, "Ne": n != kc, "Eq": n == kc}[tree.a]}
                if min(sat, default=0) >= k:
                    implied_edge = tf if neg else tt
                elif min(set(range(0, 8)) - sat, default=0) >= k:
                    implied_edge = tt if neg else tf
            elif lc and ka is not None:
                sat = {n for n in range(0, 8) if {"Gt": ka > n, "Ge": ka >= n, "Lt": ka < n, "Le": ka <= n, "Ne": ka != n, "Eq": ka == n}[tree.a]}
                if min(sat, default=0) >= k:
                    implied_edge = tf if neg else tt
                elif min(set(range(0, 8)) - sat, default=0) >= k:
                    implied_edge = tt if neg else tf
        if implied_edge is not None and bi in b.reachable(implied_edge) and bi not in b.reachable(0, removed_edges=[(sb, implied_edge)]):
            return desc
    # `if let Some(x) = coll.last()` style needs no subtraction; a push to coll dominating the use also implies len >= 1
    for bb2, t in b.calls():
        if mname(t) in ("Vec::push",) and peel(o.operand(t["args"][0])).show() == coll and b.dominates(bb2, bi) and k == 1:
            return "a push to the collection dominates the use"
    return None


def _increments(f, field):
    """blocks/stmts storing `self.<field> + 1` back into `self.<field>`"""
    out = []
    o = Origins(f)
    for bi, blk in enumerate(f.blocks):
        if blk["cleanup"]:
            continue
        for si, st in enumerate(blk["stmts"]):
            if st["k"] == "assign" and [p["n"] for p in st["lhs"]["p"] if isinstance(p, dict) and "n" in p][-1:] == [field]:
                src = o.rvalue(st["rv"])
                if src.kind == "field" and src.a == "0" and src.kids[0].kind == "bin" and src.kids[0].a in ("AddWithOverflow", "Add"):
                    a, b = src.kids[0].kids
                    if b.kind == "const" and b.a.as_int() == 1 and peel(a).kind == "field" and peel(a).a == field:
                        out.append((bi, si))
                        continue
                out.append((bi, si, "other:" + src.show()[:60]))
    return out


def _segment_counts(f, start, stops, events):
    """set of event counts over all paths from `start` to the next stop block / return (dataflow
    over the region with inner back edges cut; see c20._segment_events)"""
    from .c20 import _segment_events
    ev = {b: {"e": n} for b, n in events.items()}
    if not ev:
        ev = {}
    keys, outs = _segment_events(f, start, set(stops), ev if ev else {-1: {"e": 0}})
    return {cnt[0] for how, cnt in outs}


def r6_5(ctx):
    prog = ctx.prog
    f = prog.fn("<MarkdownIterator<'_> as Iterator>::next")
    srcs, helpers = source_calls(prog, f)
    bodies = [(f, [s for s in srcs if s[2] is None])] + [(h, [(bb, t, None) for bb, t in h.calls() if is_lines_next(t)]) for h in helpers.values()]
    for body, direct in bodies:
        incs = _increments(body, prog.field_by_type("MarkdownIterator", "usize", "line_index"))
        other = [i for i in incs if len(i) == 3]
        ctx.check(not other, "counter-writes:" + body.name, body.where(), "line_index is only ever incremented by one", "line_index is written as %s" % other)
        events = {}
        for i in incs:
            if len(i) == 2:
                events[i[0]] = events.get(i[0], 0) + 1
        all_src_blocks = {s[0] for s in (srcs if body is f else direct)}
        if not direct:
            ctx.check(not events, "no-direct-increment:" + body.name, body.where(),
                      "%s reads lines only through the counting helper and does not touch line_index itself" % body.name,
                      "%s increments line_index although its lines come from a helper that already counts" % body.name)
            continue
        for k, (bb, t, _) in enumerate(sorted(direct)):
            se = success_edge(body, bb, t)
            if se is None:
                ctx.bad("read#%d:%s" % (k, body.name), body.loc(bb), "cannot find the success edge of this line read")
                continue
            sb, target, _ = se
            counts = _segment_counts(body, target, all_src_blocks, events)
            ctx.check(counts == {1}, "one-increment-per-line#%d:%s" % (k, body.name), body.loc(bb),
                      "between this successful line read and the next read/return line_index is incremented exactly once",
                      "line_index is incremented %s times after this read on some path: recorded line numbers drift" % sorted(counts))
    # helper calls: each helper increments exactly once on its Some path -> covered above; numbers stored in tokens are line_index - 1
    o = Origins(f)
    n = 0
    for bi, blk in enumerate(f.blocks):
        for si, st in enumerate(blk["stmts"]):
            if st["k"] == "assign" and st["rv"]["k"] == "agg" and st["rv"]["agg"] == "tuple" and len(st["rv"]["ops"]) == 2 \
                    and f.lty(st["lhs"]["l"]) in ("(usize, std::string::String)",):
                n += 1
                src = peel(o.operand(st["rv"]["ops"][0]))
                good = src.kind == "field" and src.a == "0" and src.kids[0].kind == "bin" and src.kids[0].a in ("SubWithOverflow", "Sub") \
                    and peel(src.kids[0].kids[0]).kind == "field" and peel(src.kids[0].kids[0]).a == ctx.prog.field_by_type("MarkdownIterator", "usize", "line_index") \
                    and src.kids[0].kids[1].kind == "const" and src.kids[0].kids[1].a.as_int() == 1
                ctx.check(good, "stored-number#%d" % n, stmt_loc(f, bi, si), "the number stored with a token line is line_index - 1 (0-based index of that line)",
                          "a token line is numbered %s" % src.show()[:80])


def r6_7(ctx):
    prog = ctx.prog
    p = prog.impl_fn("MarkdownParser", "Parser", "parse")
    o = Origins(p)
    adds = [(bb, t) for bb, t in p.calls() if (callee_name(t) or "").endswith("LineParser::add_testcase_body")]
    ends = [(bb, t) for bb, t in p.calls() if (callee_name(t) or "").endswith("LineParser::end_testcase")]
    if len(adds) != 1 or len(ends) < 1:
        raise AnchorError("MarkdownParser::parse: add_testcase_body=%d end_testcase=%d" % (len(adds), len(ends)))
    bb, t = adds[0]
    line = o.operand(t["args"][1])
    names = [method_name(c) for c in line.call_names()]
    bad = [n for n in names if n in ("Iterator::skip", "Iterator::take", "Iterator::filter", "Iterator::rev", "Iterator::step_by", "Iterator::skip_while",
                                     "Iterator::take_while", "str::trim", "str::trim_end", "str::trim_start")]
    from_code = any(n.kind == "field" and n.a == "code_lines" for n in line.walk())
    ctx.check(from_code and not bad, "all-code-lines", p.loc(bb), "every line of the block's code_lines reaches add_testcase_body, unfiltered and untrimmed",
              "add_testcase_body receives %s" % line.show()[:160])
    # end_testcase is called after the loop over the code lines on every non-error path of the TestCodeBlock arm
    e = prog.fn("LineParser::end_testcase")
    oe = Origins(e)
    tcs = list(aggregates(e, "TestCase", "TestCase"))
    if len(tcs) != 1:
        raise AnchorError("end_testcase constructs %d TestCase values" % len(tcs))
    eb, si, rv = tcs[0]
    fb = lambda ty, dflt: prog.field_by_type("LineParser", ty, dflt)  # noqa: E731 - parser state fields bound by type
    F_CMD, F_EXP, F_EXIT = fb("Vec<String>", "command"), fb("Vec<Expectation>", "expectations"), fb("Option<i32>", "exit_code")
    F_CFG, F_TITLE, F_START = fb("Option<TestCaseConfig>", "config"), fb("Option<String>", "title"), fb("Option<usize>", "output_start_index")
    want = {"shell_expression": lambda s: "join" in s and ("." + F_CMD) in s and '"\\n"' in s,
            "expectations": lambda s: ("." + F_EXP) in s,
            "exit_code": lambda s: s.endswith("." + F_EXIT),
            "config": lambda s: ("." + F_CFG) in s,
            "title": lambda s: ("." + F_TITLE) in s,
            "line_number": lambda s: F_START in s and "AddWithOverflow" in s and ", 1_usize" in s}
    for fld, op in zip(rv["fields"], rv["ops"]):
        shown = oe.operand(op).show()
        ctx.check(want[fld](shown) if fld in want else False, "testcase-field:" + fld, stmt_loc(e, eb, si),
                  "TestCase.%s is built from the corresponding parser state" % fld, "TestCase.%s is built from %s" % (fld, shown[:120]))
    pushes = [bb2 for bb2, t2 in e.calls() if mname(t2) == "Vec::push" and "testcases" in oe.operand(t2["args"][0]).show()]
    ctx.check(len(pushes) == 1, "one-push", e.where(), "end_testcase pushes exactly one TestCase")


def r6_9(ctx):
    """closing-fence predicate: a block is closed by any line that *starts with* the opener's backticks
    (a longer closing fence closes too); an equality / trimmed-equality test rejects longer fences"""
    prog = ctx.prog
    f = prog.fn("<MarkdownIterator<'_> as Iterator>::next")
    o = Origins(f)
    srcs, helpers = source_calls(prog, f)
    src_blocks = {x[0] for x in srcs}

    def has_read(tree):
        return any(n.kind == "call" and n.at is not None and n.at[0] in src_blocks and n.owner is f for n in tree.walk())

    def is_fence(tree):
        # component 0 of the Some payload of extract_code_block_start(..)
        for n in tree.walk():
            if n.kind == "field" and n.a == "0" and n.kids and n.kids[0].kind == "field" and n.kids[0].a == "0" and n.kids[0].kids and n.kids[0].kids[0].kind == "variant" \
                    and n.kids[0].kids[0].kids and peel(n.kids[0].kids[0].kids[0]).kind == "call" and peel(n.kids[0].kids[0].kids[0]).a.endswith("extract_code_block_start"):
                return True
        return False
    n = 0
    for sb, st in switches(f):
        be = bool_edges(f, sb)
        if be is None:
            continue
        tree = cond_tree(f, sb, o)
        while tree.kind == "un" and tree.a == "Not":
            tree = tree.kids[0]
        if tree.kind != "call" or not has_read(tree) or not is_fence(tree):
            continue
        n += 1
        m = method_name(tree.a)
        good = m == "str::starts_with" and has_read(tree.kids[0]) and is_fence(tree.kids[1]) and not [c for c in (method_name(x) for x in tree.kids[0].call_names()) if c.startswith("str::trim")]
        if m in ("PartialEq::eq", "PartialEq::ne"):
            why = ("the closing-fence test is an equality (`%s`): a line of *more* backticks than the opener no longer closes the block, so the block swallows the "
                   "following tests up to the next exactly-equal fence or the end of the document" % tree.show()[:100])
        else:
            why = ("the closing-fence test `%s` is not in the accepted form `line.starts_with(<opening fence>)`: not analysable, so it cannot be established that every "
                   "line starting with the opening fence closes the block" % tree.show()[:100])
        ctx.check(good, "closing-fence#%d" % n, f.loc(sb),
                  "a code block ends at the first line that starts with the opening fence (longer closing fences close it too)", why)
    ctx.check(n >= 2, "closing-fence-sites", f.where(), "%d closing-fence tests found (verbatim block and test block)" % n,
              "only %d closing-fence tests found in MarkdownIterator::next (2 confirmed by reading)" % n)


def r6_6(ctx):
    from . import c10
    c10.r10_6(ctx)


def r6_10(ctx):
    from . import c07
    c07.line_parser_rules(ctx)


def r6_8(ctx):
    f = ctx.prog.fn("read_file")
    o = Origins(f)
    rets = [d for d in f.defs.get(0, [])]
    ok = False
    for d in rets:
        tree = o._def(d, 0, ())
        if tree.has_call("String::from_utf8"):
            names = [method_name(c) for c in tree.call_names()]
            ok = any(n.endswith("replace_crlf") for n in names) and "read" in " ".join(names)
    ctx.check(ok, "read-normalises-crlf", f.where(), "test documents are read as bytes, passed through replace_crlf and decoded as UTF-8",
              "read_file does not normalise CRLF through replace_crlf")


def r6_12(ctx):
    """fence info string: the inline configuration starts at the first `{` of the text behind the backticks (attached or separated
    by blanks), the language is what precedes it; no other split (e.g. at whitespace) decides what the language is"""
    f = ctx.prog.fn("extract_code_block_start")
    o = Origins(f)
    brace, other = [], []
    for bb, t in f.calls():
        m = mname(t)
        if m in ("str::find", "str::split_once", "str::rfind", "str::rsplit_once", "str::split", "str::splitn", "str::split_whitespace", "str::split_ascii_whitespace",
                 "str::split_terminator", "str::char_indices", "Iterator::position"):
            pat = peel(o.operand(t["args"][1])) if len(t["args"]) > 1 else None
            is_brace = pat is not None and pat.kind == "const" and (pat.a.as_char() == "{" or pat.a.as_str() == "{")
            if is_brace and m in ("str::find", "str::split_once"):
                brace.append((bb, m))
            else:
                other.append((bb, m, pat.show()[:40] if pat is not None else ""))
    ctx.check(len(brace) == 1, "config-starts-at-brace", f.where(), "the inline configuration is located with find/split_once('{') on the info string",
              "the info string is not split at its first `{` (found %s / %s): ```lang{..} attached to the language is no longer read as language + configuration, "
              "the block is taken for a foreign language and its test silently dropped" % ([m for _, m in brace], [(m, p_) for _, m, p_ in other]))
    ctx.check(not other, "no-other-split", f.where(), "no other split of the info string decides the language",
              "the info string is also split by %s" % [(m, p_) for _, m, p_ in other])
    if len(brace) == 1:
        bb, m = brace[0]
        # the configuration component of every Some(..) result on the found-edge derives from that position
        n_cfg = 0
        for d in f.defs.get(0, []):
            tree = o._def(d, 0, ())
            if tree.kind == "agg" and tree.a[0].endswith("Some"):
                tup = peel(tree.kids[0])
                if tup.kind == "agg" and len(tup.kids) == 3:
                    cfg = peel(tup.kids[2])
                    if cfg.kind == "const":
                        continue
                    n_cfg += 1
                    ctx.check(any(n.kind == "call" and n.at == (bb, "term") for n in cfg.walk()), "config-from-brace", f.loc(d[0]),
                              "the configuration text is the info string from the `{` on", "the configuration text is %s" % cfg.show()[:80])
        ctx.check(n_cfg >= 1, "config-result", f.where(), "a result with a non-empty configuration exists")
    from . import c17
    c17.config_uncut(ctx)


def r6_16(ctx):
    """blanks around the info string decide nothing: the language that is compared with the test languages has lost leading and trailing
    blanks, the configuration text its trailing ones (```scrut<blank> is a scrut block; ```scrut {..}<blank> keeps its configuration)"""
    f = ctx.prog.fn("extract_code_block_start")
    o = Origins(f)
    n = 0
    for d in f.defs.get(0, []):
        tree = o._def(d, 0, ())
        if not (tree.kind == "agg" and tree.a[0].endswith("Some")):
            continue
        tup = peel(tree.kids[0])
        if not (tup.kind == "agg" and len(tup.kids) == 3):
            continue
        lang, cfg = tup.kids[1], tup.kids[2]
        names = {method_name(c).split("::")[-1] for c in lang.call_names()}
        both = "trim" in names or ({"trim_start", "trim_end"} <= names) or ({"trim_start_matches", "trim_end_matches"} <= names and False)
        n += 1
        ctx.check(both, "language-trimmed#%d" % n, f.loc(d[0]), "the language component has passed a trim of both ends",
                  "the language is `%s`: blanks between the backticks and the language or behind it stay part of the language, ```scrut<blank> is not a test language "
                  "and the block's test is silently dropped" % lang.show()[:100])
        if peel(cfg).kind != "const":
            cn = {method_name(c).split("::")[-1] for c in cfg.call_names()}
            ctx.check("trim" in cn or "trim_end" in cn, "config-trimmed#%d" % n, f.loc(d[0]), "the configuration text has lost trailing blanks",
                      "the configuration text is `%s`: with a trailing blank it no longer ends in `}` and the whole inline configuration is silently ignored" % cfg.show()[:100])
    if n < 2:
        ctx.bad("info-string-results", f.where(), "only %d Some((fence, language, config)) results found in extract_code_block_start (2 confirmed by reading)" % n)


def r6_17(ctx):
    """(a) F49: a code block of another language ends the paragraph that is collected as the pending title (title_paragraph is cleared in the
    VerbatimCodeBlock arm) - the title is the *nearest* preceding paragraph; (b) F54: an inline configuration that is not enclosed in braces is not
    dropped: the tokenizer stores it as it is (so that parsing it fails and names the line) - some stored config line is the info string's
    configuration component without any strip"""
    prog = ctx.prog
    p = prog.impl_fn("MarkdownParser", "Parser", "parse")
    op = Origins(p)
    # the title accumulator: the Vec whose join is handed to set_testcase_title
    acc = None
    for bb, t in p.calls():
        if (callee_name(t) or "").endswith("LineParser::set_testcase_title"):
            for n in op.operand(t["args"][1]).walk():
                if n.kind == "local":
                    pass
    from .c16 import mut_calls
    accs = []
    for l in range(len(p.locals)):
        if p.lty(l).startswith("std::vec::Vec<") and "String" in p.lty(l) and not p.lty(l).startswith("&"):
            ms = [mname(t) for _, t in mut_calls(p, l)]
            if "Vec::push" in ms and "Vec::clear" in ms:
                accs.append(l)
    if len(accs) != 1:
        raise AnchorError("MarkdownParser::parse: the pending title paragraph (a Vec<String> that is pushed and cleared) was not found (%s)" % accs)
    acc = accs[0]
    clears = [cb for cb, ct in mut_calls(p, acc) if mname(ct) == "Vec::clear"]
    ok = False
    for sb, st in switches(p):
        ve, rv = variant_edges(p, sb)
        if ve is None or "VerbatimCodeBlock" not in ve:
            continue
        back = p.back_edges()
        reg = set(p.reachable(ve["VerbatimCodeBlock"], removed_edges=back))
        for v_, tg_ in ve.items():
            if v_ != "VerbatimCodeBlock":
                reg -= set(p.reachable(tg_, removed_edges=back))
        ok = ok or any(cb in reg for cb in clears)
    ctx.check(ok, "verbatim-block-ends-title", p.where(), "the VerbatimCodeBlock arm clears the pending title paragraph",
              "a code block of another language does not end the pending title paragraph: `Intro`, a ```sh block and `Real title` directly before a scrut block give "
              "the test the title `Intro\\nReal title` instead of the nearest preceding paragraph")
    it = prog.fn("<MarkdownIterator<'_> as Iterator>::next")
    o = Origins(it)
    raw = 0
    for bi, blk in enumerate(it.blocks):
        if blk["cleanup"]:
            continue
        for st in blk["stmts"]:
            if st["k"] == "assign" and st["rv"]["k"] == "agg" and st["rv"]["agg"] == "tuple":
                for op_ in st["rv"]["ops"]:
                    tree = o.operand(op_)
                    # the store as a whole, or one alternative of it (a helper `-> Option<&str>` that was inlined yields a phi of the stripped and the raw text)
                    cands = [tree] + [k for n in tree.walk() if n.kind == "phi" for k in n.kids]
                    for cnd in cands:
                        if any(n.kind == "call" and (n.a or "").endswith("extract_code_block_start") for n in cnd.walk()) and \
                                not any(method_name(c) in ("str::strip_prefix", "str::strip_suffix") for c in cnd.call_names()):
                            raw += 1
                            break
    ctx.check(raw >= 1, "malformed-config-kept", it.where(), "a configuration that is not enclosed in braces is stored as it is (%d store(s)) and reported by the parser" % raw,
              "only the brace-enclosed form of the inline configuration is stored: `{timeout: 3s` (unterminated) or `{timeout: 3s} x` is silently dropped and the test runs "
              "without its configuration")


def _non_identity(tree, is_read, is_local=lambda n: False):
    """calls that transform the text between a line read and the place where `tree` is used: walks down from the root, through
    value-preserving wrappers and containers, and stops at crate-local functions (their results are derived values, not the line)"""
    from ..facts import TRANSPARENT
    bad = []

    def reaches(n):
        if n.kind == "call":
            if is_read(n):
                return True
            if is_local(n):
                return False
        return any(reaches(k) for k in n.kids)

    def walk(n):
        if n.kind == "call":
            if is_read(n) or is_local(n):
                return
            m = method_name(n.a)
            if m in TRANSPARENT or m in ("Try::branch", "Option::unwrap", "Option::expect"):
                for k in n.kids[:1]:
                    walk(k)
                return
            if reaches(n):
                bad.append(n)
            return
        for k in n.kids:
            if n.kind == "phi" and peel(k).kind == "call" and method_name(peel(k).a) == "FromResidual::from_residual":
                continue        # the None / Err propagation alternative of `?` carries no text
            walk(k)
    walk(tree)
    return bad


def r6_15(ctx):
    """document lines reach the tokens verbatim: (a) the line source helper returns the `Lines::next` item itself; (b) what the
    tokenizer stores of a line it read (token fields, pushed tuples) is that line, copied - not trimmed, cut or re-cased. Trailing
    blanks are part of an expectation, and `> ` (with the blank) is what continues a command."""
    prog = ctx.prog
    f = prog.fn("<MarkdownIterator<'_> as Iterator>::next")
    srcs, helpers = source_calls(prog, f)
    n = 0
    # (a) helpers
    for (crate, path), hb in sorted(helpers.items()):
        o = Origins(hb)
        r = o.local(0)
        alts = r.kids if r.kind == "phi" else [r]
        for a in alts:
            a = peel(a)
            if a.kind == "call" and "Lines<" in a.a and method_name(a.a) == "Iterator::next":
                n += 1
                ctx.ok("source-verbatim:" + hb.npath.split("::")[-1], hb.where(), "%s returns the Option of Lines::next itself" % hb.npath)
            if a.kind == "agg" and a.a[0] == "Option::Some":
                bad = _non_identity(a.kids[0], lambda x: x.kind == "call" and "Lines<" in x.a and method_name(x.a) == "Iterator::next")
                n += 1
                ctx.check(not bad, "source-verbatim:" + hb.npath.split("::")[-1], hb.where(), "%s returns the item of Lines::next unchanged" % hb.npath,
                          "%s passes the document line through %s before handing it to the tokenizer: every line of the document - also those inside ```scrut "
                          "blocks, where trailing whitespace is part of the expectation and `> ` continues a command - is altered" % (
                              hb.npath, sorted({method_name(b.a) for b in bad})))
    # (b) stores in the tokenizer
    o = Origins(f)
    src_blocks = {s[0] for s in srcs}

    def is_read(x):
        return x.kind == "call" and x.at is not None and x.at[0] in src_blocks and x.owner is f
    stores = []
    for bb, t in f.calls():
        if mname(t) == "Vec::push":
            stores.append((f.loc(bb), o.operand(t["args"][1])))
    for bi, blk in enumerate(f.blocks):
        if blk["cleanup"]:
            continue
        for si, st in enumerate(blk["stmts"]):
            if st["k"] == "assign" and st["rv"]["k"] == "agg" and st["rv"]["agg"] in ("adt", "array", "tuple"):
                for op in st["rv"]["ops"]:
                    stores.append((stmt_loc(f, bi, si), o.operand(op)))
    seen = set()
    for where, tree in stores:
        if not any(is_read(x) for x in tree.walk()):
            continue
        bad = _non_identity(tree, is_read, lambda x: _is_local_call(prog, f, x))
        key = tuple(sorted({method_name(b.a) for b in bad}))
        n += 1
        if bad and key in seen:
            continue
        seen.add(key)
        ctx.check(not bad, "stored-verbatim" + ("" if not bad else ":" + ",".join(key)), where, "the stored text is the line that was read (copied only)",
                  "the tokenizer stores the line after passing it through %s: the token no longer holds the text that was written" % list(key))
    if n < 5:
        ctx.bad("verbatim-floor", f.where(), "only %d line stores / sources analysed (5 confirmed by reading)" % n)


def _is_local_call(prog, f, node):
    """the call node refers to a function defined in the analysed crate (derived values: fence, language, title ..)"""
    if node.at is None or node.owner is None:
        return False
    blk = node.owner.blocks[node.at[0]]
    t = blk["term"]
    return t["k"] == "call" and bool(t.get("resolved_local"))


def r6_14(ctx):
    """title: whatever is appended to the pending title paragraph is committed to the line parser before the next token is read (a fence line is
    never a Line token, so a paragraph that is only committed when a later non-title line arrives is lost when the fence follows directly)"""
    prog = ctx.prog
    p = prog.fn("MarkdownParser::parse") if prog.find_fns("MarkdownParser::parse") else prog.impl_fn("MarkdownParser", "Parser", "parse")
    o = Origins(p)
    back = p.back_edges()
    sets = [bb for bb, t in p.calls() if (callee_name(t) or "").endswith("LineParser::set_testcase_title")]
    if not sets:
        raise AnchorError("MarkdownParser::parse never calls set_testcase_title")
    # pushes onto the title paragraph: Vec<String>::push whose value derives from extract_title
    pushes = [bb for bb, t in p.calls() if mname(t) == "Vec::push" and any(n.kind == "call" and n.a.endswith("extract_title") for n in o.operand(t["args"][1]).walk())]
    ctx.check(bool(pushes), "title-pushes", p.where(), "title lines (extract_title) are collected into the pending paragraph (%d site(s))" % len(pushes),
              "no push of an extract_title result found")
    tails = {b for b, h in back}
    for k, pb in enumerate(pushes):
        esc = set(p.reachable(p.blocks[pb]["term"]["target"], removed_blocks=sets))
        leaks = sorted((esc & tails) | (esc & set(p.return_blocks())))
        ctx.check(not leaks, "title-committed#%d" % k, p.loc(pb),
                  "after a title line is appended the joined paragraph is handed to set_testcase_title before the next token is read",
                  "a title line can be appended without the paragraph being committed in the same iteration (blocks %s reach the next token first): a heading or "
                  "paragraph directly followed by the opening fence is lost, the test gets a stale or empty title" % leaks)
    for sb in sets:
        arg = o.operand(p.blocks[sb]["term"]["args"][1])
        ctx.check(any(n.kind == "call" and method_name(n.a).endswith("join") for n in arg.walk()), "title-joined", p.loc(sb),
                  "the committed title is the joined paragraph", "set_testcase_title receives %s" % arg.show()[:80])


def run(ctx):
    ctx.run_rule("R6.1", "MarkdownIterator::next: once a line is consumed no path ends the iteration (no `?`/None after the first read); parse consumes all tokens [E-PATH]", r6_1, floor=2)
    ctx.run_rule("R6.2", "no character count is used as a str byte offset in src/parsers [E-UNIT, crate-wide dataflow with summaries]", r6_2, floor=1)
    ctx.run_rule("R6.3", "extract_code_block_start rejects exactly the lines with 0..2 leading backticks [E-TABLE on the guard]", r6_3, floor=1)
    ctx.run_rule("R6.4", "every `x[x.len()-k]` in parsers/generators/renderers/diff/expectation is dominated by a non-emptiness guard [E-PATH]", r6_4, floor=1)
    ctx.run_rule("R6.5", "line counter pairing: exactly one line_index increment per consumed line; stored numbers are line_index-1 [E-STATE by segment enumeration]", r6_5, floor=3)
    ctx.run_rule("R6.6", "consumed-line conservation: each line read by the tokenizer is stored in exactly one token field or consumed as a delimiter on every path (shared with C10 R10.6) [E-STATE by dataflow]", r6_6, floor=4)
    ctx.run_rule("R6.7", "parse feeds every code line to add_testcase_body; end_testcase builds the TestCase from the parser state [E-FLOW]", r6_7, floor=7)
    ctx.run_rule("R6.10", "line parser: `$ ` starts and `> ` continues a command (exact prefixes), body text stored unmodified, expectation / exit-code lines unmodified (shared with C07 R7.2) [E-FLOW]", r6_10, floor=4)
    ctx.run_rule("R6.11", "total parsing: no unwrap/expect on a fallible text conversion in parsers / expectation / rules / config (shared with C07 R7.5) [E-SITE]", c07.total_parsing_rules, floor=5)
    ctx.run_rule("R6.12", "fence info string: configuration = from the first `{` on, language = what precedes it; no other split [E-TABLE of accepted forms]", r6_12, floor=3)
    ctx.run_rule("R6.13", "parser state hygiene: every Ok path of LineParser::end_testcase flushes the state or resets the parsed exit code (shared with C07 R7.6) [E-PATH must-pass]", c07.parser_state_rules, floor=2)
    ctx.run_rule("R6.14", "title: every line appended to the pending title paragraph is committed (set_testcase_title(join)) before the next token is read [E-PATH must-pass]", r6_14, floor=3)
    ctx.run_rule("R6.17", "the nearest preceding paragraph: a foreign code block ends the pending title (F49); a configuration not enclosed in braces is kept and reported, not dropped (F54) [E-PATH, E-FLOW]", r6_17, floor=2)
    ctx.run_rule("R6.16", "info string: blanks around it decide nothing - the language has lost leading and trailing blanks, the configuration its trailing ones (F28) [E-FLOW]", r6_16, floor=3)
    ctx.run_rule("R6.15", "lines verbatim: the line source returns the Lines::next item itself and every token field / pushed tuple holds the read line copied only (no trim / cut / case change) (shared with C10 R10.11) [E-FLOW]", r6_15, floor=5)
    ctx.run_rule("R6.9", "closing-fence predicate is a prefix test against the opener's fence (equality would reject longer closing fences) [E-TABLE of accepted forms]", r6_9, floor=3)
    ctx.run_rule("R6.8", "read_file normalises CRLF through replace_crlf before parsing [E-FLOW]", r6_8, floor=1)
