"""C11 — escaping is lossless and produces printable text (table and shape clauses)."""
from ..cfgq import bool_edges, cond_tree, stmt_loc
from ..facts import AnchorError, Origins, callee_name, method_name, mname, peel
from ..fmtq import FmtError, pieces
from . import escape_tables as et

PRINTABLE = set(range(0x20, 0x7f))


def r11_1(ctx):
    prog = ctx.prog
    ef, enc = et.encoder_table(prog)
    uf, unesc, unesc_other, uintro = et.unescape_table(prog)
    rf, rintro, res, res_other = et.resolve_table(prog)
    bad_rt, bad_print = [], []
    for b in range(256):
        text = et.encode_byte(enc, b)
        if not all(ord(c) in PRINTABLE for c in text):
            bad_print.append(b)
        if b == 0x0a:
            continue
        got = et.decode(unesc, unesc_other, res, res_other, text)
        if got != bytes([b]):
            bad_rt.append((b, text, got))
    ctx.check(not bad_print, "encoder-printable", ef.where(), "every output of byte_to_ascii consists of printable ASCII (256 bytes checked)",
              "byte_to_ascii emits non-printable text for bytes %s" % ["0x%02x" % b for b in bad_print[:8]])
    ctx.check(not bad_rt, "single-byte-roundtrip", ef.where(), "decode(encode(b)) == [b] for every byte except LF (255 bytes, tables of the current source)",
              "decode(encode(b)) != [b]: %s" % [("0x%02x" % b, t, g) for b, t, g in bad_rt[:6]])
    ident = {b for b in range(256) if enc[b] == ("id",)}
    want = PRINTABLE - {ord("\\")}
    ctx.check(ident == want, "identity-set", ef.where(), "bytes emitted unchanged are exactly 0x20..=0x7e minus the introducer `\\`",
              "identity set differs: extra %s missing %s" % (sorted("0x%02x" % b for b in ident - want)[:6], sorted("0x%02x" % b for b in want - ident)[:6]))
    hexes = {enc[b][1:] for b in range(256) if enc[b][0] == "hex"}
    ctx.check(hexes == {(2, True, "\\x")}, "hex-format", ef.where(), "non-printable bytes are written as `\\x` + two zero-padded lowercase hex digits",
              "hex escape formats in use: %s" % sorted(map(str, hexes)))
    # adjacency: all ordered pairs (backslashes next to control characters etc.)
    bad_pairs = []
    texts = {b: et.encode_byte(enc, b) for b in range(256)}
    n = 0
    for b1 in range(256):
        if b1 == 0x0a:
            continue
        for b2 in range(256):
            if b2 == 0x0a:
                continue
            n += 1
            got = et.decode(unesc, unesc_other, res, res_other, texts[b1] + texts[b2])
            if got != bytes([b1, b2]):
                bad_pairs.append((b1, b2))
                if len(bad_pairs) > 5:
                    break
        if len(bad_pairs) > 5:
            break
    ctx.check(not bad_pairs, "pair-roundtrip", ef.where(), "decode(encode(b1)+encode(b2)) == [b1,b2] for all %d ordered byte pairs (tables)" % n,
              "adjacent encodings are mis-decoded for byte pairs %s" % [("0x%02x" % a, "0x%02x" % b) for a, b in bad_pairs])
    # longer words over class representatives: the introducer, every letter either decoder gives a meaning to, hex digits,
    # bytes whose encodings end/start with those, and one member of every encoder class
    reps = sorted({ord(c) for c in "\\xnrt0a7fF9g (\""} | {0x00, 0x09, 0x0d, 0x1b, 0x7f, 0x80, 0xc3, 0xff}
                  | {ord(k) for k in unesc if isinstance(k, str) and len(k) == 1} | {ord(k) for k in res if isinstance(k, str) and len(k) == 1})
    reps = [b for b in reps if b != 0x0a and b < 256]
    depth = 4 if ctx.tier == "thorough" else 3
    import itertools
    bad_words, m = [], 0
    for k in range(3, depth + 1):
        for w in itertools.product(reps, repeat=k):
            m += 1
            if et.decode(unesc, unesc_other, res, res_other, "".join(texts[b] for b in w)) != bytes(w):
                bad_words.append(w)
                if len(bad_words) > 5:
                    break
        if len(bad_words) > 5:
            break
    ctx.check(not bad_words, "word-roundtrip", ef.where(), "decode(encode(w)) == w for all %d words of length 3..%d over %d class representatives" % (m, depth, len(reps)),
              "encodings of longer words are mis-decoded: %s" % [" ".join("0x%02x" % b for b in w) for w in bad_words])
    ctx.note("R11.1 evaluated %d single bytes, %d ordered pairs and %d words of length 3..%d over %d representatives against the tables extracted from the current MIR" % (255, n, m, depth, len(reps)))


def _has_unprintable_set(prog):
    """the set of byte values b for which has_unprintable_ascii(&[b]) is true, by case folding over the current MIR: the closure(s) handed to
    Iterator::any are evaluated per byte, `is_ascii` on a one-byte slice is b < 128, and the function's own boolean structure is followed
    with those answers (so `!matches!(b, RANGE)`, `b < 0x20 || b > 0x7e`, `!bytes.is_ascii() || bytes.iter().any(..)` .. are all decided)"""
    from ..casefold import cases
    f = prog.fn("has_unprintable_ascii")
    closures = prog.closures_of(f)
    if not closures:
        raise AnchorError("has_unprintable_ascii: no per-byte closure")

    def closure_value(cb, b):
        rs = [r for r in cases(cb, lambda pl: b if (pl["l"] == 2 and pl["p"] == ["*"]) else None) if r["end"] == "return"]
        vals = {r["known"].get(0) for r in rs}
        if len(vals) != 1 or None in vals:
            raise AnchorError("has_unprintable_ascii closure: byte 0x%02x undecided (%s)" % (b, vals))
        return int(bool(vals.pop()))
    by_def = {cb.path: cb for cb in closures}
    out = set()
    for b in range(256):
        def oracle(t, val, b=b):
            m = mname(t) or ""
            if m.endswith("is_ascii"):
                return int(b < 128)
            if m in ("Iterator::any", "Iterator::all"):
                # the closure operand
                cands = []
                for a in t["args"][1:]:
                    pl = a.get("move") or a.get("copy")
                    d = f.single_def(pl["l"]) if pl and not pl["p"] else None
                    if d and d[2] == "assign" and d[3]["k"] == "agg" and d[3].get("agg") == "closure" and d[3].get("def") in by_def:
                        cands.append(by_def[d[3]["def"]])
                if len(cands) != 1:
                    if len(closures) == 1:
                        cands = closures
                    else:
                        return None
                return closure_value(cands[0], b)
            return None
        rs = [r for r in cases(f, lambda pl: None, oracle) if r["end"] == "return"]
        vals = {r["known"].get(0) for r in rs}
        if len(vals) != 1 or None in vals:
            raise AnchorError("has_unprintable_ascii: byte 0x%02x undecided (%s)" % (b, vals))
        if vals.pop():
            out.add(b)
    return closures[0], out



class _Unit:
    """how escaped_printable_unicode treats one character: a `.map(|c| ..)` closure (emissions = its return values) or the
    body of a `for c in s.chars()` loop (emissions = pushes onto the result string)"""

    def __init__(self, prog):
        from ..cfgq import variant_edges
        self.prog = prog
        u = self.u = prog.fn("escaped_printable_unicode")
        cls = [c for c in prog.closures_of(u) if any(method_name(callee_name(t, resolved=False) or "").endswith("is_other") for _, t in c.calls())
               and any((callee_name(t) or "").endswith("escaped_printable_ascii") for _, t in c.calls())]
        if len(cls) == 1:
            self.kind, self.body, self.start, self.stop = "closure", cls[0], 0, ()
            self.o = Origins(self.body)
            self.is_char = lambda pl: pl["l"] == 2 and not pl["p"]
            self.flag_closures = [c for c in prog.closures_of(u) if c is not cls[0]]
            return
        nexts = [(bb, t) for bb, t in u.calls() if mname(t) == "Iterator::next" and "Chars" in (t.get("self_ty") or "")]
        inner = any(method_name(callee_name(t, resolved=False) or "").endswith("is_other") for _, t in u.calls())
        if len(nexts) != 1 or not inner:
            raise AnchorError("escaped_printable_unicode: neither a per-char closure nor a per-char loop found")
        nb, nt = nexts[0]
        ve, rv = variant_edges(u, nt["target"])
        if ve is None or "Some" not in ve:
            raise AnchorError("escaped_printable_unicode: chars().next() is not matched")
        self.kind, self.body, self.start = "loop", u, ve["Some"]
        self.o = Origins(u)
        heads = {h for _, h in u.back_edges()}
        self.stop = tuple(heads)
        # the char local: assigned from (next as Some).0 in the first body block
        ch = None
        for st in u.blocks[self.start]["stmts"]:
            if st["k"] == "assign" and not st["lhs"]["p"] and st["rv"]["k"] == "use":
                src = st["rv"]["op"].get("copy") or st["rv"]["op"].get("move")
                if src and src["l"] == nt["dest"]["l"] and src["p"]:
                    ch = st["lhs"]["l"]
        if ch is None:
            raise AnchorError("escaped_printable_unicode: loop variable not found")
        self.ch = ch

        ch_canon = u.canon_place({"l": ch, "p": []})

        def is_char(pl):
            return (pl["l"] == ch and not pl["p"]) or u.canon_place(pl) == ch_canon
        self.is_char = is_char
        self.flag_closures = list(prog.closures_of(u))
        # result string: the local moved into _0
        self.result = None
        r = peel(self.o.local(0))
        for n in r.walk():
            if n.kind == "call" and method_name(n.a) in ("String::new", "String::with_capacity") and n.at is not None:
                self.result = u.blocks[n.at[0]]["term"]["dest"]["l"]

    def where(self):
        return self.body.where()

    def emissions(self, blocks=None):
        """[(bb, kind, tree)] with kind in raw | doubled | escaped | other"""
        b, o = self.body, self.o
        if blocks is not None:
            # origin trees along these blocks only: a result that is returned through one shared `_0 = move tmp` (e.g. after a per-character
            # helper was inlined) resolves to the definition on this path instead of a phi over all arms
            o = Origins(b, only_blocks=blocks)
        out = []
        if self.kind == "closure":
            for d in b.defs.get(0, []):
                if blocks is not None and d[0] not in blocks:
                    continue
                top = o._def(d, 0, ())
                # a result merged from several arms (phi) is split into its arms, each located at the block that computes it
                arms = [(d[0], top)]
                if peel(top).kind == "phi":
                    arms = []
                    for k_ in peel(top).kids:
                        at_ = next((n.at[0] for n in k_.walk() if n.at is not None), d[0])
                        arms.append((at_, k_))
                for blk_, tree in arms:
                    tree = peel(tree) if peel(tree).kind == "call" else tree
                    src = peel(tree.kids[0]) if tree.kind == "call" and tree.kids else tree
                    is_char = src.kind == "arg" and src.a == 2
                    if tree.kind == "call" and method_name(tree.a) == "ToString::to_string" and src.kind == "const" and src.a.as_str() == "\\\\":
                        out.append((blk_, "doubled", tree))
                    elif tree.kind == "call" and method_name(tree.a) == "ToString::to_string" and is_char:
                        out.append((blk_, "raw", tree))
                    elif tree.kind == "call" and tree.a.endswith("escaped_printable_ascii"):
                        out.append((blk_, "escaped", tree))
                    else:
                        out.append((blk_, "other", tree))
            return out
        from .c16 import mut_calls
        if self.result is None:
            raise AnchorError("escaped_printable_unicode: result string not found")
        for bb, t in mut_calls(b, self.result):
            if blocks is not None and bb not in blocks:
                continue
            m = mname(t)
            if m not in ("String::push", "String::push_str"):
                out.append((bb, "other", o.operand(t["args"][1]) if len(t["args"]) > 1 else None))
                continue
            tree = o.operand(t["args"][1])
            src = peel(tree)
            pl = t["args"][1].get("copy") or t["args"][1].get("move")
            if m == "String::push_str" and src.kind == "const" and src.a.as_str() == "\\\\":
                out.append((bb, "doubled", tree))
            elif m == "String::push" and pl is not None and self.is_char(pl):
                out.append((bb, "raw", tree))
            elif m == "String::push_str" and any(n.kind == "call" and n.a.endswith("escaped_printable_ascii") for n in tree.walk()):
                out.append((bb, "escaped", tree))
            else:
                out.append((bb, "other", tree))
        return out

    def flag_is_any_other(self, fork_block):
        """the bool decided in `fork_block` is `s.chars().any(|c| c.is_other())`"""
        b, o = self.body, self.o
        t = b.blocks[fork_block]["term"]
        n = peel(o.operand(t["discr"]))
        if self.kind == "closure":
            if n.kind == "field" and str(n.a).isdigit():
                from .c16 import _upvar_origin
                up = _upvar_origin(self.prog, b, int(n.a))
                return up is not None and up.has_call("Iterator::any") and _any_is_other(self.prog, self.u, up)
            return False
        return n.has_call("Iterator::any") and _any_is_other(self.prog, self.u, n)


def r11_2(ctx):
    prog = ctx.prog
    # ascii: raw rendering only under !has_unprintable, otherwise byte_to_ascii for every byte
    f = prog.fn("escaped_printable_ascii")
    o = Origins(f)
    guard = None
    for bb, t in f.calls():
        if (callee_name(t) or "").endswith("has_unprintable_ascii"):
            nxt = t["target"]
            be = bool_edges(f, nxt)
            if be:
                guard = (nxt, be)
    if guard is None:
        raise AnchorError("escaped_printable_ascii: no branch on has_unprintable_ascii(bytes)")
    gb, (t_true, t_false) = guard
    for d in f.defs.get(0, []):
        tree = o._def(d, 0, ())
        bb = d[0]
        uses_table = any(n.kind == "const" and n.a.fn_item() and n.a.fn_item().endswith("byte_to_ascii") for n in tree.walk())
        root = peel(tree)
        if not uses_table and root.kind == "call" and method_name(root.a) in ("String::new", "String::with_capacity") and root.at is not None:
            # explicit form: `for byte in bytes { out.push_str(&byte_to_ascii(byte)) }`
            from .c16 import mut_calls
            local = f.blocks[root.at[0]]["term"]["dest"]["l"]
            muts = mut_calls(f, local)
            ok_all = bool(muts)
            for mb, mt in muts:
                arg = o.operand(mt["args"][1]) if len(mt["args"]) > 1 else None
                via = arg is not None and any(n.kind == "call" and n.a.endswith("byte_to_ascii") for n in arg.walk()) and \
                    any(n.kind == "call" and method_name(n.a) == "Iterator::next" for n in arg.walk()) and any(n.kind == "arg" and n.a == 1 for n in arg.walk()) and \
                    not any(n.kind == "call" and method_name(n.a) in ("Iterator::skip", "Iterator::take", "Iterator::filter", "Iterator::step_by") for n in arg.walk())
                if mname(mt) != "String::push_str" or not via:
                    ok_all = False
            uses_table = ok_all
        raw = tree.has_call("String::from_utf8_lossy", "String::from_utf8", "str::from_utf8")
        on_true = bb in f.reachable(t_true) and bb not in f.reachable(0, removed_edges=[(gb, t_true)])
        on_false = bb in f.reachable(t_false) and bb not in f.reachable(0, removed_edges=[(gb, t_false)])
        if uses_table:
            ctx.check(on_true and not raw, "ascii-escaped-branch", f.loc(bb), "with unprintable bytes every byte goes through byte_to_ascii (which escapes `\\`)")
        elif raw:
            ctx.check(on_false, "ascii-raw-branch", f.loc(bb), "bytes are rendered raw only when has_unprintable_ascii is false (no escape in that rendering)",
                      "raw rendering (introducer `\\` unchanged) is reachable when escapes are present")
        else:
            ctx.bad("ascii-branch", f.loc(bb), "unrecognised rendering in escaped_printable_ascii: %s" % tree.show()[:120])
    cl, unp = _has_unprintable_set(prog)
    ef, enc = et.encoder_table(prog)
    esc = {b for b in range(256) if enc[b] != ("id",)} - {ord("\\")}
    ctx.check(unp == esc, "ascii-guard-agrees", cl.where(), "has_unprintable_ascii is true exactly for the bytes byte_to_ascii escapes (other than `\\`)",
              "has_unprintable_ascii and byte_to_ascii disagree on %s" % sorted("0x%02x" % b for b in unp ^ esc)[:8])
    # unicode: the per-char unit must not emit `\\` raw when any escape is emitted in the same rendering
    unit = _Unit(prog)
    c = unit.body

    def oracle(t, val):
        m = method_name(callee_name(t, resolved=False) or "")
        if m.endswith("is_other") and val(t["args"][0]) == ord("\\"):
            return 0
        return None
    rs = et.follow_all(c, ord("\\"), unit.is_char, oracle, start=unit.start, stop=unit.stop)
    for r in rs:
        em = unit.emissions(set(r["path"]))
        if len(em) != 1:
            ctx.bad("unicode-backslash", unit.where(), "cannot determine what is emitted for `\\` (%d emissions on a path)" % len(em))
            continue
        bb, kind, tree = em[0]
        where = c.loc(bb)
        if kind == "doubled":
            ctx.ok("unicode-backslash-doubled", where, "`\\` is doubled on this path")
            continue
        if kind == "raw":
            # raw emission: acceptable only on the false edge of a flag that is `any(is_other)` of the same string
            guarded = False
            for fb, tg in r["forks"]:
                be = bool_edges(c, fb)
                if be and tg == be[1] and unit.flag_is_any_other(fb):
                    guarded = True
            ctx.check(guarded, "unicode-backslash-raw", where,
                      "`\\` is emitted unchanged only when no character of the line is escaped (flag = chars().any(is_other) is false)",
                      "escaped_printable_unicode emits the decoder's introducer `\\` unchanged while other characters of the same line are "
                      "escaped: `a\\tb<ESC>` renders as `a\\tb\\x1b (escaped)` and `\\t` decodes to TAB")
            continue
        ctx.bad("unicode-backslash", where, "unrecognised rendering of `\\`: %s" % (tree.show()[:120] if tree is not None else "?"))


def _any_is_other(prog, body, node):
    for n in node.walk():
        if n.kind == "call" and method_name(n.a) == "Iterator::any":
            cl = peel(n.kids[1])
            if cl.kind == "agg" and cl.a[0].startswith("closure "):
                cb = prog.body_by_def(cl.a[0][len("closure "):], body.crate)
                if cb and any(method_name(callee_name(t, resolved=False) or "").endswith("is_other") for _, t in cb.calls()):
                    return True
    return False


def _expand(node, bind):
    """nodes of `node` with `arg` leaves expanded through `bind` ({arg local: caller's tree})"""
    for n in node.walk():
        yield n
        if n.kind == "arg" and bind and n.a in bind:
            yield from bind[n.a].walk()


def _has(node, bind, *methods):
    return any(n.kind == "call" and method_name(n.a) in methods for n in _expand(node, bind))


def _has_fn(node, bind, suffix):
    return any(n.kind == "call" and n.a.endswith(suffix) for n in _expand(node, bind))


def _marker_results(ctx, f, o, name, decide_bb, marked_edge, plain_edge, bind):
    """the ` (escaped)` literal is appended exactly on `marked_edge` of the decision in `decide_bb`"""
    marked = []
    for d in f.defs.get(0, []):
        tree = o._def(d, 0, ())
        try:
            ps = pieces(tree)
            lit = "".join(p for p in ps if isinstance(p, str))
        except FmtError:
            lit = None
        if lit is not None and "(escaped)" in lit:
            marked.append(d[0])
            good = d[0] in f.reachable(marked_edge) and d[0] not in f.reachable(0, removed_edges=[(decide_bb, marked_edge)])
            ctx.check(good and lit == " (escaped)" and ps[-1] == " (escaped)", name + ":marker-edge", f.loc(d[0]),
                      "` (escaped)` is appended exactly when the rendering differs from the raw text",
                      "` (escaped)` is appended on the wrong edge / with a different literal (%r)" % lit)
        else:
            good = d[0] in f.reachable(plain_edge) and d[0] not in f.reachable(0, removed_edges=[(decide_bb, plain_edge)])
            ctx.check(good, name + ":plain-edge", f.loc(d[0]), "the unmarked text is returned only when rendering == raw text")
    ctx.check(len(marked) == 1, name + ":marker-count", f.where(), "exactly one marked result")


def _invalid_utf8_is_unprintable(prog, h):
    """has_unprintable_unicode answers `true` for input that is not UTF-8 (explicit Err edge or unwrap_or(true)); anything built on
    a lossy conversion cannot"""
    o = Origins(h)
    ret = o.local(0)
    if any(n.kind == "call" and method_name(n.a) in ("String::from_utf8_lossy",) for n in ret.walk()):
        return False, "it classifies the lossy conversion of the bytes"
    for n in ret.walk():
        if n.kind == "call" and method_name(n.a) in ("Result::unwrap_or", "Result::map_or") and len(n.kids) >= 2:
            c = n.kids[1]
            strict = any(k.kind == "call" and method_name(k.a) in ("String::from_utf8", "str::from_utf8", "core::str::from_utf8", "from_utf8") for k in n.kids[0].walk())
            if c.kind == "const" and c.a.as_int() == 1 and strict:
                return True, "unwrap_or(true) on the strict conversion"
            return False, "the fallback for invalid UTF-8 is %s" % c.show()
    # explicit match: the Err edge of the strict conversion returns const true
    from ..cfgq import variant_edges, switches, explore, place_key
    for sb, st in switches(h):
        ve, rv = variant_edges(h, sb)
        if ve is None or set(ve) != {"Ok", "Err"}:
            continue
        pk = place_key(rv["place"])
        err = set(explore(h, ve["Err"], {pk: "Err"}).keys())
        vals = set()
        for d in h.defs.get(0, []):
            if d[0] in err:
                t = o._def(d, 0, ())
                vals.add(t.a.as_int() if t.kind == "const" else None)
        if vals == {1}:
            return True, "Err edge returns true"
        return False, "the Err edge returns %s" % sorted(map(str, vals))
    return False, "no strict UTF-8 conversion with a `true` fallback found"


def _marker_decision(ctx, prog, f, name, enc_fn, has_fn, bind=None, depth=0):
    o = Origins(f)
    sel = None
    for bb, t in f.calls():
        if method_name(callee_name(t, resolved=False) or "") in ("PartialEq::eq", "PartialEq::ne"):
            a, b = peel(o.operand(t["args"][0])), peel(o.operand(t["args"][1]))
            nxt = t["target"]
            be = bool_edges(f, nxt)
            if be:
                sel = (bb, nxt, be, a, b, method_name(callee_name(t, resolved=False)))
    if sel is not None:
        # form A: rendering == raw text
        bb, nxt, (t_true, t_false), a, b, m = sel
        sides = [a, b]
        esc_side = [n for n in sides if _has_fn(n, bind, enc_fn) and not _has(n, bind, "String::from_utf8_lossy")]
        raw_side = [n for n in sides if _has(n, bind, "String::from_utf8_lossy") and not _has_fn(n, bind, enc_fn)]
        both_trim = all(_has(n, bind, "BytesNewline::trim_newlines") for n in sides)
        ctx.check(len(esc_side) == 1 and len(raw_side) == 1 and both_trim, name + ":operands", f.loc(bb),
                  "compares %s(trim_newlines(line)) with the lossy text of trim_newlines(line)" % enc_fn,
                  "the marker decision compares %s with %s" % (a.show()[:80], b.show()[:80]))
        eq_edge = t_true if m == "PartialEq::eq" else t_false
        ne_edge = t_false if m == "PartialEq::eq" else t_true
        _marker_results(ctx, f, o, name, nxt, ne_edge, eq_edge, bind)
        return
    # form B: decided by the mode's has_unprintable predicate on the trimmed line
    for bb, t in f.calls():
        if (callee_name(t) or "").endswith(has_fn):
            be = bool_edges(f, t["target"])
            if not be:
                continue
            arg = o.operand(t["args"][0])
            ctx.check(_has(arg, bind, "BytesNewline::trim_newlines"), name + ":operands", f.loc(bb),
                      "%s decides on trim_newlines(line) (the text that is rendered)" % has_fn,
                      "%s decides on %s, not on the trimmed line that is rendered" % (has_fn, arg.show()[:80]))
            if has_fn.endswith("unicode"):
                ok, why = _invalid_utf8_is_unprintable(prog, prog.fn(has_fn))
                ctx.check(ok, name + ":predicate-exact", prog.fn(has_fn).where(),
                          "%s is true for every input whose rendering differs from its lossy text, including invalid UTF-8 (%s)" % (has_fn, why),
                          "%s decides the ` (escaped)` marker of %s but is not true for invalid UTF-8 (%s): such a line is rendered with escapes by the "
                          "ascii fallback (or, unmarked, as lossy U+FFFD text) and read back as different contents" % (has_fn, name, why))
            _marker_results(ctx, f, o, name, t["target"], be[0], be[1], bind)
            return
    # form C: the decision lives in a crate-local helper that receives the rendering and the trimmed line
    if depth < 2:
        from ..interp import Inliner
        inl = Inliner(prog)
        for d in f.defs.get(0, []):
            tree = peel(o._def(d, 0, ()))
            cb = inl.local_callee(f, tree) if tree.kind == "call" else None
            if cb is not None:
                nb = {}
                for i, k in enumerate(tree.kids):
                    kk = k
                    if bind:
                        from ..facts import Node
                        kk = Node("agg", ("bound", None), list(_expand(k, bind)))
                    nb[i + 1] = kk
                _marker_decision(ctx, prog, cb, name, enc_fn, has_fn, nb, depth + 1)
                return
    raise AnchorError("%s: neither a `rendering == raw text` comparison nor a %s decision found" % (name, has_fn))


def r11_3(ctx):
    for name, enc_fn, has_fn in (("escaped_expectation_ascii", "escaped_printable_ascii", "has_unprintable_ascii"),
                                 ("escaped_expectation_unicode", "escaped_printable_unicode", "has_unprintable_unicode")):
        _marker_decision(ctx, ctx.prog, ctx.prog.fn(name), name, enc_fn, has_fn)


def r11_4(ctx):
    prog = ctx.prog
    unit = _Unit(prog)
    u, c = unit.u, unit.body
    region = None
    if unit.kind == "loop":
        region = set(c.reachable(unit.start, removed_edges=c.back_edges()))
    tests = [(bb, t) for bb, t in c.calls() if method_name(callee_name(t, resolved=False) or "").endswith("is_other") and (region is None or bb in region)]
    if not tests:
        raise AnchorError("escaped_printable_unicode: no is_other test per character")
    bb, t = tests[0]
    be = bool_edges(c, t["target"])
    if be is None:
        raise AnchorError("is_other result is not branched on")
    t_true, t_false = be
    back = c.back_edges()
    for eb, kind, tree in unit.emissions(region):
        if kind == "raw":
            ctx.check(eb not in c.reachable(t_true, removed_edges=back) or eb in c.reachable(t_false, removed_edges=back), "raw-only-printable", c.loc(eb),
                      "a character is emitted unchanged only on the !is_other edge")
            ctx.check(eb not in set(c.reachable(t_true, removed_edges=back)) - set(c.reachable(t_false, removed_edges=back)), "raw-not-on-other", c.loc(eb),
                      "no raw emission exclusive to the is_other edge")
        elif kind == "escaped":
            ctx.check(eb in c.reachable(t_true, removed_edges=back) and eb not in c.reachable(unit.start, removed_edges=list(back) + [(t["target"], t_true)]), "other-escaped", c.loc(eb),
                      "`other`-category characters are rendered through escaped_printable_ascii of their UTF-8 bytes")
    # invalid UTF-8 falls back to the ascii renderer
    o = Origins(u)
    fb = [d for d in u.defs.get(0, []) if o._def(d, 0, ()).kind == "call" and o._def(d, 0, ()).a.endswith("escaped_printable_ascii")]
    ctx.check(len(fb) == 1, "invalid-utf8-fallback", u.where(), "non-UTF-8 input falls back to escaped_printable_ascii(bytes)")


def _char_predicates(body, blocks=None):
    """names of char-classification methods called in a body (`is_other`, `is_control`, ...)"""
    out = set()
    for bb, t in body.calls():
        if blocks is not None and bb not in blocks:
            continue
        m = method_name(callee_name(t, resolved=False) or "")
        last = m.split("::")[-1]
        if last.startswith("is_") and (m.startswith("UnicodeCategories::") or m.startswith("char::") or "char" in (t.get("self_ty") or "")):
            out.add(last)
    return out


def r11_5(ctx):
    """sibling agreement (unicode mode): the predicate that decides *whether a character is escaped*, the one that decides
    whether backslashes must be doubled, and the one behind Escaper::has_unprintable (which decides the ` (escaped)` marker of
    canonical renderings) must be the same classification"""
    prog = ctx.prog
    u = prog.fn("escaped_printable_unicode")
    h = prog.fn("has_unprintable_unicode")
    unit = _Unit(prog)
    flag = unit.flag_closures
    hc = prog.closures_of(h)
    if unit.kind == "closure":
        p_escape = _char_predicates(unit.body)
        pc_where = unit.body.where()
    else:
        region = set(u.reachable(unit.start, removed_edges=u.back_edges()))
        p_escape = _char_predicates(u, region)
        pc_where = u.loc(unit.start)
    ctx.check(p_escape == {"is_other"}, "escape-predicate", pc_where, "a character is escaped iff UnicodeCategories::is_other(c)",
              "the escape decision uses %s" % sorted(p_escape))
    p_has = set()
    for c in hc:
        p_has |= _char_predicates(c)
    p_has |= _char_predicates(h)
    # fn items passed as values (any(char::is_control))
    for b in [h] + hc:
        for bb, t in b.calls():
            for a in t["args"]:
                cst = a.get("const")
                if cst and cst.get("val", {}).get("kind") == "zst" and "fn" in cst["val"]:
                    nm = cst["val"]["fn"].split("::")[-1]
                    if nm.startswith("is_"):
                        p_has.add(nm)
    ctx.check(p_has == p_escape, "has-unprintable-agrees", h.where(),
              "has_unprintable_unicode classifies with the same predicate as the escaper (%s)" % sorted(p_escape),
              "has_unprintable_unicode classifies characters with %s but escaped_printable_unicode escapes on %s: text that is escaped in a rendering is not "
              "recognised as needing the ` (escaped)` marker (or vice versa), so the canonical rendering of an expectation re-parses to different line contents"
              % (sorted(p_has), sorted(p_escape)))
    p_flag = set()
    for c in flag:
        p_flag |= _char_predicates(c)
    for bb, t in u.calls():
        for a in t["args"]:
            cst = a.get("const")
            if cst and cst.get("val", {}).get("kind") == "zst" and "fn" in cst["val"] and cst["val"]["fn"].split("::")[-1].startswith("is_"):
                p_flag.add(cst["val"]["fn"].split("::")[-1])
    if p_flag:
        ctx.check(p_flag == p_escape, "backslash-flag-agrees", u.where(), "the `double the backslashes` flag is computed with the same predicate as the escape decision",
                  "backslashes are doubled when some character %s, but characters are escaped when they %s: lines with escapes of the other classes keep raw backslashes"
                  % (sorted(p_flag), sorted(p_escape)))
    # Escaper dispatch: has_unprintable / escaped_printable / escaped_expectation route each mode to its own functions
    for name, want in (("Escaper::has_unprintable", ("has_unprintable_ascii", "has_unprintable_unicode")),
                       ("Escaper::escaped_printable", ("escaped_printable_ascii", "escaped_printable_unicode")),
                       ("Escaper::escaped_expectation", ("escaped_expectation_ascii", "escaped_expectation_unicode"))):
        f = prog.fn(name)
        from ..cfgq import variant_edges, switches, explore, place_key
        ok = False
        for sb, st in switches(f):
            ve, rv = variant_edges(f, sb)
            if ve is None or set(ve) != {"Ascii", "Unicode"}:
                continue
            pk = place_key(rv["place"])
            got = {}
            for v, tg in ve.items():
                reg = set(explore(f, tg, {pk: v}).keys())
                other = set(explore(f, ve["Unicode" if v == "Ascii" else "Ascii"], {pk: "Unicode" if v == "Ascii" else "Ascii"}).keys())
                got[v] = sorted({(callee_name(t) or "").split("::")[-1] for bb, t in f.calls() if bb in reg - other})
            ok = got.get("Ascii") == [want[0]] and got.get("Unicode") == [want[1]]
        ctx.check(ok, "dispatch:" + name.split("::")[-1], f.where(), "%s routes Ascii -> %s, Unicode -> %s" % (name, want[0], want[1]), "%s dispatch is wrong" % name)


def run(ctx):
    ctx.run_rule("R11.1", "ascii tables: decode(encode(b))==[b] for all bytes != LF and all ordered pairs; outputs printable; identity set = 0x20..=0x7e minus `\\` [E-TABLE]", r11_1, floor=5)
    ctx.run_rule("R11.2", "escape-introducer: a rendering that contains escapes never contains the decoder's introducer `\\` unescaped (ascii guard, unicode per-char closure) [E-PATH]", r11_2, floor=4)
    ctx.run_rule("R11.3", "` (escaped)` is appended exactly on the `rendering != raw text` edge; both operands from trim_newlines(line) [E-PATH]", r11_3, floor=8)
    ctx.run_rule("R11.5", "sibling agreement (unicode): escape decision, backslash-doubling flag and has_unprintable use the same character class; Escaper dispatch per mode [E-TABLE]", r11_5, floor=5)
    ctx.run_rule("R11.4", "unicode mode emits a character unchanged only on the !is_other edge; invalid UTF-8 falls back to ascii [E-PATH]", r11_4, floor=3)
    from . import c08
    ctx.run_rule("R11.6", "the reader's grammar: exactly one white space separates the expression from the trailing group, so trailing white space of an escaped line stays content (shared with C08 R8.3) [E-TABLE]", c08.r8_3, floor=2)
