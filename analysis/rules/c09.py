"""C09 — generated tests pass against the very output they were generated from (structural part)."""
import re

from ..cfgq import aggregates, bool_edges, cond_tree, const_str_of, explore, place_key, stmt_loc, switches, variant_edges
from ..facts import AnchorError, Origins, callee_name, chain_to, method_name, mname, peel, strip_mods
from ..fmtq import FmtError, flat_pieces, pieces

TRIMS = {"str::trim", "str::trim_end", "str::trim_start", "str::trim_matches", "str::trim_end_matches", "str::trim_start_matches",
         "str::trim_ascii", "str::trim_ascii_end", "str::trim_ascii_start", "str::split_whitespace", "str::split_ascii_whitespace"}


def _repeat_sites(f):
    return [(bb, t) for bb, t in f.calls() if mname(t) == "str::repeat"]


def _fence_fn(ctx, f, key):
    """in function f: fence = "`".repeat(max_backtick_size(G) + c), c >= 1; G is the text emitted
    between the two fence uses"""
    o = Origins(f)
    reps = _repeat_sites(f)
    fences = []
    for bb, t in reps:
        what = peel(o.operand(t["args"][0]))
        if what.kind == "const" and what.a.as_str() == "`":
            fences.append((bb, t))
    if len(fences) != 1:
        ctx.bad(key + ":fence-site", f.where(), "expected one \"`\".repeat(..) fence construction, found %d" % len(fences))
        return
    bb, t = fences[0]
    n = peel(o.operand(t["args"][1]))
    # n = (AddWithOverflow(max_backtick_size(G), c)).0
    ok = False
    gen = None
    c = None
    if n.kind == "field" and n.a == "0" and n.kids[0].kind == "bin" and n.kids[0].a in ("AddWithOverflow", "Add"):
        a, b = n.kids[0].kids
        a, b = peel(a), peel(b)
        for x, y in ((a, b), (b, a)):
            if x.kind == "call" and x.a.endswith("max_backtick_size") and y.kind == "const":
                gen = peel(x.kids[0])
                c = y.a.as_int()
                ok = True
    ctx.check(ok and c is not None and c >= 1, key + ":fence-length", f.loc(bb),
              "fence length = max_backtick_size(generated) + %s (>= 1 longer than any backtick run inside)" % c,
              "fence length is %s: it is not strictly longer than the longest backtick run of the body" % n.show()[:120])
    if gen is None:
        return
    # the measured text is the text emitted: a push_str whose argument is the same `generated` value
    fence_local = t["dest"]["l"]
    pushes = [(pb, pt, peel(o.operand(pt["args"][1]))) for pb, pt in f.calls() if mname(pt) == "String::push_str"]
    body_push = [p for p in pushes if p[2].show() == gen.show()]
    ctx.check(len(body_push) == 1, key + ":measured-is-emitted", f.loc(bb), "the string whose backticks were measured is the one pushed between the fences",
              "the text measured by max_backtick_size (%s) is not the text emitted (%d matching push_str)" % (gen.show()[:60], len(body_push)))
    # both fence uses derive from the same repeat call
    uses = [p for p in pushes if any(nn.kind == "call" and nn.at == (bb, "term") for nn in o.operand(p[1]["args"][1]).walk())]
    ctx.check(len(uses) == 2, key + ":same-fence-twice", f.loc(bb), "opening and closing fence are the same repeated-backtick value",
              "the fence value is used %d times (expected opening + closing)" % len(uses))
    if len(uses) == 2 and body_push:
        order = f.dominates(uses[0][0], body_push[0][0]) and f.dominates(body_push[0][0], uses[1][0])
        ctx.check(order, key + ":fence-order", f.loc(bb), "open fence, then the body, then the closing fence")
    # the body is not trimmed on the way
    if body_push:
        tree = o.operand(body_push[0][1]["args"][1])
        bad = [m for m in (method_name(x) for x in tree.call_names()) if m in TRIMS]
        ctx.check(not bad, key + ":body-untrimmed", f.loc(body_push[0][0]), "the generated body is emitted untrimmed", "the generated body passes %s" % bad)


def r9_1(ctx):
    prog = ctx.prog
    up = prog.impl_fn("MarkdownUpdateGenerator", "UpdateGenerator", "generate_update")
    _fence_fn(ctx, up, "update")
    gen = prog.impl_fn("MarkdownTestCaseGenerator", "TestCaseGenerator", "generate_testcases")
    cls = [c for c in prog.closures_of(gen) if _repeat_sites(c)]
    if len(cls) != 1:
        raise AnchorError("MarkdownTestCaseGenerator::generate_testcases: closure building the fence not found")
    _fence_fn(ctx, cls[0], "create")
    # max_backtick_size: starts >= 2, max over all lines of its argument, counts the leading run
    m = prog.fn("max_backtick_size")
    o = Origins(m)
    r = o.local(0)
    if _max_backtick_iterator_form(ctx, prog, m, r):
        return
    inits = [k for k in (r.kids if r.kind == "phi" else [r]) if peel(k).kind == "const"]
    init = peel(inits[0]).a.as_int() if inits else None
    ctx.check(init is not None and init >= 2, "max:init", m.where(), "max_backtick_size starts at %s (so the fence has at least 3 backticks)" % init,
              "max_backtick_size starts at %s" % init)
    upd = [k for k in (r.kids if r.kind == "phi" else [r]) if peel(k).kind == "call"]
    ctx.check(bool(upd) and all(method_name(peel(k).a) in ("Ord::max", "cmp::max") for k in upd), "max:accumulates", m.where(),
              "the running value is updated with max(count, max)", "the running value is updated by %s" % [peel(k).show()[:40] for k in upd])
    src = [mname(t) for _, t in m.calls()]
    ctx.check("str::lines" in src and not any(s in ("Iterator::take", "Iterator::skip", "Iterator::next_back") for s in src), "max:all-lines", m.where(),
              "every line of the argument is measured")
    # the counter only counts while the character is a backtick
    cmp_ok = False
    for sb, st in switches(m):
        be = bool_edges(m, sb)
        if be:
            t = cond_tree(m, sb, o)
            if t.kind == "bin" and t.a in ("Ne", "Eq") and any(k.kind == "const" and k.a.as_char() == "`" for k in t.kids):
                cmp_ok = True
    ctx.check(cmp_ok, "max:counts-backticks", m.where(), "the per-line count is the leading run of '`'")


def _closure_of(prog, body, node):
    n = peel(node)
    if n.kind == "agg" and isinstance(n.a, tuple) and n.a[0].startswith("closure "):
        return prog.body_by_def(n.a[0][len("closure "):], body.crate)
    return None


def _callable_of(prog, body, node):
    """body of a closure aggregate or of a crate-local function passed by name (`.map(backtick_prefix_size)`)"""
    cb = _closure_of(prog, body, node)
    if cb is not None:
        return cb
    n = peel(node)
    if n.kind == "const" and n.a.fn_item():
        nm = n.a.fn_item()
        cands = [b for b in prog.bodies if b.promoted is None and b.crate == body.crate and (b.path == nm or nm.endswith("::" + b.path) or b.path.endswith("::" + nm.split("::")[-1]) and b.kind == "Fn")]
        cands = [b for b in cands if b.path.split("::")[-1] == nm.split("::")[-1]]
        if len(cands) == 1:
            return cands[0]
    return None


def _max_backtick_iterator_form(ctx, prog, m, r):
    """`lines().map(|l| l.chars().take_while(|c| *c == '`').count())` folded with max from a constant >= 2
    (`.fold(c, |a, b| b.max(a))`, or `.max().unwrap_or(_).max(c)`). Returns False if the function has another form."""
    n = peel(r)
    lower = None
    if n.kind == "call" and method_name(n.a) in ("Ord::max", "cmp::max") and len(n.kids) == 2:
        cs = [k for k in n.kids if peel(k).kind == "const"]
        rest = [k for k in n.kids if peel(k).kind != "const"]
        if len(cs) == 1 and len(rest) == 1:
            lower = peel(cs[0]).a.as_int()
            n = peel(rest[0])
    if n.kind == "call" and method_name(n.a) in ("Option::unwrap_or", "Option::unwrap_or_default") and n.kids:
        n = peel(n.kids[0])
    acc = None
    if n.kind == "call" and method_name(n.a) == "Iterator::max" and n.kids:
        acc, n = "max", peel(n.kids[0])
    elif n.kind == "call" and method_name(n.a) == "Iterator::fold" and len(n.kids) == 3:
        init = peel(n.kids[1])
        fc = _closure_of(prog, m, n.kids[2])
        fr = peel(Origins(fc).local(0)) if fc is not None else None
        f3 = peel(n.kids[2])
        by_name = f3.kind == "const" and f3.a.fn_item() and f3.a.fn_item().split("::")[-1] == "max" and ("Ord" in f3.a.fn_item() or "cmp" in f3.a.fn_item() or "usize" in f3.a.fn_item())
        init_v = init.a.as_int() if init.kind == "const" else None
        if init_v is None and init.kind == "const" and init.a.item:
            try:
                init_v = prog.const(init.a.item.split("::")[-1]).as_int()
            except Exception:
                init_v = None
        if init_v is not None and (by_name or (fr is not None and fr.kind == "call" and method_name(fr.a) in ("Ord::max", "cmp::max") and
                                               sorted(peel(k).a for k in fr.kids if peel(k).kind == "arg") == [2, 3])):
            acc = "fold-max"
            lower = max(lower or 0, init_v)
        n = peel(n.kids[0])
    if acc is None or not (n.kind == "call" and method_name(n.a) == "Iterator::map" and len(n.kids) == 2):
        return False
    src = peel(n.kids[0])
    cc = _callable_of(prog, m, n.kids[1])
    if cc is None:
        return False
    ctx.check(lower is not None and lower >= 2, "max:init", m.where(), "max_backtick_size is at least %s (so the fence has at least 3 backticks)" % lower,
              "max_backtick_size has lower bound %s" % lower)
    ctx.ok("max:accumulates", m.where(), "the per-line counts are combined with max (%s)" % acc)
    ctx.check(src.kind == "call" and method_name(src.a) == "str::lines" and any(k.kind == "arg" and k.a == 1 for k in src.walk()), "max:all-lines", m.where(),
              "every line of the argument is measured", "the measured lines are %s" % src.show()[:80])
    cr = peel(Origins(cc).local(0))
    ok = cr.kind == "call" and method_name(cr.a) == "Iterator::count" and cr.kids
    tw = peel(cr.kids[0]) if ok else None
    ok = ok and tw.kind == "call" and method_name(tw.a) in ("Iterator::take_while", "Iterator::filter") and \
        peel(tw.kids[0]).kind == "call" and method_name(peel(tw.kids[0]).a) == "str::chars"
    if ok:
        pc = _closure_of(prog, cc, tw.kids[1])
        pr = peel(Origins(pc).local(0)) if pc is not None else None
        ok = pr is not None and pr.kind == "bin" and pr.a == "Eq" and any(k.kind == "const" and k.a.as_char() == "`" for k in pr.kids)
    ctx.check(bool(ok), "max:counts-backticks", cc.where(), "the per-line count covers the leading run of '`'", "the per-line count is %s" % cr.show()[:100])
    return True


def r9_2(ctx):
    prog = ctx.prog
    scope = [b for b in prog.bodies if b.promoted is None and ("src/generators/" in b.file) and "/tests" not in b.npath]
    n = 0
    for b in scope:
        o = None
        for bb, t in b.calls():
            m = mname(t)
            if m not in TRIMS:
                continue
            if o is None:
                o = Origins(b)
            src = peel(o.operand(t["args"][0]))
            shown = src.show()
            # what is being trimmed: the generated test body (a parameter that callers fill with generate_testcase()) or config text
            is_body = _is_generated_body(prog, b, src)
            n += 1
            key = "trim:%s:%s" % (b.npath.split("::")[-1] if not b.npath.startswith("<") else b.name, m)
            if is_body:
                ctx.bad(key, b.loc(bb), "%s is applied to the generated test body: trailing blank or whitespace-only output lines are removed from the "
                                        "written test, so the test fails against the very output it was generated from (e.g. `printf \"a\\n\\n\"`)" % m)
            else:
                ctx.ok(key, b.loc(bb), "%s is applied to %s (not the generated body)" % (m, shown[:60]))
    ctx.ok("trim-sweep", "-", "%d trim call(s) in src/generators examined" % n, obligation=False)
    ctx.check(len(scope) >= 10, "scope", "-", "%d generator bodies swept" % len(scope))


def _is_generated_body(prog, body, node):
    """node derives from Outcome::generate_testcase() directly, or is a parameter that some caller fills with it"""
    if node.has_call("OutcomeTestGenerator::generate_testcase") or any("generate_testcase" == method_name(c).split("::")[-1] for c in node.call_names()):
        return True
    n = peel(node)
    if n.kind == "arg":
        for b2, bi, t in prog.all_calls(lambda nm: True):
            if t.get("resolved") == body.path and b2.crate == body.crate:
                o2 = Origins(b2)
                if n.a - 1 < len(t["args"]):
                    a = o2.operand(t["args"][n.a - 1])
                    if any("generate_testcase" == method_name(c).split("::")[-1] for c in a.call_names()):
                        return True
    return False


def r9_3(ctx):
    prog = ctx.prog
    g = prog.impl_fn("Outcome", "OutcomeTestGenerator", "generate_testcase")
    o = Origins(g)
    # switch over DiffLine variants inside the MalformedOutput arm
    sw = None
    for sb, st in switches(g):
        ve, rv = variant_edges(g, sb)
        if ve is not None and strip_mods(rv["ty"]).endswith("DiffLine"):
            sw = (sb, ve, rv)
    if sw is None:
        raise AnchorError("generate_testcase: no switch over DiffLine variants")
    sb, ve, rv = sw
    pk = place_key(rv["place"])
    back = g.back_edges()
    regions = {v: set(explore(g, tg, {pk: v}, removed_edges=back).keys()) for v, tg in ve.items()}

    def excl(v):
        others = set()
        for v2, r in regions.items():
            if v2 != v:
                others |= r
        return regions[v] - others
    # Matched -> original_string
    for v, want in (("MatchedExpectation", "Expectation::original_string"), ("UnexpectedLines", "Escaper::escaped_expectation")):
        pushes = [(bb, t) for bb, t in g.calls() if bb in excl(v) and mname(t) == "String::push_str"]
        ctx.check(len(pushes) >= 1, "emits:" + v, g.loc(sb), "the %s arm emits text" % v, "the %s arm emits nothing: lines of the real output are missing from the generated test" % v)
        for bb, t in pushes:
            tree = o.operand(t["args"][1])
            ctx.check(tree.has_call(want), "source:" + v, g.loc(bb),
                      "%s lines are rendered through %s" % (v, want), "%s lines are rendered from %s" % (v, tree.show()[:120]))
            if v == "MatchedExpectation":
                ctx.check(not tree.has_call("Rule::to_expression_string", "Expectation::to_expression_string"), "matched-verbatim", g.loc(bb),
                          "matched expectations are re-emitted as written (original_string), not re-rendered")
            else:
                try:
                    ps = flat_pieces(tree)
                except FmtError as e:
                    ctx.bad("unexpected-format", g.loc(bb), "unexpected-line rendering is not a decodable format!: %s" % e)
                    continue
                args = [p for p in ps if not isinstance(p, str)]
                lits = "".join(p for p in ps if isinstance(p, str))
                ctx.check(len(args) == 2 and lits == "\n", "unexpected-format", g.loc(bb), "an unexpected line is written as `{escaped}{suffix}\\n`",
                          "unexpected-line format is %r with %d arguments" % (lits, len(args)))
                if len(args) == 2:
                    esc, suf = args
                    ch = chain_to(esc[1], lambda n: n.kind == "field" and n.a == "1") or []
                    ch = [c for c in ch if c not in ("Index::index", "Deref::deref")]
                    ctx.check(ch == ["BytesNewline::trim_newlines", "Escaper::escaped_expectation"], "unexpected-escape-flow", g.loc(bb),
                              "the line's own bytes -> trim_newlines -> escaped_expectation", "the rendered line flows through %s" % ch)
                    alts = suf[1].kids if suf[1].kind == "phi" else [suf[1]]
                    vals = sorted(peel(a).a.as_str() for a in alts if peel(a).kind == "const")
                    ctx.check(vals == ["", " (no-eol)"], "no-eol-literals", g.loc(bb), "the suffix is \"\" or \" (no-eol)\"", "suffix alternatives are %s" % vals)
    # ` (no-eol)` exactly when the line does not end in "\n" (decided by hypothesis on the result of ends_with(b"\n"): whether the test is
    # branched on directly or folded into a bool with `&&` / `||` / `!` does not matter)
    from ..cfgq import promoted_tree
    from ..facts import ConstVal, Node
    nl_calls, esc_calls = [], []
    for bb, t in g.calls():
        m = mname(t)
        if m in ("slice::ends_with", "Vec::ends_with", "str::ends_with", "String::ends_with") and bb in excl("UnexpectedLines"):
            pat = peel(o.operand(t["args"][1]))
            pb = pat.a.as_bytes() if pat.kind == "const" else None
            if pb is None and pat.kind == "const":
                pt = promoted_tree(prog, g, pat.a)
                if pt is not None and peel(pt).kind == "const":
                    pb = peel(pt).a.as_bytes()
            ps = const_str_of(prog, g, pat)
            if pb == b"\n" or ps == "\n":
                nl_calls.append(bb)
            elif ps == " (escaped)":
                esc_calls.append(bb)
    lits = {}
    for bi, blk in enumerate(g.blocks):
        if bi not in excl("UnexpectedLines"):
            continue
        for st in blk["stmts"]:
            if st["k"] == "assign" and st["rv"]["k"] == "use" and "const" in st["rv"]["op"]:
                v = const_str_of(prog, g, Node("const", ConstVal(st["rv"]["op"]["const"])))
                if v in ("", " (no-eol)"):
                    lits.setdefault(v, []).append(bi)
    ne = lits.get(" (no-eol)", [])
    em = lits.get("", [])
    if nl_calls:
        with_nl = set(explore(g, 0, assume={b_: True for b_ in nl_calls}).keys())
        without = set(explore(g, 0, assume=dict([(b_, False) for b_ in nl_calls] + [(b_, False) for b_ in esc_calls])).keys())
        ok = len(ne) == 1 and ne[0] not in with_nl and ne[0] in without and any(e in with_nl for e in em)
        ctx.check(ok, "no-eol-edge", g.loc(nl_calls[0]),
                  "` (no-eol)` is appended only when `line.ends_with(b\"\\n\")` is false; a terminated line always gets the empty suffix",
                  "` (no-eol)` assigned in blocks %s (reachable although the line ends in \\n: %s; reachable for an unterminated plain line: %s), empty suffix in %s"
                  % (ne, [x for x in ne if x in with_nl], [x for x in ne if x in without], em))
    ctx.check(bool(nl_calls), "no-eol-test", g.where(), "the unexpected-lines arm tests ends_with(b\"\\n\")")


def _assigned_str(f, o, target, edge):
    """the string literal assigned in the block(s) reached only through `edge` (first such block)"""
    blk = f.blocks[target]
    for st in blk["stmts"]:
        if st["k"] == "assign":
            n = peel(o.rvalue(st["rv"]))
            if n.kind == "const" and n.a.as_str() is not None:
                return n.a.as_str()
    return None


def _fmt_literals(body):
    """all literal prefixes of format! templates in body, with their location"""
    o = Origins(body)
    out = []
    for bb, t in body.calls():
        if mname(t) in ("Arguments::new", "Arguments::from_str"):
            node = o._def((bb, "term", "call", t), 0, ())
            try:
                ps = flat_pieces(node)
            except FmtError:
                continue
            out.append((bb, ps))
    return out


def r9_4(ctx):
    prog = ctx.prog
    g = prog.fn("Outcome::generate_testcase_expression")
    lits = []
    loop_blocks = set()
    for b_, h_ in g.back_edges():
        loop_blocks |= {x for x in g.reachable(h_) if b_ in g.reachable(x)}
    for b in [g] + prog.closures_of(g):
        ob = Origins(b)
        for bb, ps in _fmt_literals(b):
            if isinstance(ps[0], str):
                lits.append((b, bb, ps[0]))
        # literal pieces appended with push_str (`generated.push_str("> "); generated.push_str(&line)`)
        for bb, t in b.calls():
            if mname(t) == "String::push_str":
                a = peel(ob.operand(t["args"][1]))
                if a.kind == "const" and a.a.as_str() is not None:
                    lits.append((b, bb, a.a.as_str()))
    prefixes = sorted({l for _, _, l in lits})
    lp = prog.fn("LineParser::add_testcase_body")
    olp = Origins(lp)
    stripped = []
    for bb, t in lp.calls():
        if mname(t) == "str::strip_prefix":
            s = const_str_of(prog, lp, olp.operand(t["args"][1]))
            stripped.append(s)
    stripped_s = sorted({x if x is not None else "<non-literal>" for x in stripped})
    ctx.check(prefixes == stripped_s == ["$ ", "> "], "command-prefixes", g.where(),
              "the generator writes commands with %s and the parser strips exactly %s" % (prefixes, stripped_s),
              "writer prefixes %s differ from the prefixes the line parser strips %s" % (prefixes, stripped_s))
    # first line `$ `, continuation lines `> ` (skip(1))
    first = [l for b, bb, l in lits if b is g and bb not in loop_blocks]
    cont = [l for b, bb, l in lits if b is not g or bb in loop_blocks]
    ctx.check(first == ["$ "] and cont == ["> "], "prefix-roles", g.where(), "first expression line gets `$ `, every further line `> `",
              "first line prefixes %s, continuation prefixes %s" % (first, cont))
    # exit code: emitted exactly when code != 0, as `[{}]\n`
    e = prog.fn("Outcome::generate_testcase_exit_code")
    oe = Origins(e)
    somes = [(bb, si) for bb, si, rv in aggregates(e, "Option", "Some")]
    gate = None
    for sb, st in switches(e):
        be = bool_edges(e, sb)
        if be:
            t = cond_tree(e, sb, oe)
            if t.kind == "bin" and t.a in ("Ne", "Eq") and any(k.kind == "const" and k.a.as_int() == 0 for k in t.kids):
                gate = (sb, t.a, be)
    if gate is None or not somes:
        ctx.bad("exit-code-gate", e.where(), "generate_testcase_exit_code has no `code != 0` test guarding Some(..)")
    else:
        sb, op, (tt, tf) = gate
        ne = tt if op == "Ne" else tf
        nones = [bb for bb, si, rv in aggregates(e, "Option", "None")]
        ctx.check(any(bb in e.reachable(ne) for bb, si in somes) and not any(bb in e.reachable(ne, removed_edges=e.back_edges()) for bb in nones), "exit-code-gate", e.loc(sb),
                  "an exit-code line is always written when the code is not 0 (the reader defaults a missing line to 0)")
    forms = ["".join(p if isinstance(p, str) else "{}" for p in ps) for bb, ps in _fmt_literals(e)]
    ctx.check("[{}]\n" in forms and all(x in ("[{}]\n", "[{}]") for x in forms), "exit-code-form", e.where(), "the exit code is written as `[<code>]` on its own line", "exit code forms: %s" % forms)
    # the reader's pattern accepts that form
    init = [b for b in prog.bodies if b.promoted is None and "EXIT_CODE_EXPRESSION" in b.npath and b.npath.endswith("__static_ref_initialize")]
    pat = None
    if init:
        oi = Origins(init[0])
        for n in oi.local(0).walk():
            if n.kind == "call" and method_name(n.a) == "Regex::new":
                pat = const_str_of(prog, init[0], n.kids[0])
    ok = False
    if pat is not None:
        try:
            ok = all(re.match(pat, "[%d]" % c) for c in (1, 2, 50, 127, 255)) and not re.match(pat, "[1] ") and not re.match(pat, "x[1]")
        except re.error:
            ok = False
    ctx.check(ok, "exit-code-reader", init[0].where() if init else "-", "the reader's EXIT_CODE_EXPRESSION (%r) accepts exactly the written form" % pat,
              "EXIT_CODE_EXPRESSION %r does not accept `[<code>]`" % pat)
    # InvalidExitCode arm writes `[actual]`
    gt = prog.impl_fn("Outcome", "OutcomeTestGenerator", "generate_testcase")
    forms2 = ["".join(p if isinstance(p, str) else "{}" for p in ps) for bb, ps in _fmt_literals(gt)]
    ctx.check("[{}]\n" in forms2, "invalid-exit-form", gt.where(), "the InvalidExitCode arm writes the actual code as `[<code>]`")


REWRITERS = {"str::trim", "str::trim_end", "str::trim_start", "str::trim_matches", "str::trim_end_matches", "str::trim_start_matches", "str::replace", "str::replacen",
             "str::to_lowercase", "str::to_uppercase", "str::trim_ascii", "str::trim_ascii_end", "str::trim_ascii_start", "str::split_whitespace", "String::truncate",
             "String::pop", "String::retain", "slice::trim_ascii", "slice::trim_ascii_end", "BytesNewline::trim_newlines", "StringNewline::trim_newlines"}


def r9_8(ctx):
    """writer/reader cross-check of *syntax classes*: every textual form the reader gives a meaning to (final ` (<kind><q>)`
    group, a `[n]` line, a leading `$ ` / `> `) must be tested somewhere on the writer path from a raw output line to the
    emitted expectation line, otherwise output that merely looks like test syntax is written unprotected and read back with
    that meaning. The writer path is escaped_expectation_{ascii,unicode} plus the UnexpectedLines arm of generate_testcase."""
    prog = ctx.prog
    bodies = [prog.fn("escaped_expectation_ascii"), prog.fn("escaped_expectation_unicode"), prog.impl_fn("Outcome", "OutcomeTestGenerator", "generate_testcase"),
              prog.fn("Escaper::escaped_expectation"), prog.fn("OutputStream::to_output_string")]
    preds = []
    for b in bodies:
        o = Origins(b)
        for sb, st in switches(b):
            if bool_edges(b, sb) is None:
                continue
            tree = cond_tree(b, sb, o)
            for n in tree.walk():
                if n.kind == "call":
                    m = method_name(n.a)
                    lits = [const_str_of(prog, b, k) for k in n.kids[1:]] + [peel(k).a.as_char() for k in n.kids[1:] if peel(k).kind == "const" and peel(k).a.as_char()]
                    preds.append((m, [x for x in lits if x is not None]))
    def has(test):
        return any(test(m, lits) for m, lits in preds)
    classes = {
        "modifier-suffix": (lambda m, l: (m in ("str::ends_with", "String::ends_with") and any(x in (")", " (") or x.endswith(")") and x != " (escaped)" for x in l)) or m.startswith("Regex::"),
                            "an output line ending in ` (glob)`, ` (?)`, ` (regex+)` ... is written as it is and read back as an expectation with that kind / quantifier"),
        "exit-code-line": (lambda m, l: (m in ("str::starts_with", "String::starts_with") and any(x == "[" for x in l)) or m.startswith("Regex::") or m.endswith("extract_exit_code"),
                           "an output line `[1]` is written as it is and read back as the expected exit code"),
        "continuation-prefix": (lambda m, l: m in ("str::starts_with", "String::starts_with") and any(x in ("> ", ">") for x in l),
                                "a first output line `> x` is written as it is and read back as a continuation of the command"),
        "command-prefix": (lambda m, l: m in ("str::starts_with", "String::starts_with") and any(x in ("$ ", "$") for x in l),
                           "an output line `$ y` is written as it is and (in a Cram document) read back as a further command"),
    }
    # a fifth form exists only as long as the reader has it: EscapedRule::make drops a trailing ` (no-eol)` from the expression ("Cram-Compat")
    from .c01 import _all_consts
    mk = prog.impl_fn("EscapedRule", "RuleMaker", "make")
    mk_lits = [c.as_str() for b_ in [mk] + prog.promoted_of(mk) for c, _ in _all_consts(b_) if c.as_str()]
    if " (no-eol)" in mk_lits:
        classes["escaped-no-eol-suffix"] = (lambda m, l: m in ("str::ends_with", "String::ends_with", "slice::ends_with") and any(x == " (no-eol)" for x in l),
                                            "an output line that needs escaping and whose text ends in ` (no-eol)` is written as `<text> (no-eol) (escaped)`; EscapedRule::make drops that "
                                            "suffix from the expression, so the expectation matches `<text>` and not the line it was written for")
    for key, (test, text) in sorted(classes.items()):
        ctx.check(has(test), "collision:" + key, bodies[0].where(),
                  "the writer tests rendered lines for the `%s` form before emitting them unmarked" % key,
                  "no decision on the writer path looks at the `%s` form (decisions found: %s): %s - the generated test fails on the very output it was generated from"
                  % (key, sorted({m for m, _ in preds}), text))


def r9_7(ctx):
    """the command is written back verbatim: between `testcase.shell_expression` and the `$ ` / `> ` lines of the generated
    test no trimming / replacing call is applied (to the expression lines or to the formatted lines)"""
    prog = ctx.prog
    g = prog.fn("Outcome::generate_testcase_expression")
    n = 0
    for body in [g] + prog.closures_of(g):
        o = Origins(body)
        calls = [mname(t) for _, t in body.calls()]
        bad = sorted({c for c in calls if c in REWRITERS})
        n += 1
        nm = "closure" if body is not g else "fn"
        ctx.check(not bad, "command-verbatim:" + nm + ("#%d" % n), body.where(),
                  "the expression lines are split at newlines, terminated and prefixed - nothing else",
                  "generate_testcase_expression applies %s while rendering the command: trailing blanks / tabs of a command line (e.g. inside a here-document) are lost, "
                  "the rewritten test no longer runs the original command" % bad)
    if n < 2:
        ctx.ok("command-verbatim:no-closure", g.where(), "continuation lines are rendered in the function body itself (no closure)")
    o = Origins(g)
    src = [t for _, t in g.calls() if mname(t) in ("SplitLinesByNewline::split_at_newline",)]
    ctx.check(len(src) == 1 and any(nn.kind == "field" and nn.a == "shell_expression" for nn in o.operand(src[0]["args"][0]).walk()), "command-source", g.where(),
              "the rendered command is testcase.shell_expression split at its newlines")


def r9_6(ctx):
    """sibling agreement: wherever ` (no-eol)` is appended *after* a line was rendered through escaped_expectation, the
    append is guarded by `!rendering.ends_with(" (escaped)")` (an escaped expectation ignores the line terminator, and
    `x (escaped) (no-eol)` parses as a no-eol expectation for the literal text `x (escaped)`)"""
    prog = ctx.prog
    n = 0
    for b in prog.bodies:
        if b.promoted is not None or b.auto_derived or not ("src/generators/" in b.file or "src/output.rs" in b.file):
            continue
        if not any(mname(t) == "Escaper::escaped_expectation" for _, t in b.calls()):
            continue
        o = Origins(b)
        lit_blocks = []
        for bi, blk in enumerate(b.blocks):
            if blk["cleanup"]:
                continue
            for si, st in enumerate(blk["stmts"]):
                if st["k"] == "assign" and st["rv"]["k"] == "use" and "const" in st["rv"]["op"]:
                    from ..facts import ConstVal, Node
                    if const_str_of(prog, b, Node("const", ConstVal(st["rv"]["op"]["const"]))) == " (no-eol)":
                        lit_blocks.append((bi, si))
        esc_calls = []
        for cb_, ct_ in b.calls():
            if mname(ct_) in ("str::ends_with", "String::ends_with") and len(ct_["args"]) > 1 and const_str_of(prog, b, o.operand(ct_["args"][1])) == " (escaped)":
                esc_calls.append(cb_)
        for bi, si in lit_blocks:
            n += 1
            # hypothesis: the rendering ends in ` (escaped)` -> the ` (no-eol)` literal must be unreachable (whatever the shape of the condition)
            guarded = bool(esc_calls) and bi not in explore(b, 0, assume={c_: True for c_ in esc_calls}) and bi in explore(b, 0)
            # `a && !b && c` lowers to nested switches: the literal block is control dependent on each of them
            fn = b.name if b.npath.startswith("<") else b.npath.split("::")[-1]
            ctx.check(guarded, "no-eol-after-escaped:%s" % fn, stmt_loc(b, bi, si),
                      "` (no-eol)` is appended to an escaped_expectation rendering only when that rendering does not end in ` (escaped)`",
                      "` (no-eol)` is appended after the ` (escaped)` marker without a guard: output `a<ESC>b` without final newline is written as "
                      "`a\\x1bb (escaped) (no-eol)`, which parses as a no-eol expectation for the literal text and fails on the very output it was generated from "
                      "(the sibling OutputStream::to_output_string has the guard)")
    ctx.check(n >= 2, "no-eol-sites", "-", "%d ` (no-eol)` append sites next to escaped_expectation analysed" % n,
              "only %d ` (no-eol)` append sites found (2 confirmed by reading: Outcome::generate_testcase, OutputStream::to_output_string)" % n)


def r9_5(ctx):
    from . import c11
    c11.r11_2(ctx)
    c11.r11_3(ctx)
    c11.r11_5(ctx)


def _written_zero_edges(prog, f, o):
    """edges taken only where the test itself spells out an exit code: the true edge of a test of the field testcase.exit_code (`== Some(0)`, `== Some(code)`,
    `.is_some()`), or the Some edge of a match over it. Where the actual code is the expected one (the Ok and the MalformedOutput arm) a zero written on such
    an edge is the zero the document already contains. -> [(switch block, target)]"""
    from ..cfgq import promoted_tree
    out = []
    for sb, st in switches(f):
        be = bool_edges(f, sb)
        if be is not None:
            tree = cond_tree(f, sb, o)
            neg = False
            while tree.kind == "un" and tree.a == "Not":
                neg, tree = not neg, tree.kids[0]
            if tree.kind != "call":
                continue
            m = method_name(tree.a)
            if m not in ("PartialEq::eq", "PartialEq::ne", "Option::is_some", "Option::is_none"):
                continue
            if not any(x.kind == "field" and x.a == "exit_code" and "testcase" in x.show() for x in tree.walk()):
                continue
            if m in ("PartialEq::ne", "Option::is_none"):
                neg = not neg
            out.append((sb, be[1] if neg else be[0]))
            continue
        ve, rvv = variant_edges(f, sb)
        if ve is not None and "Some" in ve and rvv is not None:
            src = o.operand(rvv) if isinstance(rvv, dict) else rvv
            try:
                shown = peel(src).show()
            except Exception:
                shown = ""
            if "testcase" in shown and "exit_code" in shown:
                out.append((sb, ve["Some"]))
    return out


def _nonzero_edge(f, o, bb, prog=None):
    """is block bb reached only on the non-zero edge of a test of an integer against 0 (`x != 0`, `x == 0` negated, or a switch over x with a 0 arm) - or,
    with prog given, else only where the test spells out an exit code itself (_written_zero_edges)? -> description or None"""
    extra = _written_zero_edges(prog, f, o) if prog is not None else []
    for sb, st in switches(f):
        be = bool_edges(f, sb)
        if be is not None:
            tree = cond_tree(f, sb, o)
            neg = False
            while tree.kind == "un" and tree.a == "Not":
                neg, tree = not neg, tree.kids[0]
            if tree.kind == "bin" and tree.a in ("Ne", "Eq") and any(k.kind == "const" and k.a.as_int() == 0 for k in tree.kids):
                ne = be[0] if ((tree.a == "Ne") != neg) else be[1]
                if bb in f.reachable(ne) and bb not in f.reachable(0, removed_edges=[(sb, ne)]):
                    return "%s(.., 0)" % tree.a
                if extra and bb not in f.reachable(0, removed_edges=[(sb, ne)] + extra):
                    return "%s(.., 0), or the zero the test spells out itself" % tree.a
            continue
        t = f.blocks[sb]["term"]
        pl = t["discr"].get("move") or t["discr"].get("copy")
        if pl is not None and re.match(r"^[iu](8|16|32|64|size)$", f.lty(pl["l"]) or "") and not pl["p"]:
            zero = [tg for v, tg in t.get("targets", []) if int(v) == 0]
            other = t.get("otherwise")
            if zero and other is not None and bb in f.reachable(other) and bb not in f.reachable(0, removed_edges=[(sb, other)]):
                return "switch(.. 0 => skip)"
            if extra and zero and other is not None and bb not in f.reachable(0, removed_edges=[(sb, other)] + extra):
                return "switch(.. 0 => skip), or the zero the test spells out itself"
    return None


def r9_10(ctx, keep_written_zero=False):
    """inside the test generator: (a, C10 only) where the exit code was the expected one - the Ok and the MalformedOutput arm, both through
    generate_testcase_exit_code - an `[n]` line is written for n != 0 or for the zero the test spells out itself, and that spelled-out zero is written
    (F55): the lines of a test that passed on its exit code stay as they are. The InvalidExitCode arm replaces a failed exit code expectation; whether it
    writes a zero (F30 left it out) is free, since the next update keeps a written `[0]`; (b) the stream whose text becomes the expectations of a test
    that failed on its exit code is the stream validation compares them with: output.stderr exactly on output_stream == Some(Stderr) (C05 R5.3's selection)"""
    prog = ctx.prog
    g = prog.impl_fn("Outcome", "OutcomeTestGenerator", "generate_testcase")
    bodies = [g, prog.fn("Outcome::generate_testcase_exit_code")]
    back = g.back_edges()
    arms = {}
    for sb, st in switches(g):
        ve, rvv = variant_edges(g, sb)
        if ve is None:
            continue
        for v_ in ("Ok", "MalformedOutput", "InvalidExitCode"):
            if v_ in ve and v_ not in arms:
                only = set(g.reachable(ve[v_], removed_edges=back))
                for v2, tg2 in ve.items():
                    if v2 != v_:
                        only -= set(g.reachable(tg2, removed_edges=back))
                arms[v_] = only
    for v_ in ("Ok", "MalformedOutput", "InvalidExitCode"):
        if v_ not in arms:
            raise AnchorError("generate_testcase: no %s arm found" % v_)
    n = 0
    hows = []
    for f in bodies:
        o = Origins(f)
        for bb, t in f.calls():
            if mname(t) != "Arguments::new":
                continue
            try:
                ps = pieces(o._def((bb, "term", "call", t), 0, ()))
            except FmtError:
                continue
            text = "".join(x if isinstance(x, str) else "\x00" for x in ps)
            if text not in ("[\x00]\n", "[\x00]"):
                continue
            n += 1
            how = _nonzero_edge(f, o, bb, prog)
            hows.append((f, bb, how))
            key = "exit-code-line:%s#%d" % (f.npath.split("::")[-1], n)
            if f is g and bb in arms["InvalidExitCode"]:
                ctx.ok(key, f.loc(bb), "this `[n]` line replaces an exit code expectation that failed (InvalidExitCode arm); %s" %
                       ("written on the non-zero edge only (%s)" % how if how else "a zero is written out too and kept by the next update"))
                continue
            if not keep_written_zero:
                ctx.ok(key, f.loc(bb), "`[n]` line of a test whose exit code was the expected one (%s)" % (how or "any code"))
                continue
            ctx.check(how is not None, key, f.loc(bb),
                      "this `[n]` line is written on the non-zero edge only (%s)" % how,
                      "this `[n]` line is written for every exit code, also a 0 that the test does not spell out: a test that passed on its exit code gets a `[0]` line "
                      "it did not have - the lines of a passing test change")
    if n < 2:
        ctx.bad("exit-code-sites", g.where(), "only %d `[n]` writes found in the test generator (2 confirmed by reading: generate_testcase_exit_code and the InvalidExitCode arm)" % n)
    # (a') a test that spells out `[0]` keeps that line where its exit code was the expected one (the Ok and the MalformedOutput arm): C10 - update rewrites
    # only what failed; without it `update` reports a passing document as updated and removes the line
    keeping = {(id(f_), bb_) for f_, bb_, how_ in hows if how_ and "spells out" in how_}
    keeping_bodies = {id(f_) for f_, bb_, how_ in hows if how_ and "spells out" in how_}
    for v_ in (("Ok", "MalformedOutput") if keep_written_zero else ()):
        kept = any((id(g), bb_) in keeping for bb_ in arms[v_])
        for bb_, t_ in g.calls():
            if bb_ in arms[v_]:
                cb = next((f_ for f_ in bodies if f_ is not g and callee_name(t_) and callee_name(t_).split("::")[-1] == f_.npath.split("::")[-1]), None)
                if cb is not None and id(cb) in keeping_bodies:
                    kept = True
        ctx.check(kept, "written-zero-kept:%s" % v_, g.where(),
                  "the %s arm writes the exit code line also for a zero that the test spells out itself" % v_,
                  "the %s arm never writes `[0]`: a test that passes on its exit code and spells out `[0]` loses that line on update - a passing document is "
                  "reported as updated and changed" % v_)
    # (b') validation returns InvalidExitCode *before* it diffs the output: in that arm nothing is known about the old expectations, they must not be written back
    for sb, st in switches(g):
        ve, rvv = variant_edges(g, sb)
        if ve is None or "InvalidExitCode" not in ve:
            continue
        back = g.back_edges()
        reg = set(g.reachable(ve["InvalidExitCode"], removed_edges=back))
        for v_, tg_ in ve.items():
            if v_ != "InvalidExitCode":
                reg -= set(g.reachable(tg_, removed_edges=back)) - set(g.reachable(ve["InvalidExitCode"], removed_edges=back) if False else set())
        only = set(g.reachable(ve["InvalidExitCode"], removed_edges=back))
        for v_, tg_ in ve.items():
            if v_ != "InvalidExitCode":
                only -= set(g.reachable(tg_, removed_edges=back))
        reuse = []
        for bb, t in g.calls():
            if bb in only and (mname(t) or "").endswith("original_string"):
                reuse.append(g.loc(bb))
        for bi, blk in enumerate(g.blocks):
            if bi in only:
                for st_ in blk["stmts"]:
                    if st_["k"] == "assign" and st_["rv"]["k"] == "agg" and st_["rv"].get("agg") == "closure":
                        cb = prog.body_by_def(st_["rv"]["def"], g.crate)
                        if cb is not None and any((mname(t2) or "").endswith("original_string") for _, t2 in cb.calls()):
                            reuse.append(g.loc(bi))
        ctx.check(not reuse, "invalid-exit-code-regenerates", reuse[0] if reuse else g.loc(sb), "the InvalidExitCode arm writes no expectation of the old test (they were never compared with the output)",
                  "the InvalidExitCode arm writes old expectations back (original_string): validation returns that error before it looks at the output, so when exit code and "
                  "output changed together the written test carries stale expectations and fails against the output it was generated from")
    # (b) the regenerated stream
    o = Origins(g)
    sites = [(bb, t) for bb, t in g.calls() if mname(t) == "OutputStream::to_output_string"]
    if not sites:
        raise AnchorError("generate_testcase: no OutputStream::to_output_string call (the InvalidExitCode arm)")
    for bb, t in sites:
        src = peel(o.operand(t["args"][0]))
        nodes = [peel(k) for k in (src.kids if src.kind == "phi" else [src])]
        flds = sorted({x.a for x in nodes if x.kind == "field"})
        sel = None
        for sb, st in switches(g):
            be = bool_edges(g, sb)
            if be is None:
                continue
            tree = cond_tree(g, sb, o)
            neg = False
            while tree.kind == "un" and tree.a == "Not":
                neg, tree = not neg, tree.kids[0]
            if tree.kind == "call" and method_name(tree.a) in ("PartialEq::eq", "PartialEq::ne") and any(x.kind == "field" and x.a == "output_stream" for x in tree.walk()):
                from ..cfgq import promoted_tree
                shown = tree.show()
                for x in tree.walk():
                    if x.kind == "const":
                        pt = promoted_tree(prog, g, x.a)
                        if pt is not None:
                            shown += pt.show()
                if "Stderr" in shown:
                    if method_name(tree.a) == "PartialEq::ne":
                        neg = not neg
                    sel = (sb, be[1] if neg else be[0], be[0] if neg else be[1])
        if sel is None:
            # match form: `match self.testcase.config.output_stream { Some(OutputStreamControl::Stderr) => &self.output.stderr, _ => &self.output.stdout }`
            for sb2, st2 in switches(g):
                ve2, rv2 = variant_edges(g, sb2)
                if ve2 is None or "Stderr" not in ve2:
                    continue
                names2 = [p_.get("n") for p_ in g.canon_place(rv2["place"])["p"] if isinstance(p_, dict) and "n" in p_]
                if "output_stream" not in names2:
                    continue
                others2 = {tg for v_, tg in ve2.items() if v_ != "Stderr"}
                if len(others2) == 1 and ve2["Stderr"] not in others2:
                    # the outer `Some` / `None` switch sends None to the same block as the other variants
                    sel = (sb2, ve2["Stderr"], others2.pop())
        good = flds == ["stderr", "stdout"] and sel is not None
        if good:
            sb, e_err, e_out = sel
            # the reference to output.stderr is taken on the Stderr edge, the one to output.stdout on the other
            refs = {}
            for bi, blk in enumerate(g.blocks):
                if blk["cleanup"]:
                    continue
                for st in blk["stmts"]:
                    if st["k"] == "assign" and st["rv"]["k"] == "ref":
                        names = [p_.get("n") for p_ in st["rv"]["place"]["p"] if isinstance(p_, dict) and "n" in p_]
                        if names[-2:] in (["output", "stderr"], ["output", "stdout"]):
                            refs.setdefault(names[-1], []).append(bi)
            def only(b_, e_):
                return b_ in g.reachable(e_) and b_ not in g.reachable(0, removed_edges=[(sb, e_)])
            # stderr only on the Stderr edge; stdout on the other edge(s) and never behind the Stderr edge (in the match form `None` joins the other arm)
            back_ = g.back_edges()
            behind_err = set(g.reachable(e_err, removed_edges=back_)) - set(g.reachable(e_out, removed_edges=back_))
            good = any(only(b_, e_err) for b_ in refs.get("stderr", [])) and \
                any(b_ in g.reachable(e_out) and b_ not in behind_err for b_ in refs.get("stdout", [])) and not any(b_ in behind_err for b_ in refs.get("stdout", []))
        ctx.check(good, "regenerated-stream", g.loc(bb), "the regenerated expectations come from output.stderr exactly on output_stream == Some(Stderr), else from output.stdout - as validate selects",
                  "the expectations of a test that failed on its exit code are regenerated from %s regardless of the configured stream: with `output_stream: stderr` the "
                  "written test is validated against stderr and fails on the very output it was generated from" % (flds or src.show()[:60]))


def run(ctx):
    ctx.run_rule("R9.1", "Markdown fences: same `\"`\".repeat(max_backtick_size(body)+c)` value opens and closes, c>=1, measured text == emitted text; max_backtick_size >= 2, max over all lines [E-FLOW]", r9_1, floor=12)
    ctx.run_rule("R9.2", "no str::trim* is applied to a generated test body anywhere in src/generators [E-FLOW sweep]", r9_2, floor=2)
    ctx.run_rule("R9.3", "generate_testcase: matched expectations via original_string; unexpected lines via escaped_expectation(trim_newlines(line)) + ` (no-eol)` exactly on !ends_with(\\n) [E-FLOW, E-PATH]", r9_3, floor=8)
    ctx.run_rule("R9.8", "writer/reader syntax-class cross-check: each form the reader interprets (` (kind q)` suffix, `[n]`, `$ `, `> `) is tested on the writer path [E-TABLE]", r9_8, floor=4)
    ctx.run_rule("R9.7", "the shell expression is written back verbatim (`$ `/`> ` + line): no trim/replace in generate_testcase_expression [E-FLOW]", r9_7, floor=3)
    ctx.run_rule("R9.6", "sibling agreement: ` (no-eol)` is never appended after an ` (escaped)` marker (guarded like OutputStream::to_output_string) [E-PATH control dependence]", r9_6, floor=3)
    ctx.run_rule("R9.5", "escaped renderings never contain the decoder's introducer unescaped; ` (escaped)` exactly when the rendering differs (shared with C11 R11.2/R11.3) [E-PATH]", r9_5, floor=10)
    from . import c06 as _c06
    ctx.run_rule("R9.9", "writer/reader fence agreement: the parser closes a block on a column-0 prefix test against the opening fence - what the writer's max_backtick_size measures (shared with C06 R6.9) [E-TABLE]", _c06.r6_9, floor=3)
    ctx.run_rule("R9.4", "writer/reader tables: `$ `/`> ` prefixes, exit-code line iff code != 0, `[n]` form accepted by the reader's pattern [E-TABLE]", r9_4, floor=6)
    ctx.run_rule("R9.10", "the test generator's `[n]` sites are recorded per arm; the InvalidExitCode arm regenerates the expectations from the stream validation compares them with and writes none of the old ones back (F32) [E-PATH, E-FLOW]", r9_10, floor=3)
