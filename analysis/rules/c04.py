"""C04 — each expectation kind matches exactly the lines the documentation says (structural part)."""
import os
import re

from ..cfgq import bool_edges, cond_tree, explore, promoted_tree, stmt_loc, variant_edges
from ..facts import AnchorError, Origins, callee_name, method_name, mname, peel, strip_mods, TRANSPARENT
from ..fmtq import FmtError, pieces
from . import escape_tables

GROUP_PREFIX = {"^(?:", "^(", "\\A(?:", "\\A("}
GROUP_SUFFIX = {")$", ")\\z"}
BARE_PREFIX = {"^", "\\A"}
BARE_SUFFIX = {"$", "\\z"}


def _regex_new_sites(f):
    return [(bb, t) for bb, t in f.calls() if method_name(callee_name(t, resolved=False) or "") == "Regex::new"]


def _anchoring(ctx, f, key, allow_bare, dyn_ok):
    o = Origins(f)
    sites = _regex_new_sites(f)
    if len(sites) != 1:
        raise AnchorError("%s: expected one Regex::new call, found %d" % (f.npath, len(sites)))
    bb, t = sites[0]
    tree = o.operand(t["args"][0])
    try:
        ps = pieces(tree)
    except FmtError as e:
        ctx.bad(key, f.loc(bb), "regex source is not a decodable format!: %s" % e)
        return None
    dyn = [p for p in ps if not isinstance(p, str)]
    lits = [p for p in ps if isinstance(p, str)]
    if len(dyn) != 1 or len(ps) != 3 or isinstance(ps[0], tuple) or isinstance(ps[2], tuple):
        ctx.bad(key, f.loc(bb), "regex source is not `<prefix>{expr}<suffix>`: %s" % [p if isinstance(p, str) else "{}" for p in ps])
        return None
    pre, suf = ps[0], ps[2]
    grouped = pre in GROUP_PREFIX and suf in GROUP_SUFFIX
    bare = pre in BARE_PREFIX and suf in BARE_SUFFIX
    if grouped:
        ctx.ok(key, f.loc(bb), "regex is anchored around a group: %r{}%r" % (pre, suf))
    elif bare and allow_bare:
        ctx.ok(key, f.loc(bb), "bare anchors %r{}%r around an alternation-free body (see R4.4)" % (pre, suf))
    elif bare:
        ctx.bad(key, f.loc(bb), "the user expression is wrapped as %r{}%r without a group: for `a|b` the anchors bind to the alternatives "
                                "(`^a` or `b$`), so a line merely starting with `a` or ending in `b` matches" % (pre, suf),
                {"template": [pre, "{}", suf]})
    else:
        ctx.bad(key, f.loc(bb), "regex is not anchored at both ends: %r{}%r" % (pre, suf))
    dyn_ok(dyn[0][1], f, bb)
    return dyn[0][1]


def r4_1(ctx):
    f = ctx.prog.impl_fn("RegexRule", "RuleMaker", "make")

    def dyn_ok(tree, f, bb):
        names = [method_name(n) for n in tree.call_names()]
        want = ["escape_misused_character_class", "escape_misused_repetition_quantifier", "cleanup_unrecognized_escape_sequences"]
        got = [n for n in names if n in want]
        leaf_ok = any(l.kind == "arg" and l.a == 1 for l in tree.leaves())
        ctx.check(got == want and leaf_ok, "regex-body-source", f.loc(bb),
                  "the anchored body is the expression after the three clean-up passes",
                  "the anchored body is %s" % tree.show()[:200])
    _anchoring(ctx, f, "regex-anchoring", False, dyn_ok)
    g = ctx.prog.fn("glob_to_regex_string")
    o = Origins(g)
    r0 = o.local(0)
    try:
        ps = pieces(r0)
        pre, suf = ps[0], ps[-1]
        ctx.check(len(ps) == 3 and pre in BARE_PREFIX | GROUP_PREFIX and suf in BARE_SUFFIX | GROUP_SUFFIX, "cram-glob-anchoring", g.where(),
                  "cram glob regex is anchored at both ends: %r{}%r" % (pre, suf))
    except FmtError as e:
        ctx.bad("cram-glob-anchoring", g.where(), "cram glob regex is not a decodable format!: %s" % e)


# line-flow table: impl -> (exact chain of non-transparent callees from `line` to the result, other side chain)
FLOW = {
    "EqualRule": (["PartialEq::eq"], ["BytesNewline::assure_newline"]),
    "EqualNoEolRule": (["PartialEq::eq"], []),
    "EscapedRule": (["BytesNewline::trim_newlines", "PartialEq::eq"], None),
    "GlobRule": (["BytesNewline::trim_newlines", "String::from_utf8_lossy", "WildMatchPattern::matches"], None),
    "CramGlobRule": (["BytesNewline::trim_newlines", "Regex::is_match"], None),
    "RegexRule": (["BytesNewline::trim_newlines", "Regex::is_match"], None),
}
SKIP = TRANSPARENT | {"Index::index"}


def _chain_to(node, pred):
    """list of call names on the path from the leaf satisfying pred up to the root (leaf-first)"""
    if pred(node):
        return []
    for k in node.kids:
        c = _chain_to(k, pred)
        if c is not None:
            if node.kind == "call":
                return c + [method_name(node.a)]
            if node.kind in ("un", "bin"):
                return c + [node.kind + ":" + str(node.a)]
            return c
    return None


def r4_2(ctx):
    prog = ctx.prog
    impls = [b for b in prog.bodies if b.promoted is None and b.kind == "AssocFn" and b.name == "matches" and b.impl_trait and b.impl_trait.endswith("rule::Rule")]
    seen = set()
    for f in impls:
        ty = strip_mods(f.impl_self)
        seen.add(ty)
        if ty not in FLOW:
            ctx.bad("flow:" + ty, f.where(), "Rule impl %s is not in the documented kind table" % ty)
            continue
        o = Origins(f)
        root = o.local(0)
        chain = _chain_to(root, lambda n: n.kind == "arg" and n.a == 2)
        if chain is None:
            ctx.bad("flow:" + ty, f.where(), "the result of %s::matches does not depend on the line" % ty)
            continue
        chain = [c for c in chain if c not in SKIP]
        want, other = FLOW[ty]
        ctx.check(chain == want, "flow:" + ty, f.where(),
                  "%s::matches: line -> %s (whole-line comparator, only the documented newline handling)" % (ty, " -> ".join(want)),
                  "%s::matches: line flows through %s, documented is %s" % (ty, chain, want))
        if other is not None:
            ch2 = _chain_to(root, lambda n: n.kind == "field" and n.a == "0" and n.kids and peel(n.kids[0]).kind == "arg" and peel(n.kids[0]).a == 1)
            ch2 = [c for c in (ch2 or []) if c not in SKIP and c != "PartialEq::eq"]
            ctx.check(ch2 == other, "expr:" + ty, f.where(), "%s::matches: expression side is %s" % (ty, " -> ".join(other)),
                      "%s::matches: expression side flows through %s, documented is %s" % (ty, ch2, other))
    missing = set(FLOW) - seen
    ctx.check(not missing, "impl-set", "-", "all six Rule impls found", "Rule impls missing: %s" % sorted(missing))
    # Expectation::matches forwards to the rule unchanged (shared with R1.7)
    e = prog.fn("Expectation::matches")
    o = Origins(e)
    r = o.local(0)
    good = r.kind == "call" and method_name(r.a) == "Rule::matches" and peel(r.kids[1]).kind == "arg" and peel(r.kids[1]).a == 2 \
        and "rule" in peel(r.kids[0]).show()
    ctx.check(good, "expectation-forwards", e.where(), "Expectation::matches(line) == self.rule.matches(line), not negated or combined",
              "Expectation::matches is %s" % r.show()[:160])


def _promoted_strs(prog, body, node):
    n = peel(node)
    if n.kind == "const":
        tb = n.a.str_table()
        if tb is not None:
            return tb
        pt = promoted_tree(prog, body, n.a)
        if pt is not None:
            arr = peel(pt)
            if arr.kind == "agg" and arr.a[0] == "array":
                out = []
                for k in arr.kids:
                    k = peel(k)
                    if k.kind == "const" and k.a.as_str() is not None:
                        out.append(k.a.as_str())
                    else:
                        return None
                return out
    return None


def _registrations(prog, f):
    o = Origins(f)
    out = []
    for bb, t in f.calls():
        if (callee_name(t) or "").endswith("RuleRegistry::register"):
            mk = peel(o.operand(t["args"][1]))
            names = _promoted_strs(prog, f, o.operand(t["args"][2]))
            maker = None
            if mk.kind == "const" and mk.a.fn_item() and mk.a.fn_item().endswith("RuleMaker::make"):
                maker = strip_mods(mk.a.fn_args().strip("[]"))
            out.append((bb, maker, names))
    return out


def doc_kind_names(repo):
    p = os.path.join(repo, "website/docs/reference/fundamentals/output-expectations.md")
    names = {}
    for line in open(p, encoding="utf-8"):
        m = re.match(r"\s*<([a-z-]+)-kind>\s*::=\s*(\".*)$", line)
        if m:
            names[m.group(1)] = re.findall(r"\"([^\"]+)\"", m.group(2))
    return names


def r4_3(ctx):
    prog = ctx.prog
    d = prog.impl_fn("RuleRegistry", "Default", "default")
    regs = _registrations(prog, d)
    if len(regs) < 5:
        raise AnchorError("RuleRegistry::default: expected >= 5 register calls, found %d" % len(regs))
    kinds = {}
    for b in prog.bodies:
        if b.promoted is None and b.kind == "AssocFn" and b.name == "kind" and b.impl_trait and b.impl_trait.endswith("rule::Rule"):
            r = peel(Origins(b).local(0))
            kinds[strip_mods(b.impl_self)] = r.a.as_str() if r.kind == "const" else None
    all_names = []
    for bb, maker, names in regs:
        if maker is None or names is None:
            ctx.bad("register:?", d.loc(bb), "registration is not `register(<Rule>::make, &[literal names])`")
            continue
        all_names += names
        ctx.check(names and names[0] == kinds.get(maker), "register:" + maker, d.loc(bb),
                  "%s is registered as %s and its kind() is %r (first name)" % (maker, names, kinds.get(maker)),
                  "%s is registered under %s but its kind() returns %r: the canonical rendering re-parses to a different rule" % (maker, names, kinds.get(maker)))
    ctx.check(len(all_names) == len(set(all_names)), "names-unique", d.where(), "no name is registered twice in the default registry",
              "a name is registered twice (the later maker silently wins): %s" % sorted(all_names))
    docs = doc_kind_names(ctx.repo)
    doc_all = sorted(n for v in docs.values() for n in v)
    ctx.check(sorted(all_names) == doc_all, "names-vs-doc", d.where(),
              "registered names equal the documented BNF: %s" % doc_all, "registered names %s differ from the documented BNF %s" % (sorted(all_names), doc_all))
    for kind_label, names in docs.items():
        owner = [mk for _, mk, ns in regs if ns and set(ns) == set(names)]
        ctx.check(len(owner) == 1 and kinds.get(owner[0]) == names[0], "doc-kind:" + kind_label, d.where(),
                  "documented <%s-kind> %s is one maker (%s) whose kind() is %r" % (kind_label, names, owner, names[0]))
    # cram override: exactly glob/gl, with CramGlobRule, on the cram_compat edge
    m = prog.fn("make_expectation_maker")
    regs2 = _registrations(prog, m)
    ok = len(regs2) == 1 and regs2[0][1] == "CramGlobRule" and sorted(regs2[0][2] or []) == sorted(docs.get("glob", []))
    ctx.check(ok, "cram-override", m.where(), "cram compatibility overrides exactly %s with CramGlobRule" % docs.get("glob"),
              "cram compatibility registers %s" % [(mk, ns) for _, mk, ns in regs2])
    if regs2:
        bb = regs2[0][0]
        guards = [sb for sb in range(len(m.blocks)) if m.blocks[sb]["term"]["k"] == "switch" and bool_edges(m, sb)]
        g_ok = False
        for sb in guards:
            tt, tf = bool_edges(m, sb)
            src = peel(Origins(m).operand(m.blocks[sb]["term"]["discr"]))
            if src.kind == "arg" and src.a == 1 and bb in m.reachable(tt) and bb not in m.reachable(0, removed_edges=[(sb, tt)]):
                g_ok = True
        ctx.check(g_ok, "cram-override-guard", m.loc(bb), "the override happens exactly on the cram_compat edge")
    ctx.check(kinds.get("CramGlobRule") == kinds.get("GlobRule") == "glob", "cram-kind", m.where(), "both glob implementations render as kind `glob`")


def r4_4(ctx):
    g = ctx.prog.fn("glob_to_regex_string")
    o = Origins(g)
    back = g.back_edges()
    # the switch on the current character
    sw = None
    for bi, b in enumerate(g.blocks):
        t = b["term"]
        if t["k"] == "switch" and t["ty"] == "char":
            sw = (bi, t)
    if sw is None:
        raise AnchorError("glob_to_regex_string: no switch on a char")
    sb, st = sw
    arms = {int(v): tg for v, tg in st["targets"]}
    other = st["otherwise"]
    reach = {v: g.reachable(tg, removed_edges=back) for v, tg in arms.items()}
    reach["otherwise"] = g.reachable(other, removed_edges=back)
    writes = []
    for bb, t in g.calls():
        m = method_name(callee_name(t, resolved=False) or "")
        if m in ("String::push", "String::push_str", "String::insert", "String::insert_str", "String::extend", "Extend::extend"):
            recv = g.canon_place(t["args"][0].get("move") or t["args"][0].get("copy"))
            writes.append((bb, t, m))
    if len(writes) < 4:
        raise AnchorError("glob_to_regex_string: expected >= 4 writes into the result, found %d" % len(writes))
    allowed_lit = {(ord("?"), "."), (ord("*"), ".*")}
    n_escape = 0
    for bb, t, m in writes:
        arg = peel(o.operand(t["args"][1]))
        owners = [v for v in reach if bb in reach[v]]
        excl = [v for v in owners if v != "otherwise" and bb not in reach["otherwise"]]
        where = g.loc(bb)
        if arg.kind == "const":
            lit = arg.a.as_str() if arg.a.as_str() is not None else arg.a.as_char()
            good = len(excl) == 1 and (excl[0], lit) in allowed_lit
            ctx.check(good, "glob-literal:%r" % lit, where, "glob char %r emits the regex fragment %r" % (chr(excl[0]) if excl else "?", lit),
                      "glob_to_regex_string emits the literal regex fragment %r in arm %s: only `?`->`.` and `*`->`.*` may be raw regex syntax "
                      "(an unescaped `|`/group would also break the bare `^..$` anchoring)" % (lit, [chr(v) if isinstance(v, int) else v for v in owners]))
        elif any(method_name(c) == "escape" or c.endswith("regex::escape") or c == "escape" for c in arg.call_names()):
            n_escape += 1
            ctx.ok("glob-escaped", where, "other characters pass through regex::escape")
        else:
            # raw copy of a character: only for the escaped pair, i.e. unreachable within an iteration unless both the `ch == '\\'`
            # edge and the `next in {*,?,\\}` edge are taken (arm + guard, or a hoisted look-ahead; decided path-sensitively)
            in_bs = _raw_copy_guarded(ctx, g, o, bb, back)
            ctx.check(in_bs, "glob-raw-copy", where, "raw copy of a character only for the escaped pair `\\` + one of * ? \\",
                      "glob_to_regex_string copies %s into the regex unescaped outside the `\\x` escape arm" % arg.show()[:80])
    ctx.check(n_escape >= 1, "glob-escape-present", g.where(), "the default arm escapes through regex::escape",
              "no write into the regex passes regex::escape: literal characters are no longer escaped")
    vals = _escape_pair_values(ctx, g, o)
    ctx.check(vals == sorted(["*", "?", "\\"]), "glob-escape-pairs", g.where(), "escapable glob characters are exactly * ? \\",
              "escapable glob characters are %s" % vals)


def _bs_edges(g, o):
    """CFG edges taken exactly when the current character is a backslash"""
    out = []
    for bi, b in enumerate(g.blocks):
        t = b["term"]
        if t["k"] != "switch":
            continue
        if t["ty"] == "char":
            arms = {int(v): tg for v, tg in t["targets"]}
            if 0x5c in arms and arms[0x5c] != t["otherwise"] and list(arms.values()).count(arms[0x5c]) == 1:
                out.append((bi, arms[0x5c]))
        else:
            be = bool_edges(g, bi)
            if be:
                tree = cond_tree(g, bi, o)
                neg = False
                while tree.kind == "un" and tree.a == "Not":
                    neg, tree = not neg, tree.kids[0]
                if tree.kind == "bin" and tree.a in ("Eq", "Ne") and any(k.kind == "const" and k.a.as_char() == "\\" for k in tree.kids):
                    if tree.a == "Ne":
                        neg = not neg
                    out.append((bi, be[1] if neg else be[0]))
    return out


def _member_edges(ctx, g, o):
    """(edges taken exactly when the look-ahead character is one of the escapable set, that set)"""
    edges, vals = [], None
    for bb, t in g.calls():
        if method_name(callee_name(t, resolved=False) or "") in ("slice::contains", "contains"):
            tb = peel(o.operand(t["args"][0]))
            if tb.kind == "const":
                pt = promoted_tree(ctx.prog, g, tb.a)
                if pt is not None:
                    arr = peel(pt)
                    if arr.kind == "agg":
                        vals = sorted(peel(k).a.as_char() for k in arr.kids if peel(k).kind == "const")
            be = bool_edges(g, t["target"])
            if be:
                edges.append((t["target"], be[0]))
    for bi, b in enumerate(g.blocks):
        t = b["term"]
        if t["k"] == "switch" and t["ty"] == "char":
            arms = {int(v): tg for v, tg in t["targets"]}
            tgs = set(arms.values())
            if len(arms) >= 2 and len(tgs) == 1 and t["otherwise"] not in tgs:
                edges.append((bi, tgs.pop()))
                vals = sorted(chr(v) for v in arms)
    return edges, vals


def _escape_pair_values(ctx, g, o):
    return _member_edges(ctx, g, o)[1]


def _raw_copy_guarded(ctx, g, o, bb, back):
    bs = _bs_edges(g, o)
    mem, _ = _member_edges(ctx, g, o)
    # membership tests whose result is not branched on directly (folded into a bool, or computed by an inlined helper) are decided by hypothesis
    mem_calls = [cb for cb, t in g.calls() if method_name(callee_name(t, resolved=False) or "") in ("slice::contains", "contains")]
    if not bs or not (mem or mem_calls):
        return False
    without_bs = explore(g, 0, removed_edges=list(back) + bs)
    if mem_calls:
        without_mem = explore(g, 0, removed_edges=list(back), assume={c_: False for c_ in mem_calls})
    else:
        without_mem = explore(g, 0, removed_edges=list(back) + mem)
    return bb not in without_bs and bb not in without_mem and bb in explore(g, 0, removed_edges=list(back))


def r4_5(ctx):
    escape_tables.check_decoder_tables(ctx)


ENGINE_OPTIONS = {"unicode", "case_insensitive", "multi_line", "dot_matches_new_line", "swap_greed", "ignore_whitespace", "crlf", "octal", "utf8", "line_terminator"}


def r4_6(ctx):
    """the documented meaning of a pattern (`?`/`.` = one *character*, case sensitive, `$` = end of text ..) is that of the regex crate's
    defaults: every matcher in src/rules is built with Regex::new, or with a builder that sets no option which changes matching"""
    prog = ctx.prog
    n = 0
    for b in prog.bodies:
        if b.promoted is not None or "::tests" in b.npath or not b.file.startswith("src/rules/"):
            continue
        for bb, t in b.calls():
            m = method_name(callee_name(t, resolved=False) or "")
            last = m.split("::")[-1]
            if m in ("Regex::new",) or m.endswith("RegexBuilder::new") or m.endswith("RegexBuilder::build") or m == "RegexSet::new":
                n += 1
                ctx.ok("regex-site:%s#%d" % (b.npath.split("::")[-1] if not b.npath.startswith("<") else b.name, n), b.loc(bb), "%s (engine defaults unless an option is set)" % m, obligation=False)
            if "RegexBuilder" in m and last in ENGINE_OPTIONS:
                n += 1
                ctx.bad("regex-option:%s:%s" % (b.npath.split("::")[-1] if not b.npath.startswith("<") else b.name, last), b.loc(bb),
                        "%s sets the engine option `%s`: the pattern no longer means what the documentation of the rule says (e.g. with unicode(false) "
                        "`?` / `.` match one byte, not one character, so `caf? (glob)` stops matching `caf\u00e9`)" % (b.npath, last))
    ctx.check(n >= 3, "regex-sites", "-", "%d regex construction sites in src/rules analysed" % n, "only %d regex construction sites found in src/rules" % n)


def r4_7(ctx):
    """first regex clean-up pass: `\\c` keeps its backslash for every regex metacharacter c - including the backslash itself (`\\\\` is an escaped
    backslash; dropping one lets the other fuse with the next character: `a\\\\b` would compile as `a\\b`, a word boundary)"""
    prog = ctx.prog
    f = prog.fn("cleanup_unrecognized_escape_sequences")
    o = Origins(f)
    sws = [(bi, b["term"]) for bi, b in enumerate(f.blocks) if not b["cleanup"] and b["term"]["k"] == "switch" and b["term"]["ty"] == "char"]
    intro = [(bi, t) for bi, t in sws if [int(v) for v, _ in t["targets"]] == [92]]
    if len(intro) != 1:
        raise AnchorError("cleanup_unrecognized_escape_sequences: the `ch == '\\\\'` test was not found")
    ib, it = intro[0]
    ch = f.canon_place(it["discr"].get("copy") or it["discr"].get("move"))
    bs_target = it["targets"][0][1]
    # blocks that push the introducer again, after the following character was read
    nexts = [bb for bb, t in f.calls() if mname(t) == "Iterator::next" and bb in f.reachable(bs_target, removed_edges=f.back_edges())]
    keeps = []
    for bb, t in f.calls():
        if mname(t) == "String::push" and bb in f.reachable(bs_target, removed_edges=f.back_edges()):
            pl = t["args"][1].get("copy") or t["args"][1].get("move")
            if pl is not None and f.canon_place(pl) == ch:
                keeps.append(bb)
    # which characters keep their backslash: decided per character by folding the CFG with `ch == '\\\\'` and `ch2 == c` (arms, guards, a
    # `contains` on a constant string, or a predicate helper that was inlined all fold the same way)
    from ..casefold import cases
    reads = [(bb, t) for bb, t in f.calls() if mname(t) == "Iterator::next" and bb in f.reachable(bs_target, removed_edges=f.back_edges())]
    if len(reads) != 1:
        raise AnchorError("cleanup_unrecognized_escape_sequences: the read of the escaped character was not found")
    rb, rt = reads[0]
    ve2, rv2 = variant_edges(f, rt["target"])
    if ve2 is None or "Some" not in ve2:
        raise AnchorError("cleanup_unrecognized_escape_sequences: the escaped character is not matched")
    ch2 = None
    for st in f.blocks[ve2["Some"]]["stmts"]:
        if st["k"] == "assign" and not st["lhs"]["p"] and st["rv"]["k"] == "use":
            src = st["rv"]["op"].get("copy") or st["rv"]["op"].get("move")
            if src and src["l"] == rt["dest"]["l"] and src["p"]:
                ch2 = st["lhs"]["l"]
    if ch2 is None:
        raise AnchorError("cleanup_unrecognized_escape_sequences: the local holding the escaped character was not found")
    heads = {h for _, h in f.back_edges()}
    kept, sources = set(), ["case folding over %d characters" % 0]

    def keeps_backslash(c):
        def valmap(pl):
            if pl["p"]:
                return None
            if pl["l"] == ch2:
                return ord(c)
            if f.canon_place(pl) == ch:
                return 92
            return None

        def oracle(t, val):
            m = mname(t)
            if m in ("str::contains", "slice::contains") and len(t["args"]) == 2:
                hay = peel(o.operand(t["args"][0]))
                lit = hay.a.as_str() if hay.kind == "const" else None
                if lit is None and hay.kind == "const":
                    pt = promoted_tree(prog, f, hay.a)
                    if pt is not None:
                        lit = "".join(k.a.as_char() or "" for k in pt.walk() if k.kind == "const" and k.a.as_char())
                v = val(t["args"][1])
                if lit is not None and v is not None:
                    return int(chr(v) in lit)
            if m in ("char::is_ascii_alphabetic", "char::is_alphabetic"):
                pl = t["args"][0].get("copy") or t["args"][0].get("move")
                cp = f.canon_place({"l": pl["l"], "p": list(pl["p"]) + ["*"]}) if pl else None
                if cp is not None and cp == f.canon_place({"l": ch2, "p": []}):
                    return int(c.isalpha() and c.isascii())
            return None
        verdicts = set()
        for r in cases(f, valmap, oracle, start=ve2["Some"], max_visits=1):
            path = r["path"]
            stop = next((i for i, b_ in enumerate(path) if b_ in heads and i > 0), len(path))
            verdicts.add(any(b_ in keeps for b_ in path[:stop]))
        return verdicts == {True}
    probe = sorted(set("[]{}()|?*+-.^$\\") | set("dwsDWSbBnrtAzx") | set("!#%&',/:;<=>@_`~\" 0"))
    for c in probe:
        if keeps_backslash(c):
            kept.add(c)
    sources = ["case folding over %d characters" % len(probe)]
    letters = all(c in kept for c in "dwsDWSbB")
    need = set("[]{}()|?*+-.^$\\")
    missing = sorted(need - kept)
    ctx.check(bool(keeps), "cleanup:keep-site", f.where(), "the pass re-emits the backslash for recognised escapes (%d site(s))" % len(keeps),
              "no site that keeps the backslash of a recognised escape")
    ctx.check(not missing, "cleanup:metacharacters", f.where(),
              "`\\c` keeps its backslash for every regex metacharacter incl. `\\` itself (%s)" % ", ".join(sorted(set(sources))),
              "the backslash is dropped in front of %s: an escaped %s in a (regex) expectation changes its meaning (`a\\\\b` compiles as `a\\b`)" %
              (missing, "backslash" if "\\" in missing else "metacharacter"))
    ctx.check(letters, "cleanup:letters", f.where(), "letter escapes (`\\d`, `\\w`, `\\S` ..) keep their backslash", "no letter test in the clean-up pass")


def r4_9(ctx):
    """(a) the clean-up that escapes `misused` curly brackets must know every valid repetition quantifier of the regex crate - `{n}`, `{n,m}` and the
    open-ended `{n,}` - otherwise a valid expression is compiled as literal text (F40): the pattern constant is evaluated on a table;
    (b) the two digits of `\\xHH` / `\\0OO` are validated as digits before u8::from_str_radix, which accepts a sign (F42)"""
    import re as _re
    from .c01 import _all_consts
    prog = ctx.prog
    init = [b for b in prog.bodies if b.promoted is None and "VALID_REPETITION_QUANTIFIER" in b.npath and b.npath.endswith("__static_ref_initialize")]
    if len(init) != 1:
        raise AnchorError("VALID_REPETITION_QUANTIFIER initialiser not found (%d)" % len(init))
    pats = [c.as_str() for b_ in [init[0]] + prog.promoted_of(init[0]) for c, _ in _all_consts(b_) if c.as_str() and "{" in c.as_str()]
    if len(pats) != 1:
        raise AnchorError("VALID_REPETITION_QUANTIFIER: pattern constant not found (%s)" % pats)
    try:
        rx = _re.compile(pats[0])
    except _re.error as e:
        ctx.bad("valid-quantifier-pattern", init[0].where(), "pattern %r cannot be evaluated (%s)" % (pats[0], e))
        return
    must = ["{2}", "{10}", "{2,3}", "{2,}", "{0,}"]
    must_not = ["{}", "{a}", "{,3}", "{2,a}", "{ 2}"]
    miss = [x for x in must if not rx.fullmatch(x)]
    extra = [x for x in must_not if rx.fullmatch(x)]
    ctx.check(not miss and not extra, "valid-quantifier-table", init[0].where(), "the pattern %r recognises {n}, {n,m} and {n,} and nothing else of the table" % pats[0],
              "the pattern %r does not recognise %s%s as a valid repetition quantifier: such a quantifier is escaped, `a{2,} (regex)` matches the text `a{2,}` and "
              "not `aaa`" % (pats[0], miss, (" and accepts %s" % extra) if extra else ""))
    # the expression side of an escaped glob is decoded strictly: GlobRule::matches compares lossy text of the *line*, where every invalid byte is U+FFFD -
    # an expression that were decoded lossily too would match lines with *other* invalid bytes at those places
    au = prog.fn("apply_escaped_filter_utf8")
    lossy = [au.loc(bb) for bb, t in au.calls() if (mname(t) or "").endswith("from_utf8_lossy")]
    strict = [bb for bb, t in au.calls() if (mname(t) or "") in ("String::from_utf8", "str::from_utf8")]
    ctx.check(bool(strict) and not lossy, "escaped-glob-strict-utf8", lossy[0] if lossy else au.where(), "apply_escaped_filter_utf8 rejects resolved bytes that are not UTF-8",
              "apply_escaped_filter_utf8 decodes the resolved bytes lossily: `caf\\xe9 (esc) (glob)` then matches `caf\\xe8` and `caf\\xff` (every invalid byte is U+FFFD on both sides)")
    f = prog.fn("resolve_escape_sequences_to_bytes")
    bodies = [f] + prog.closures_of(f)
    # closures of helpers that were inlined at several sites keep their own definition path
    inl = set(getattr(prog, "inlined", []) or [])
    bodies += [b_ for b_ in prog.bodies if b_.promoted is None and b_.kind == "Closure" and any(b_.path.startswith(h.split("::", 1)[-1]) or b_.path.startswith(h) for h in inl)
               and "escaped_filter" in b_.file and b_ not in bodies]
    # counted by source position: a helper inlined at two call sites is one conversion and one test
    radix = sorted({b_.loc(bb) for b_ in bodies for bb, t in b_.calls() if (mname(t) or "").endswith("from_str_radix")})
    valid = sorted({b_.loc(bb) for b_ in bodies for bb, t in b_.calls() if (mname(t) or "").split("::")[-1] in ("is_ascii_hexdigit", "is_digit", "to_digit", "is_ascii_digit", "is_ascii_octdigit")})
    ctx.check(bool(radix) and len(valid) >= len(radix), "digits-validated", f.where(), "each of the %d from_str_radix conversions is preceded by a digit-class test (%d)" % (len(radix), len(valid)),
              "%d from_str_radix conversion(s), %d digit-class test(s): from_str_radix accepts a sign, `\\x+1` resolves to the byte 0x01 instead of being rejected" % (len(radix), len(valid)))


def run(ctx):
    ctx.run_rule("R4.1", "RegexRule::make anchors a *group* around the cleaned expression (`^(?:..)$`); the cram glob regex is anchored too [E-FLOW]", r4_1, floor=3)
    ctx.run_rule("R4.2", "per Rule impl the line reaches the whole-line comparator only through the documented transforms [E-FLOW]", r4_2, floor=8)
    ctx.run_rule("R4.3", "registry: first registered name == kind(); names == documented BNF; cram overrides exactly glob/gl [E-TABLE]", r4_3, floor=12)
    ctx.run_rule("R4.4", "glob_to_regex_string emits raw regex syntax only for `?`->`.`, `*`->`.*` and the escaped pairs; everything else via regex::escape [E-TABLE]", r4_4, floor=5)
    ctx.run_rule("R4.6", "every matcher in src/rules is built with the regex crate's default semantics (no unicode(false), case_insensitive, multi_line .. on a builder) [E-SITE]", r4_6, floor=3)
    ctx.run_rule("R4.7", "regex clean-up pass 1: the backslash is kept in front of every regex metacharacter incl. the backslash, and in front of letters [E-TABLE]", r4_7, floor=3)
    ctx.run_rule("R4.5", "escape decoder tables (letter escapes, \\xHH radix 16 x2 digits, \\0OO radix 8, \\\\) [E-TABLE]", r4_5, floor=6)
    from . import c01
    ctx.run_rule("R4.8", "the text every rule kind compares is the line without its line feed(s) only: trim_newlines names no character but `\\n` (shared with C01 R1.9) [E-TABLE of constants]", c01.r1_9, floor=3)
    ctx.run_rule("R4.9", "escaped glob expressions are decoded strictly; the quantifier clean-up knows {n}, {n,m} and {n,} (pattern constant evaluated on a table); hex / octal digits are validated before from_str_radix (F40, F42) [E-TABLE]", r4_9, floor=2)
