"""E-TABLE extraction for the escape encoder (`byte_to_ascii`) and decoders (`unescape_tabs`,
`resolve_escape_sequences_to_bytes`), shared by C04 (R4.5), C09 and C11.

Tables are read from the switch arms / constant comparisons of the current MIR; the only
"evaluation" is deciding `switchInt` and `<,<=,==` comparisons between the scrutinee byte and
constants for each of the 256 byte values (a finite set of orderings), never running scrut."""
from ..facts import AnchorError, Origins, callee_name, method_name, peel
from ..fmtq import FmtError, pieces

ZERO_PAD = 1 << 24


def _const_int(op):
    if "const" in op:
        v = op["const"].get("val")
        if v and v.get("kind") == "int":
            return int(v["bits"])
    return None


def follow(body, value, is_scrut, start=0, limit=200):
    """path of blocks taken from `start` when every place for which is_scrut(place) holds has the
    integer `value`; stops at return or at a switch it cannot decide (returns path, stop_reason)"""
    known = {}
    path = []
    b = start
    for _ in range(limit):
        path.append(b)
        blk = body.blocks[b]

        def val(op):
            c = _const_int(op)
            if c is not None:
                return c
            pl = op.get("copy") or op.get("move")
            if pl is None:
                return None
            if is_scrut(pl):
                return value
            if not pl["p"] and pl["l"] in known:
                return known[pl["l"]]
            return None
        for st in blk["stmts"]:
            if st["k"] != "assign" or st["lhs"]["p"]:
                continue
            rv = st["rv"]
            l = st["lhs"]["l"]
            known.pop(l, None)
            if rv["k"] == "use":
                v = val(rv["op"])
                if v is not None:
                    known[l] = v
            elif rv["k"] == "cast" and rv["cast"].startswith("IntToInt"):
                v = val(rv["op"])
                if v is not None:
                    known[l] = v
            elif rv["k"] == "bin":
                a, c = val(rv["a"]), val(rv["b"])
                if a is not None and c is not None:
                    op = rv["op"]
                    r = {"Le": a <= c, "Lt": a < c, "Ge": a >= c, "Gt": a > c, "Eq": a == c, "Ne": a != c}.get(op)
                    if r is not None:
                        known[l] = int(r)
            elif rv["k"] == "un" and rv["op"] == "Not":
                v = val(rv["a"])
                if v is not None:
                    known[l] = int(not v)
        t = blk["term"]
        if t["k"] == "return":
            return path, "return"
        if t["k"] == "switch":
            v = val(t["discr"])
            if v is None:
                return path, "undecided"
            nxt = None
            for sv, tg in t["targets"]:
                if int(sv) == v:
                    nxt = tg
            b = nxt if nxt is not None else t["otherwise"]
            continue
        s = body.succ(b)
        if len(s) != 1:
            return path, "end"
        if t["k"] == "call" and not t["dest"]["p"]:
            known.pop(t["dest"]["l"], None)
        b = s[0]
    return path, "limit"


def encoder_table(prog):
    """{byte: ('lit', text) | ('id',) | ('hex', width, zero_pad, prefix)}"""
    f = prog.fn("byte_to_ascii")
    o = Origins(f)

    def is_scrut(pl):
        return pl["l"] == 1 and pl["p"] == ["*"]
    table = {}
    for b in range(256):
        path, why = follow(f, b, is_scrut)
        if why != "return":
            raise AnchorError("byte_to_ascii: cannot decide the arm for byte 0x%02x (%s)" % (b, why))
        d = [x for x in f.defs.get(0, []) if x[0] in path]
        if len(d) != 1:
            raise AnchorError("byte_to_ascii: byte 0x%02x has %d result definitions on its path" % (b, len(d)))
        bb, si, kind, payload = d[0]
        # origin of the result along this byte's own path (a shared `x.to_string()` behind a match over &'static str has no phi here)
        tree = Origins(f, only_blocks=path)._def(d[0], 0, ())
        n = tree
        if n.kind == "call" and method_name(n.a) == "ToString::to_string":
            src = peel(n.kids[0])
            if src.kind == "const" and src.a.as_str() is not None:
                table[b] = ("lit", src.a.as_str())
                continue
            inner = n.kids[0]
            while inner.kind in ("ref", "deref"):
                inner = inner.kids[0]
            if inner.kind == "cast" and peel(inner).kind == "arg":
                table[b] = ("id",)
                continue
            # std summary: u8::escape_ascii / core::ascii::escape_default - \t \r \n \' \" \\ as two-character escapes, 0x20..=0x7e
            # unchanged, everything else \xNN (lower case)
            if inner.kind == "call" and method_name(inner.a) in ("u8::escape_ascii", "escape_default", "ascii::escape_default") and inner.kids and \
                    peel(inner.kids[0]).kind in ("arg", "deref"):
                std = {0x09: "\\t", 0x0d: "\\r", 0x0a: "\\n", 0x27: "\\'", 0x22: '\\"', 0x5c: "\\\\"}
                if b in std:
                    table[b] = ("lit", std[b])
                elif 0x20 <= b <= 0x7e:
                    table[b] = ("id",)
                else:
                    table[b] = ("hex", 2, True, "\\x")
                continue
            # `char::from(byte)` is the same u8 -> char widening as `byte as char`
            if inner.kind == "call" and method_name(inner.a) in ("From::from", "Into::into", "char::from") and inner.kids and peel(inner.kids[0]).kind == "arg" \
                    and "char" in inner.a:
                table[b] = ("id",)
                continue
            raise AnchorError("byte_to_ascii: unrecognised to_string source for 0x%02x: %s" % (b, n.show()))
        try:
            ps = pieces(n)
        except FmtError as e:
            raise AnchorError("byte_to_ascii: 0x%02x: %s" % (b, e))
        if len(ps) == 2 and isinstance(ps[0], str) and not isinstance(ps[1], str) and ps[1][3] == "lower_hex" and peel(ps[1][1]).kind == "arg":
            spec = ps[1][2]
            table[b] = ("hex", spec.get("width"), bool(spec.get("flags", 0) & ZERO_PAD), ps[0])
        else:
            raise AnchorError("byte_to_ascii: unrecognised format for 0x%02x" % b)
    return f, table


def encode_byte(table, b):
    e = table[b]
    if e[0] == "lit":
        return e[1]
    if e[0] == "id":
        return chr(b)
    _, width, zp, prefix = e
    h = "%x" % b
    if width and len(h) < width:
        h = ("0" if zp else " ") * (width - len(h)) + h
    return prefix + h


def _char_switch(f, name_hint=None):
    """switches on a `char` scrutinee, in block order"""
    out = []
    for bi, b in enumerate(f.blocks):
        t = b["term"]
        if not b["cleanup"] and t["k"] == "switch" and t["ty"] == "char":
            out.append((bi, t))
    return out


def _region(f, target, others, back):
    mine = f.reachable(target, removed_edges=back)
    rest = set()
    for o in others:
        rest |= f.reachable(o, removed_edges=back)
    return mine - rest


def _pushes(f, o, region, kinds=("String::push", "Vec::push", "String::push_str", "Extend::extend", "Vec::extend_from_slice")):
    out = []
    for bb in sorted(region):
        t = f.blocks[bb]["term"]
        if t["k"] == "call" and method_name(callee_name(t, resolved=False) or "") in kinds:
            out.append((bb, t, peel(o.operand(t["args"][1]))))
    return out


def _unescape_table_by_cases(prog, f):
    """fallback for forms where the letter table lives behind an Option (`control_character(ch2) -> Option<char>`, inlined): the function is followed
    for every candidate letter with case folding and the pushed characters are read off the path"""
    from ..casefold import cases, const_int
    sws = _char_switch(f)
    letters = sorted({int(v) for sb_, t_ in sws for v, _ in t_["targets"]})
    intro_sw = [(sb_, t_) for sb_, t_ in sws if [int(v) for v, _ in t_["targets"]] == [92]]
    # the local holding the escaped letter: the discriminant of the switch with the most arms
    sb, t = max(sws, key=lambda x: len(x[1]["targets"]))
    ch2 = (t["discr"].get("copy") or t["discr"].get("move"))["l"]
    # the letter may have been handed to an inlined helper: all locals it was copied from hold the same character
    same = {ch2}
    for _ in range(4):
        for l_ in list(same):
            for d_ in f.defs.get(l_, []):
                if d_[2] == "assign" and d_[3]["k"] == "use":
                    src_ = d_[3]["op"].get("copy") or d_[3]["op"].get("move")
                    if src_ is not None and not src_["p"]:
                        same.add(src_["l"])
    pushes = {bb: tt for bb, tt in f.calls() if method_name(callee_name(tt, resolved=False) or "") == "String::push"}
    table, other = {}, None
    for v in letters + [ord("q")]:
        def valmap(pl, v=v):
            return v if (not pl["p"] and pl["l"] in same) else None
        got = set()
        back = set(f.back_edges())
        for r in cases(f, valmap, start=sb):
            seq = []
            known = r["known"]
            path = r["path"]
            for i_, bb in enumerate(path):
                if i_ > 0 and (path[i_ - 1], bb) in back:
                    break
                if bb in pushes:
                    a = pushes[bb]["args"][1]
                    c = const_int(a)
                    if c is None:
                        pl = a.get("copy") or a.get("move")
                        c = known.get(pl["l"]) if pl is not None and not pl["p"] else None
                        if c is None and pl is not None and not pl["p"] and pl["l"] in same:
                            c = v
                    seq.append(c)
            if seq:
                got.add(tuple(seq))
        if len(got) != 1:
            raise AnchorError("unescape_tabs: letter %r undecided by case folding (%s)" % (chr(v), sorted(got)[:3]))
        seq = got.pop()
        if v == ord("q"):
            other = [("<letter>" if c == v else (chr(c) if c is not None else "?")) for c in seq]
        elif len(seq) == 1 and seq[0] is not None:
            table[chr(v)] = chr(seq[0])
        elif [("<letter>" if c == v else (chr(c) if c is not None else "?")) for c in seq] != ["\\", "<letter>"]:
            raise AnchorError("unescape_tabs: letter %r pushes %s" % (chr(v), seq))
    return table, other


def unescape_table(prog):
    """({letter: pushed char}, otherwise-pushes) of unescape_tabs"""
    f = prog.fn("unescape_tabs")
    o = Origins(f)
    back = f.back_edges()
    sws = _char_switch(f)
    if len(sws) != 1:
        raise AnchorError("unescape_tabs: expected one switch on the escaped letter, found %d" % len(sws))
    sb, t = sws[0]
    arms = {int(v): tg for v, tg in t["targets"]}
    table = {}
    direct = True
    for v, tg in arms.items():
        reg = _region(f, tg, [x for vv, x in arms.items() if vv != v] + [t["otherwise"]], back)
        ps = _pushes(f, o, reg)
        if len(ps) != 1 or ps[0][2].kind != "const" or ps[0][2].a.as_char() is None:
            direct = False
            break
        table[chr(v)] = ps[0][2].a.as_char()
    if direct:
        reg = _region(f, t["otherwise"], list(arms.values()), back)
        other = []
        scrut = t["discr"].get("copy") or t["discr"].get("move")
        for bb, tt, n in _pushes(f, o, reg):
            if n.kind == "const":
                other.append(n.a.as_char())
            else:
                other.append("<letter>" if _is_place(f, tt["args"][1], scrut) else n.show())
    else:
        # the table does not push directly (e.g. `control_character(ch2) -> Option<char>` + one push): decided by case folding
        table, other = _unescape_table_by_cases(prog, f)
    # the introducer test in front of the switch: `ch == INTRO` (switch on its true edge) or `ch != INTRO` (on its false edge)
    intro = None
    for bi, b in enumerate(f.blocks):
        for st in b["stmts"]:
            if st["k"] == "assign" and st["rv"]["k"] == "bin" and st["rv"]["op"] in ("Eq", "Ne") and not st["lhs"]["p"]:
                c = _const_int(st["rv"]["b"])
                if c is None or not f.dominates(bi, sb):
                    continue
                # the bool switch consuming this comparison
                for b2, blk2 in enumerate(f.blocks):
                    t2 = blk2["term"]
                    if t2["k"] != "switch" or t2["ty"] != "bool":
                        continue
                    d2 = t2["discr"].get("move") or t2["discr"].get("copy")
                    if d2 is None or d2["p"] or d2["l"] != st["lhs"]["l"]:
                        continue
                    tr = fl = None
                    for v, tg in t2["targets"]:
                        if int(v) == 0:
                            fl = tg
                    tr = t2["otherwise"] if fl is not None else None
                    if tr is None:
                        continue
                    edge = tr if st["rv"]["op"] == "Eq" else fl
                    if sb in f.reachable(edge, removed_edges=back) and sb not in f.reachable(0, removed_edges=list(back) + [(b2, edge)]):
                        intro = chr(c)
    return f, table, other, intro


def _is_place(f, op, place):
    pl = op.get("copy") or op.get("move")
    if pl is None:
        return False
    a, b = f.canon_place(pl), f.canon_place(place)
    return a == b


def _is_local(f, op, local):
    pl = op.get("copy") or op.get("move")
    if pl is None:
        return False
    return f.canon_place(pl) == f.canon_place({"l": local, "p": []})


def resolve_table(prog):
    """{letter: ('radix', r, ndigits) | ('push', what)} of resolve_escape_sequences_to_bytes"""
    f = prog.fn("resolve_escape_sequences_to_bytes")
    o = Origins(f)
    back = f.back_edges()
    sws = _char_switch(f)
    if len(sws) != 2:
        raise AnchorError("resolve_escape_sequences_to_bytes: expected two char switches (introducer, letter), found %d" % len(sws))
    (ib, it), (sb, t) = sws
    intro = [chr(int(v)) for v, _ in it["targets"]]
    arms = {int(v): tg for v, tg in t["targets"]}
    ch_local = (it["discr"].get("copy") or it["discr"].get("move"))["l"]
    ch2_local = (t["discr"].get("copy") or t["discr"].get("move"))["l"]
    table = {}
    for v, tg in arms.items():
        reg = _region(f, tg, [x for vv, x in arms.items() if vv != v] + [t["otherwise"]], back)
        radix = None
        nexts = 0
        for bb in reg:
            tt = f.blocks[bb]["term"]
            if tt["k"] != "call":
                continue
            m = method_name(callee_name(tt, resolved=False) or "")
            if m.endswith("from_str_radix"):
                radix = _const_int(tt["args"][1])
                if radix is None:
                    # the radix is a parameter of a helper that was inlined here: its value is the constant assigned at this call site
                    rn = peel(o.operand(tt["args"][1]))
                    if rn.kind == "const":
                        radix = rn.a.as_int()
            if m == "Iterator::next" and "Chars" in (tt.get("self_ty") or tt.get("callee_args") or ""):
                nexts += 1
        if radix is not None:
            table[chr(v)] = ("radix", radix, nexts)
        else:
            ps = _pushes(f, o, reg, kinds=("Vec::push",))
            what = []
            for bb, tt, n in ps:
                src = n
                while src.kind == "cast":
                    src = src.kids[0]
                pl = tt["args"][1].get("copy") or tt["args"][1].get("move")
                d = f.single_def(pl["l"]) if pl and not pl["p"] else None
                base = None
                if d and d[2] == "assign" and d[3]["k"] == "cast":
                    sp = d[3]["op"].get("copy") or d[3]["op"].get("move")
                    if sp:
                        base = f.canon_place(sp)
                what.append("ch" if base == f.canon_place({"l": ch_local, "p": []}) else ("ch2" if base == f.canon_place({"l": ch2_local, "p": []}) else n.show()))
            table[chr(v)] = ("push", what)
    reg = _region(f, t["otherwise"], list(arms.values()), back)
    other = []
    for bb, tt, n in _pushes(f, o, reg, kinds=("Vec::push", "Extend::extend", "Vec::extend", "Vec::extend_from_slice")):
        if method_name(callee_name(tt, resolved=False) or "") != "Vec::push":
            # `bytes.extend(ch2.encode_utf8(&mut buf).as_bytes())`: the whole character, not its low byte
            enc = [x for x in n.walk() if x.kind == "call" and method_name(x.a) == "char::encode_utf8"]
            src = peel(enc[0].kids[0]) if enc else None
            which = None
            if src is not None:
                for nm, lc in (("ch", ch_local), ("ch2", ch2_local)):
                    if any(x.kind == "local" and x.a == f.lname(lc) for x in src.walk()) or src.show() == Origins(f).local(lc).show():
                        which = nm
            other.append((which or "?") + ":utf8")
            continue
        pl = tt["args"][1].get("copy") or tt["args"][1].get("move")
        d = f.single_def(pl["l"]) if pl and not pl["p"] else None
        base = None
        if d and d[2] == "assign" and d[3]["k"] == "cast":
            sp = d[3]["op"].get("copy") or d[3]["op"].get("move")
            if sp:
                base = f.canon_place(sp)
        other.append("ch" if base == f.canon_place({"l": ch_local, "p": []}) else ("ch2" if base == f.canon_place({"l": ch2_local, "p": []}) else n.show()))
    return f, intro, table, other


def decode(unesc, unesc_other, res, res_other, text):
    """decode `text` (a str of code points < 256 here) with the extracted tables; mirrors the
    pair-wise left-to-right structure both decoders have (checked by the extractors)"""
    # pass 1: unescape_tabs
    out = []
    i = 0
    while i < len(text):
        c = text[i]
        if c == "\\" and i + 1 < len(text):
            c2 = text[i + 1]
            if c2 in unesc:
                out.append(unesc[c2])
            else:
                for x in unesc_other:
                    out.append(c2 if x == "<letter>" else x)
            i += 2
            continue
        out.append(c)
        i += 1
    text = "".join(out)
    # pass 2: resolve_escape_sequences_to_bytes
    res_bytes = []
    i = 0
    while i < len(text):
        c = text[i]
        if c == "\\":
            if i + 1 >= len(text):
                return None
            c2 = text[i + 1]
            e = res.get(c2)
            if e and e[0] == "radix":
                digits = text[i + 2:i + 2 + e[2]]
                if len(digits) != e[2]:
                    return None
                try:
                    v = int(digits, e[1])
                except ValueError:
                    return None
                if v > 255:
                    return None
                res_bytes.append(v)
                i += 2 + e[2]
                continue
            seq = e[1] if e else res_other
            for x in seq:
                if x.endswith(":utf8"):
                    res_bytes += list((c if x.startswith("ch:") else c2).encode("utf-8"))
                else:
                    res_bytes.append((ord(c) if x == "ch" else ord(c2)) & 0xff)
            i += 2
            continue
        res_bytes += list(c.encode("utf-8"))
        i += 1
    return bytes(res_bytes)


def check_decoder_tables(ctx):
    """R4.5: the decoder handles what the documentation promises and what the encoder emits"""
    prog = ctx.prog
    uf, unesc, unesc_other, uintro = unescape_table(prog)
    rf, rintro, res, res_other = resolve_table(prog)
    ctx.check(uintro == "\\" and rintro == ["\\"], "introducer", uf.where(), "both decoders use `\\` as the only escape introducer",
              "decoder introducers are %r / %r" % (uintro, rintro))
    ctx.check(unesc.get("t") == "\t", "doc:\\t", uf.where(), "`\\t` decodes to TAB (documented)", "`\\t` decodes to %r" % unesc.get("t"))
    ctx.check(res.get("x") == ("radix", 16, 2), "doc:\\xHH", rf.where(), "`\\xHH` reads exactly two digits in radix 16",
              "`\\x` arm is %s" % (res.get("x"),))
    ctx.check(res.get("0") == ("radix", 8, 2), "octal", rf.where(), "`\\0OO` reads exactly two digits in radix 8", "`\\0` arm is %s" % (res.get("0"),))
    ctx.check(res.get("\\") == ("push", ["ch"]), "backslash", rf.where(), "`\\\\` decodes to one backslash", "`\\\\` arm is %s" % (res.get("\\"),))
    ctx.check(unesc_other == ["\\", "<letter>"] and res_other == ["ch", "ch2:utf8"], "unknown-escape-kept", uf.where(),
              "an unknown escape `\\X` is kept as the two characters (X with all its bytes)",
              "unknown escapes decode to %s / %s%s" % (unesc_other, res_other, ": the character behind the backslash is cut down to one byte (`ch2 as u8`), `a\\éb (escaped)` "
                                                        "does not match the line `a\\éb`" if res_other == ["ch", "ch2"] else ""))
    ef, enc = encoder_table(prog)
    for b in range(256):
        e = enc[b]
        if e[0] == "lit" and len(e[1]) == 2 and e[1][0] == "\\" and e[1][1].isalpha() and b != 0x0a:
            got = decode(unesc, unesc_other, res, res_other, e[1])
            ctx.check(got == bytes([b]), "letter:%s" % e[1], ef.where(), "encoder emits %s for 0x%02x and the decoders read it back as that byte" % (e[1], b),
                      "encoder emits %s for byte 0x%02x but the decoders read it as %r" % (e[1], b, got))


def follow_all(body, value, is_scrut, call_oracle=None, start=0, limit=400, stop=()):
    """all paths from `start` with the scrutinee fixed to `value`; undecidable switches fork.
    call_oracle(term) may return an int for a call's destination (e.g. `is_other('\\\\')` = 0).
    Returns [{'path': [...], 'forks': [(bb, target)], 'end': why}]"""
    results = []
    stack = [(start, {}, [], [])]
    n = 0
    while stack:
        b, known, path, forks = stack.pop()
        known = dict(known)
        path = list(path)
        forks = list(forks)
        while True:
            n += 1
            if n > limit * 50:
                raise RuntimeError("follow_all: limit")
            if b in path and path.count(b) > 2:
                results.append({"path": path, "forks": forks, "end": "loop"})
                break
            if b in stop and path:
                results.append({"path": path, "forks": forks, "end": "stop"})
                break
            path.append(b)
            blk = body.blocks[b]

            def val(op):
                c = _const_int(op)
                if c is not None:
                    return c
                pl = op.get("copy") or op.get("move")
                if pl is None:
                    return None
                if is_scrut(pl):
                    return value
                if not pl["p"] and pl["l"] in known:
                    return known[pl["l"]]
                return None
            for st in blk["stmts"]:
                if st["k"] != "assign" or st["lhs"]["p"]:
                    continue
                rv = st["rv"]
                l = st["lhs"]["l"]
                known.pop(l, None)
                v = None
                if rv["k"] == "use":
                    v = val(rv["op"])
                elif rv["k"] == "cast" and rv["cast"].startswith("IntToInt"):
                    v = val(rv["op"])
                elif rv["k"] == "bin":
                    a, c = val(rv["a"]), val(rv["b"])
                    if a is not None and c is not None:
                        r = {"Le": a <= c, "Lt": a < c, "Ge": a >= c, "Gt": a > c, "Eq": a == c, "Ne": a != c,
                             "BitAnd": a & c, "BitOr": a | c}.get(rv["op"])
                        if r is not None:
                            v = int(r)
                elif rv["k"] == "un" and rv["op"] == "Not":
                    a = val(rv["a"])
                    if a is not None:
                        v = int(not a)
                elif rv["k"] == "ref" and is_scrut({"l": rv["place"]["l"], "p": rv["place"]["p"] + ["*"]}):
                    pass
                if v is not None:
                    known[l] = v
            t = blk["term"]
            if t["k"] == "return":
                results.append({"path": path, "forks": forks, "end": "return"})
                break
            if t["k"] == "switch":
                v = val(t["discr"])
                if v is None:
                    outs = []
                    for sv, tg in t["targets"]:
                        outs.append((int(sv), tg))
                    outs.append((None, t["otherwise"]))
                    pl = t["discr"].get("copy") or t["discr"].get("move")
                    for sv, tg in outs[1:]:
                        k2 = dict(known)
                        stack.append((tg, k2, list(path), forks + [(b, tg)]))
                    forks.append((b, outs[0][1]))
                    b = outs[0][1]
                    continue
                nxt = None
                for sv, tg in t["targets"]:
                    if int(sv) == v:
                        nxt = tg
                b = nxt if nxt is not None else t["otherwise"]
                continue
            s = body.succ(b)
            if len(s) != 1:
                results.append({"path": path, "forks": forks, "end": "end"})
                break
            if t["k"] == "call" and not t["dest"]["p"]:
                known.pop(t["dest"]["l"], None)
                if call_oracle is not None:
                    r = call_oracle(t, val)
                    if r is not None:
                        known[t["dest"]["l"]] = r
            b = s[0]
    return results
