"""C08 — expectation lines parse per the documented grammar and print back equivalently."""
import re

from ..casefold import PathOrigins, cases, const_int
from ..cfgq import aggregates, const_str_of, stmt_loc
from ..facts import AnchorError, Origins, callee_name, method_name, mname, peel, strip_mods
from ..fmtq import FmtError, pieces
from . import c04

try:
    import re._parser as sre_parse  # py3.11+
except ImportError:  # pragma: no cover
    import sre_parse


def _extract_cases(prog):
    """case table of ExpectationMaker::extract: (n captures, kind capture empty?) -> list of
    (kind source, expression source, indices accessed, where)"""
    f = prog.fn("ExpectationMaker::extract")
    o = Origins(f)
    # the captures local is bound by role: the local of type Captures that holds the regex match
    derived = set()
    for l in range(len(f.locals)):
        ds = f.defs.get(l, [])
        if len(ds) == 1 and f.lty(l).startswith("std::vec::Vec<") and any(n.kind == "call" and method_name(n.a) == "Regex::captures" for n in o._def(ds[0], 0, ()).walk()):
            derived.add(l)
    # .. the one that is measured / indexed (after a helper was inlined several locals hold the same Vec on its way to the user's `captures`)
    used = set()
    for bb, t in f.calls():
        if mname(t) in ("Vec::len", "slice::len", "Index::index") and t["args"]:
            pl = t["args"][0].get("copy") or t["args"][0].get("move")
            if pl is not None and not pl["p"]:
                d0 = f.single_def(pl["l"])
                tgt = d0[3]["place"] if d0 and d0[2] == "assign" and d0[3]["k"] == "ref" else None
                # `&captures`, or `&*captures` through Deref
                if tgt is not None and tgt["l"] in derived:
                    used.add(tgt["l"])
                elif d0 and d0[2] == "call" and mname(d0[3]) == "Deref::deref":
                    a0 = d0[3]["args"][0].get("copy") or d0[3]["args"][0].get("move")
                    d1 = f.single_def(a0["l"]) if a0 is not None and not a0["p"] else None
                    if d1 and d1[2] == "assign" and d1[3]["k"] == "ref" and d1[3]["place"]["l"] in derived:
                        used.add(d1[3]["place"]["l"])
    cap_locals = sorted(used) if used else sorted(derived)
    if len(cap_locals) != 1:
        raise AnchorError("ExpectationMaker::extract: the local holding the regex captures (a Vec derived from Regex::captures) is not unique (%d)" % len(cap_locals))
    cap = cap_locals[0]
    cap_name = f.lname(cap).split("(")[0]

    def is_captures(op):
        pl = op.get("copy") or op.get("move")
        if not pl:
            return False
        want = f.canon_place({"l": cap, "p": []})
        c = f.canon_place(pl)
        if c == want or c["l"] == cap:
            return True
        d = f.single_def(c["l"])
        return bool(d and d[2] == "assign" and d[3]["k"] == "ref" and (f.canon_place(d[3]["place"]) == want or d[3]["place"]["l"] == cap))

    def derives_from_capture(op, k):
        n = peel(o.operand(op))
        return n.kind == "call" and method_name(n.a) == "Index::index" and peel(n.kids[1]).kind == "const" and peel(n.kids[1]).a.as_int() == k \
            and any(x.kind == "call" and method_name(x.a) == "Regex::captures" for x in n.kids[0].walk())

    table = {}
    for n in (1, 2, 3):
        for e in (True, False):
            def oracle(t, val, n=n, e=e):
                m = mname(t)
                if m in ("Vec::len", "slice::len") and is_captures(t["args"][0]):
                    return n
                if m in ("PartialEq::eq", "str::eq") and len(t["args"]) == 2:
                    a, b = peel(o.operand(t["args"][0])), peel(o.operand(t["args"][1]))
                    for x, y in ((a, b), (b, a)):
                        if y.kind == "const" and y.a.as_str() == "" and x.kind == "call" and method_name(x.a) == "Index::index":
                            if peel(x.kids[1]).kind == "const" and peel(x.kids[1]).a.as_int() == 1:
                                return int(e)
                if m in ("str::is_empty",) and derives_from_capture(t["args"][0], 1):
                    return int(e)
                return None
            rs = cases(f, lambda pl: None, oracle)
            outs = []
            for r in rs:
                if r["end"] != "return":
                    continue
                po = PathOrigins(f, r["path"])
                res = po.local(0)
                if res.kind != "agg" or not res.a[0].endswith("Result::Ok"):
                    continue
                tup = peel(res.kids[0])
                if tup.kind != "agg" or len(tup.kids) != 3:
                    raise AnchorError("extract returns something other than Ok((expr, kind, quantifier))")
                idx = []
                for bb in r["path"]:
                    t = f.blocks[bb]["term"]
                    if t["k"] == "call" and mname(t) == "Index::index" and is_captures(t["args"][0]):
                        k = const_int(t["args"][1])
                        idx.append(k)
                ret_bb = [d[0] for d in f.defs.get(0, []) if d[0] in r["path"]][-1]
                outs.append({"expr": _src(tup.kids[0]), "kind": _src(tup.kids[1]), "quant": _src(tup.kids[2]), "idx": idx, "where": f.loc(ret_bb), "forks": len(r["forks"])})
            table[(n, e)] = outs
    return f, table


def _src(node):
    n = peel(node)
    if n.kind == "const":
        return ("lit", n.a.as_str())
    if n.kind == "call" and method_name(n.a) == "Index::index" and peel(n.kids[1]).kind == "const":
        return ("capture", peel(n.kids[1]).a.as_int())
    if n.kind == "arg":
        return ("line",)
    return ("other", n.show()[:80])


def r8_1(ctx):
    f, table = _extract_cases(ctx.prog)
    for (n, e), outs in sorted(table.items()):
        if n < 2:
            continue
        if not outs:
            ctx.bad("kind:n=%d,empty=%s" % (n, e), f.where(), "no Ok result found for %d captures" % n)
            continue
        for o in outs:
            kind = o["kind"]
            key = "kind:n=%d,empty=%s" % (n, e)
            if e:
                ctx.check(kind == ("lit", "equal"), key, o["where"],
                          "with %d captures and an empty kind capture the kind is \"equal\"" % n,
                          "with %d captures and an *empty* kind capture (a line ending in ` ()`%s) the empty string is returned as the kind, although "
                          "the sibling path maps \"\" to \"equal\": `foo ()` is rejected as `no rule maker for  registered` instead of being an "
                          "equal expectation for the whole line" % (n, "" if n == 2 else " or ` (?)`"))
            else:
                ctx.check(kind == ("capture", 1), key, o["where"], "with %d captures and a non-empty kind capture the kind is captures[1]" % n,
                          "kind is taken from %s" % (kind,))
    # expression: the whole line when no modifier is recognised, capture 0 otherwise
    for (n, e), outs in sorted(table.items()):
        for o in outs:
            if n == 1 or (n == 2 and e):
                good = o["expr"] == ("line",)
                txt = "the expression is the whole line"
            else:
                good = o["expr"] == ("capture", 0)
                txt = "the expression is capture 0 (everything before the modifier)"
            ctx.check(good, "expr:n=%d,empty=%s" % (n, e), o["where"], txt, "expression is %s" % (o["expr"],))
            if n == 3:
                ctx.check(o["quant"] == ("capture", 2), "quant:n=3,empty=%s" % e, o["where"], "the quantifier is capture 2")
            else:
                ctx.check(o["quant"] == ("lit", ""), "quant:n=%d,empty=%s" % (n, e), o["where"], "no quantifier capture -> \"\"")


def r8_2(ctx):
    f, table = _extract_cases(ctx.prog)
    for (n, e), outs in sorted(table.items()):
        for o in outs:
            bad = [k for k in o["idx"] if k is None or k >= n]
            ctx.check(not bad, "index:n=%d,empty=%s" % (n, e), o["where"], "with %d captures only captures[0..%d) are indexed (%s)" % (n, n, o["idx"]),
                      "with %d captures captures[%s] is indexed: out of bounds panic" % (n, bad))


def _template(prog):
    f = prog.fn("RuleRegistry::to_expectation_regex")
    o = Origins(f)
    sites = [(bb, t) for bb, t in f.calls() if mname(t) == "Regex::new"]
    if len(sites) != 1:
        raise AnchorError("to_expectation_regex: expected one Regex::new")
    bb, t = sites[0]
    ps = pieces(o.operand(t["args"][0]))
    return f, bb, ps


def r8_3(ctx):
    f, bb, ps = _template(ctx.prog)
    dyn = [p for p in ps if not isinstance(p, str)]
    ctx.check(len(dyn) == 1, "one-hole", f.loc(bb), "the grammar has exactly one dynamic part (the kind names)")
    if len(dyn) != 1:
        return
    names = dyn[0][1]
    calls = [method_name(c) for c in names.call_names()]
    for n in names.walk():
        if n.kind == "agg" and n.a[0].startswith("closure "):
            cb = ctx.prog.body_by_def(n.a[0][len("closure "):], f.crate)
            if cb is not None:
                calls += [mname(t) for _, t in cb.calls()]
    ok_names = "escape" in calls and any(c.endswith("join") for c in calls) and any("keys" in c for c in calls)
    root = peel(names)
    if not ok_names and root.kind == "call" and method_name(root.a) in ("String::new", "String::with_capacity") and root.at is not None:
        # explicit form: a String built by push_str(&regex::escape(name)) with push('|') between the names
        from .c16 import mut_calls
        o2 = Origins(f)
        local = f.blocks[root.at[0]]["term"]["dest"]["l"]
        parts, seps, other = [], [], []
        for mb, mt in mut_calls(f, local):
            m = mname(mt)
            if m == "String::push_str":
                parts.append(o2.operand(mt["args"][1]))
            elif m == "String::push":
                seps.append(peel(o2.operand(mt["args"][1])))
            else:
                other.append(m)
        src_calls = [method_name(c) for p_ in parts for c in p_.call_names()]
        ok_names = bool(parts) and all(any(method_name(c) == "escape" for c in p_.call_names()) for p_ in parts) and any("keys" in c for c in src_calls) and \
            bool(seps) and all(x.kind == "const" and x.a.as_char() == "|" for x in seps) and not other
        calls = src_calls + ["push(%s)" % x.show() for x in seps] + other
    ctx.check(ok_names, "names-source", f.loc(bb),
              "the names come from makers.keys() through regex::escape, joined with `|`", "names derive from %s" % calls)
    text = "".join(p if isinstance(p, str) else "kinda|kindb" for p in ps)
    m = re.match(r"^\(\?x\)", text.strip())
    pat = text
    flags = 0
    if m:
        pat = text.strip()[4:]
        flags = re.VERBOSE
    try:
        tree = sre_parse.parse(pat, flags)
    except Exception as e:  # noqa
        ctx.bad("grammar-parses", f.loc(bb), "the grammar template is not parseable: %s" % e)
        return
    items = list(tree)
    ops = [str(op) for op, av in items]
    ok_begin = ops and ops[0] == "AT" and str(items[0][1]) == "AT_BEGINNING"
    ok_end = ops and ops[-1] == "AT" and str(items[-1][1]) in ("AT_END",)
    ctx.check(ok_begin and ok_end, "anchors", f.loc(bb), "the grammar is anchored with ^ and $", "grammar starts/ends with %s / %s" % (items[0], items[-1]))
    ctx.check(tree.state.groups - 1 == 3, "three-groups", f.loc(bb), "three capture groups: expression, kind, quantifier", "grammar has %d groups" % (tree.state.groups - 1))
    # group 1: lazy .*
    g1 = items[1] if len(items) > 1 else None
    lazy = False
    if g1 and str(g1[0]) == "SUBPATTERN":
        inner = list(g1[1][3])
        lazy = len(inner) == 1 and str(inner[0][0]) == "MIN_REPEAT" and inner[0][1][0] == 0 and str(inner[0][1][1]) == "MAXREPEAT" and str(list(inner[0][1][2])[0][0]) == "ANY"
    ctx.check(lazy, "expr-lazy-any", f.loc(bb), "capture 1 is a lazy `.*?`: everything before the final modifier, verbatim")
    # optional non-capturing modifier group
    mod = items[2] if len(items) > 2 else None
    opt = mod is not None and str(mod[0]) == "MAX_REPEAT" and mod[1][0] == 0 and mod[1][1] == 1
    ctx.check(opt and len(items) == 4, "modifier-optional", f.loc(bb), "the modifier group is optional and is the last element before `$`")
    if opt:
        inner = list(mod[1][2])
        if len(inner) == 1 and str(inner[0][0]) == "SUBPATTERN" and inner[0][1][0] is None:
            inner = list(inner[0][1][3])
        kinds = [str(op) for op, av in inner]
        # \s ( kind? quant? )
        lit_open = [av for op, av in inner if str(op) == "LITERAL"]
        ctx.check(lit_open[:1] == [ord("(")] and lit_open[-1:] == [ord(")")], "parens", f.loc(bb), "the modifier is parenthesised")
        first = inner[0]
        ctx.check(str(first[0]) == "IN" and "CATEGORY_SPACE" in str(first[1]), "leading-space", f.loc(bb), "a whitespace separates expression and modifier")
        # quantifier class
        qs = None
        kind_alts = None
        for op, av in inner:
            if str(op) == "MAX_REPEAT" and av[0] == 0 and av[1] == 1:
                sub = list(av[2])
                if len(sub) == 1 and str(sub[0][0]) == "SUBPATTERN":
                    body = list(sub[0][1][3])
                    if len(body) == 1 and str(body[0][0]) == "IN":
                        qs = sorted(chr(v) for o2, v in body[0][1] if str(o2) == "LITERAL")
                    elif len(body) == 1 and str(body[0][0]) == "BRANCH":
                        kind_alts = ["".join(chr(v) for o2, v in alt if str(o2) == "LITERAL") for alt in body[0][1][1]]
                    else:
                        # sre factors common prefixes (kind + a|b): accept any subpattern with a BRANCH inside
                        if any(str(x[0]) == "BRANCH" for x in body):
                            br = [x for x in body if str(x[0]) == "BRANCH"][0]
                            prefix = "".join(chr(v) for o2, v in body if str(o2) == "LITERAL")
                            kind_alts = [prefix + "".join(chr(v) for o2, v in alt if str(o2) == "LITERAL") for alt in br[1][1]]
        ctx.check(qs == sorted(["*", "+", "?"]), "quantifier-class", f.loc(bb), "the quantifier class is exactly * + ?", "quantifier class is %s" % qs)
        ctx.check(kind_alts is not None and "" in kind_alts and "kinda" in kind_alts and "kindb" in kind_alts, "kind-alternatives", f.loc(bb),
                  "the kind group is `names|<empty>` (so a bare quantifier `(?)` is accepted, and `()` yields an empty kind capture)",
                  "kind alternatives are %s" % kind_alts)


Q_READER = {"": (False, False), "?": (True, False), "*": (True, True), "+": (False, True)}  # q -> (optional, multiline)


def r8_4(ctx):
    prog = ctx.prog
    p = prog.fn("ExpectationMaker::parse")
    o = Origins(p)
    makes = [(bb, t) for bb, t in p.calls() if (callee_name(t) or "").endswith("ExpectationMaker::make")]
    if len(makes) != 1:
        raise AnchorError("ExpectationMaker::parse: expected one make call")
    mb, mt = makes[0]
    for q, (want_opt, want_multi) in Q_READER.items():
        def oracle(t, val, q=q):
            m = mname(t)
            if m in ("PartialEq::eq", "str::eq", "String::eq") and len(t["args"]) == 2:
                a, b = peel(o.operand(t["args"][0])), peel(o.operand(t["args"][1]))
                for x, y in ((a, b), (b, a)):
                    ys = const_str_of(prog, p, y)
                    if ys is not None and "extract" in x.show():
                        return int(ys == q)
            return None
        rs = [r for r in cases(p, lambda pl: None, oracle) if mb in r["path"]]
        vals = set()
        for r in rs:
            po = PathOrigins(p, r["path"][:r["path"].index(mb) + 1])
            a_opt, a_multi = peel(po.operand(mt["args"][3])), peel(po.operand(mt["args"][4]))
            vo = r["known"].get((mt["args"][3].get("move") or mt["args"][3].get("copy"))["l"])
            vm = r["known"].get((mt["args"][4].get("move") or mt["args"][4].get("copy"))["l"])
            if vo is None and a_opt.kind == "const":
                vo = a_opt.a.as_bool()
            if vm is None and a_multi.kind == "const":
                vm = a_multi.a.as_bool()
            vals.add((None if vo is None else bool(vo), None if vm is None else bool(vm)))
        ctx.check(vals == {(want_opt, want_multi)}, "reader:%r" % q, p.loc(mb),
                  "quantifier %r parses to optional=%s multiline=%s" % (q, want_opt, want_multi),
                  "quantifier %r parses to (optional, multiline) = %s, documented is (%s, %s)" % (q, sorted(map(str, vals)), want_opt, want_multi))
    # make(): fields of the same name
    mk = prog.fn("ExpectationMaker::make")
    om = Origins(mk)
    for bb, si, rv in aggregates(mk, "Expectation", "Expectation"):
        got = {}
        for fld, op in zip(rv["fields"], rv["ops"]):
            n = peel(om.operand(op))
            got[fld] = n.a if n.kind == "arg" else n.show()[:40]
        ctx.check(got.get("optional") == 4 and got.get("multiline") == 5 and got.get("original") not in (None,), "make-fields", stmt_loc(mk, bb, si),
                  "Expectation{optional, multiline} take the parameters of the same name (not swapped)", "Expectation fields come from %s" % got)
    # writer: Rule::to_expression_string
    w = None
    for b in prog.bodies:
        if b.promoted is None and b.name == "to_expression_string" and "rule::Rule" in b.path and b.kind == "AssocFn":
            w = b
    if w is None:
        raise AnchorError("Rule::to_expression_string (provided method) not found")
    for (q, (opt, multi)) in Q_READER.items():
        def valmap(pl, opt=opt, multi=multi):
            if not pl["p"] and pl["l"] == 2:
                return int(opt)
            if not pl["p"] and pl["l"] == 3:
                return int(multi)
            return None
        def oracle(t, val):
            if mname(t) == "str::is_empty":
                v = val(t["args"][0])
                if isinstance(v, tuple) and v[0] == "str":
                    return int(v[1] == "")
            return None
        rs = [r for r in cases(w, valmap, oracle) if r["end"] == "return"]
        seen = set()
        for r in rs:
            po = PathOrigins(w, r["path"])
            res = po.local(0)
            try:
                ps = pieces(res)
            except FmtError as e:
                bare = peel(res)
                while bare.kind == "call" and method_name(bare.a) in ("str::replace", "String::replace") and bare.kids:
                    bare = peel(bare.kids[0])      # (the backslash doubling of the `escaped` kind, R8.10)
                if bare.kind == "call" and method_name(bare.a) == "Escaper::escaped_printable":
                    seen.add("{expr}")  # the bare rendering, returned without a format!
                    continue
                ctx.bad("writer:%r" % q, w.where(), "result is not a decodable format!: %s" % e)
                continue
            shape = []
            for pz in ps:
                if isinstance(pz, str):
                    shape.append(pz)
                else:
                    n = peel(pz[1])
                    if n.kind == "const" and n.a.as_str() is not None:
                        shape.append(n.a.as_str())
                    elif n.kind == "field" and n.a in ("0", "1") and n.kids and peel(n.kids[0]).kind == "agg":
                        sel = peel(n.kids[0]).kids[int(n.a)]
                        sel = peel(sel)
                        shape.append(sel.a.as_str() if sel.kind == "const" else "{?}")
                    elif n.has_call("Rule::unmake"):
                        shape.append("{kind}" if (n.kind == "field" and n.a == "0") else "{expr}")
                    elif n.has_call("Escaper::escaped_printable"):
                        shape.append("{expr}")
                    else:
                        shape.append("{?}")
            seen.add("".join(shape))
        want_forms = {"{expr}" + (" (%s)" % q if q else ""), "{expr} (escaped%s)" % q, "{expr} ({kind}%s)" % q}
        if not q:
            # without a quantifier the bare text is ambiguous when it ends like a modifier itself (`foo (regex)`): the writer must have the
            # explicit ` (equal)` form for that case (F25); the reader resolves `equal` through the registry (R4.3 / R8.5)
            want_forms.add("{expr} (equal)")
        ctx.check(seen == want_forms, "writer:%r" % q, w.where(),
                  "optional=%s multiline=%s renders as %s" % (opt, multi, sorted(want_forms)),
                  "optional=%s multiline=%s renders as %s, the reader expects %s" % (opt, multi, sorted(seen), sorted(want_forms)))


def r8_5(ctx):
    c04.r4_3(ctx)


def r8_10(ctx):
    """(a) F47: the rendering escapes backslashes only together with other characters; for the `escaped` kind - which is read back with its escape
    sequences resolved - they must be doubled also when nothing else is escaped (a str::replace of `\\` by `\\\\` on the rendered text, or an
    escaper that always doubles); (b) the same rendering is used for every kind: for kinds whose reader does NOT resolve escape sequences (glob,
    regex, no-eol ..) an expression with an unprintable character is written with escape sequences that are then read literally (known finding F48)"""
    prog = ctx.prog
    w = None
    for b in prog.bodies:
        if b.promoted is None and b.name == "to_expression_string" and "rule::Rule" in b.path and b.kind == "AssocFn":
            w = b
    if w is None:
        raise AnchorError("Rule::to_expression_string not found")
    o = Origins(w)
    doubled = False
    for bb, t in w.calls():
        if mname(t) in ("str::replace", "String::replace") and len(t["args"]) >= 3:
            a, b_ = peel(o.operand(t["args"][1])), peel(o.operand(t["args"][2]))
            frm = a.a.as_char() or a.a.as_str() if a.kind == "const" else None
            to = const_str_of(prog, w, t["args"][2] and o.operand(t["args"][2]))
            if frm == "\\" and to == "\\\\":
                doubled = True
    ctx.check(doubled, "escaped-kind-backslash", w.where(), "backslashes of an `escaped` expression are doubled also when nothing else is escaped",
              "the rendering of an `escaped` expectation leaves a lone backslash as it is when nothing else needs escaping: content `a\\b` is written `a\\b (escaped)` and "
              "read back as `a<0x08>b`")
    # (b) one rendering for all kinds
    ep = [(bb, t) for bb, t in w.calls() if mname(t) == "Escaper::escaped_printable"]
    raw = [(bb, t) for bb, t in w.calls() if (mname(t) or "").endswith("from_utf8_lossy")]
    per_kind = len(ep) == 1 and not raw
    ctx.check(not per_kind, "escapes-only-for-decoding-kinds", w.where(), "kinds that do not resolve escape sequences are rendered without them",
              "every kind is rendered through Escaper::escaped_printable: `foo<TAB>bar (no-eol)` is written `foo\\tbar (no-eol)`, `foo<ESC>x* (glob)` with `\\x1b` - those kinds "
              "read the escape sequence as literal text, the rendering does not parse back to an equal expectation")


def r8_6(ctx):
    """the canonical rendering decides on ` (escaped)` with Escaper::has_unprintable and renders with Escaper::escaped_printable
    of the same bytes; both must classify characters identically (R11.5) or the rendering re-parses to other contents"""
    from . import c11
    prog = ctx.prog
    w = None
    for b in prog.bodies:
        if b.promoted is None and b.name == "to_expression_string" and "rule::Rule" in b.path and b.kind == "AssocFn":
            w = b
    if w is None:
        raise AnchorError("Rule::to_expression_string not found")
    o = Origins(w)
    hu = [(bb, t) for bb, t in w.calls() if mname(t) == "Escaper::has_unprintable"]
    ep = [(bb, t) for bb, t in w.calls() if mname(t) == "Escaper::escaped_printable"]
    same = len(hu) >= 1 and len(ep) == 1 and all(peel(o.operand(h[1]["args"][1])).show() == peel(o.operand(ep[0][1]["args"][1])).show()
                                                 and peel(o.operand(h[1]["args"][0])).show() == peel(o.operand(ep[0][1]["args"][0])).show() for h in hu)
    ctx.check(same, "marker-and-rendering-same-bytes", w.where(), "the ` (escaped)` decision and the rendering look at the same expression bytes with the same escaper")
    c11.r11_5(ctx)


def r8_7(ctx):
    """the writer re-escapes what `unmake` hands it (Rule::to_expression_string -> escaped_printable); a rule that decoded its expression when it
    was made must therefore unmake to the *decoded* bytes - the very field its `matches` compares the line with - or written escape sequences
    are escaped a second time and the canonical rendering re-parses to other contents"""
    prog = ctx.prog
    n = 0
    for b in prog.bodies:
        if b.promoted is not None or b.kind != "AssocFn" or b.name != "make" or not b.impl_trait or not b.impl_trait.endswith("RuleMaker") or "::tests" in b.npath:
            continue
        o = Origins(b)
        ty = b.impl_self.split("::")[-1]
        decoded = None
        for bb, si, rv in aggregates(b, ty):
            for fld, op in zip(rv["fields"], rv["ops"]):
                if any(x.kind == "call" and x.a.endswith("apply_escaped_filter_bytes") for x in o.operand(op).walk()):
                    decoded = fld
        if decoded is None:
            continue
        n += 1
        try:
            u = prog.impl_fn(ty, "Rule", "unmake")
            m = prog.impl_fn(ty, "Rule", "matches")
        except AnchorError:
            ctx.bad("unmake-decoded:" + ty, b.where(), "%s decodes escapes in make() but has no unmake/matches" % ty)
            continue
        ur = peel(Origins(u).local(0))
        comp = peel(ur.kids[1]) if ur.kind == "agg" and len(ur.kids) == 2 else None
        from_field = sorted({x.a for x in comp.walk() if x.kind == "field" and x.kids and peel(x.kids[0]).kind == "arg" and peel(x.kids[0]).a == 1}) if comp is not None else []
        mfields = sorted({x.a for x in Origins(m).local(0).walk() if x.kind == "field" and x.kids and peel(x.kids[0]).kind == "arg" and peel(x.kids[0]).a == 1})
        ctx.check(from_field == [decoded] and decoded in mfields, "unmake-decoded:" + ty, u.where(),
                  "%s::unmake returns the decoded bytes (field %s, the field matches() compares with the line)" % (ty, decoded),
                  "%s::make stores the decoded bytes in field %s (matches() reads %s) but unmake returns field(s) %s: the writer escapes the already "
                  "escaped source text once more when it contains a raw unprintable character" % (ty, decoded, mfields, from_field))
    ctx.check(n >= 1, "decoding-rules", "-", "%d rule type(s) decode escapes in make()" % n, "no rule type decoding escapes in make() found")


def r8_8(ctx):
    """ExpectationMaker::parse hands the line to extract as it was given: trailing blanks are content (`foo  ` is an equal expectation for `foo  `,
    `foo (glob) ` has no *final* modifier group and is an equal expectation for the whole line)"""
    from ..facts import TRANSPARENT
    prog = ctx.prog
    f = prog.fn("ExpectationMaker::parse")
    o = Origins(f)
    sites = [(bb, t) for bb, t in f.calls() if (callee_name(t) or "").endswith("ExpectationMaker::extract")]
    if len(sites) != 1:
        raise AnchorError("ExpectationMaker::parse: expected one call of extract, found %d" % len(sites))
    bb, t = sites[0]
    tree = o.operand(t["args"][1])
    names = [method_name(c) for c in tree.call_names() if method_name(c) not in TRANSPARENT]
    ctx.check(not names and any(n.kind == "arg" and n.a == 2 for n in tree.walk()), "parse-verbatim", f.loc(bb), "extract receives the expectation line unchanged",
              "extract receives the line after %s: an expectation that ends in white space loses it (`foo  ` no longer matches the output `foo  `), and a modifier group "
              "followed by a blank - not the final group - is taken for the modifier" % names)


def r8_9(ctx):
    """writer / reader agreement on what separates the expression from the trailing group: the reader's pattern says `\\s` (any white space) before
    `(`; the writer's test for `ends like a modifier` must use the same class (char::is_whitespace), not a literal blank - otherwise
    `foo<NBSP>(glob) (equal)` is written as `foo<NBSP>(glob)` and read back as a glob"""
    import json
    prog = ctx.prog
    rx = prog.fn("RuleRegistry::to_expectation_regex")
    try:
        ps = pieces(Origins(rx).local(0))
        text = "".join(x if isinstance(x, str) else "{}" for x in ps)
    except FmtError:
        text = None
    if text is None:
        text = " ".join(c.as_str() or "" for b in [rx] + prog.promoted_of(rx) for c, _ in __import__("analysis.rules.c01", fromlist=["_all_consts"])._all_consts(b))
    m = re.search(r"(\\s|\[ \]|\x20| )\s*\\\(", text)
    reader_class = m.group(1) if m else None
    w = prog.fn("ends_like_modifier")
    blob = json.dumps([blk["term"] for blk in w.blocks] + [blk["stmts"] for blk in w.blocks])
    uses_ws = "is_whitespace" in blob
    lits = [c.as_str() for b in [w] + prog.promoted_of(w) for c, _ in __import__("analysis.rules.c01", fromlist=["_all_consts"])._all_consts(b) if c.as_str()]
    blank_lit = [x for x in lits if x.endswith("(") and x[:-1].strip() == "" and x != "("]
    # the characters the writer's test accepts inside the group cover every registered kind name (`no-eol` has a hyphen): evaluated per character
    from ..casefold import cases
    names = set()
    from .c04 import _registrations
    for bb_, maker_, ns_ in _registrations(prog, prog.impl_fn("RuleRegistry", "Default", "default")):
        names |= set(ns_ or [])
    chars = sorted({ch for nm in names for ch in nm})
    cl = [cb for cb in prog.closures_of(w)]
    if not cl:
        # the per-character test passed by name: `.all(is_modifier_word_char)`
        from .c09 import _callable_of
        ow_ = Origins(w)
        for bb_, t_ in w.calls():
            if mname(t_) in ("Iterator::all", "Iterator::any") and len(t_["args"]) > 1:
                cb_ = _callable_of(prog, w, ow_.operand(t_["args"][1]))
                if cb_ is not None:
                    cl.append(cb_)
    rejected = []
    if cl and chars:
        for ch in chars:
            def oracle(t, val, ch=ch):
                m = mname(t) or ""
                if m.endswith("is_ascii_lowercase"):
                    return int(ch.islower() and ch.isascii())
                if m.endswith("is_ascii_alphabetic"):
                    return int(ch.isalpha() and ch.isascii())
                if m.endswith("is_alphabetic"):
                    return int(ch.isalpha())
                if m.endswith("is_lowercase"):
                    return int(ch.islower())
                return None
            vals = set()
            for cb in cl:
                argl = 2 if cb.kind == "Closure" else 1
                for r in cases(cb, lambda pl, ch=ch, argl=argl: ord(ch) if (pl["l"] == argl and pl["p"] in ([], ["*"])) else None, oracle):
                    if r["end"] == "return":
                        vals.add(r["known"].get(0))
            if vals == {0}:
                rejected.append(ch)
    ctx.check(bool(chars) and bool(cl) and not rejected, "group-word-covers-kinds", w.where(),
              "every character of the registered kind names (%s) passes the writer's test for the trailing group" % "".join(chars),
              "the writer's ends_like_modifier does not accept %s inside the trailing group although a registered kind (%s) contains it: an equal expectation whose text "
              "ends in ` (no-eol)` is written without ` (equal)` and read back as a no-eol expectation" % (rejected, sorted(n_ for n_ in names if any(c in n_ for c in rejected))))
    if reader_class == "\\s":
        ctx.check(uses_ws and not blank_lit, "separator-class", w.where(), "reader `\\s(`, writer char::is_whitespace before `(`: the same separator class",
                  "the reader accepts any white space before the trailing group (`\\s`), the writer's ends_like_modifier looks for %s only: an equal expectation whose "
                  "text ends in <NBSP|TAB>(<kind>) is written without ` (equal)` and read back as that kind" % (blank_lit or "a literal blank"))
    else:
        ctx.check(reader_class is not None and (bool(blank_lit) or uses_ws), "separator-class", w.where(), "reader separator %r and writer test agree" % reader_class,
                  "cannot establish the separator class of reader (%r) and writer" % reader_class)


def run(ctx):
    ctx.run_rule("R8.1", "extract, by cases (capture count x kind capture empty): an empty kind capture always means `equal` on every path (contradiction rule) [E-TABLE by case analysis]", r8_1, floor=10)
    ctx.run_rule("R8.2", "extract indexes captures[k] only with k < capture count on every case [E-TABLE]", r8_2, floor=5)
    ctx.run_rule("R8.3", "grammar template: ^ (.*?) (?: \\s \\( (names|)? ([*+?])? \\) )? $ with names from the registry via regex::escape [E-TABLE, parsed template]", r8_3, floor=8)
    ctx.run_rule("R8.4", "quantifier tables: reader (q -> optional, multiline) and writer (flags -> ` (q)` / `(kind q)`) are mutually inverse; fields not swapped [E-TABLE]", r8_4, floor=9)
    ctx.run_rule("R8.6", "canonical rendering: ` (escaped)` decision (has_unprintable) and rendering (escaped_printable) agree on the character class [E-TABLE sibling agreement]", r8_6, floor=5)
    ctx.run_rule("R8.7", "a rule that decodes escapes in make() unmakes to the decoded bytes its matches() compares with (the writer re-escapes them) [E-FLOW sibling agreement]", r8_7, floor=2)
    ctx.run_rule("R8.5", "every kind() literal is the first registered name of its maker (canonical rendering re-parses to the same rule) [E-TABLE]", r8_5, floor=10)
    ctx.run_rule("R8.8", "ExpectationMaker::parse passes the line to extract unchanged (no trimming: trailing white space is content and decides what the final group is) [E-FLOW]", r8_8, floor=1)
    ctx.run_rule("R8.9", "writer/reader agree on the separator before the trailing group: reader `\\s(`, writer char::is_whitespace (F35) [E-TABLE]", r8_9, floor=1)
    ctx.run_rule("R8.10", "rendering per kind: the `escaped` kind always doubles backslashes (F47); kinds that do not resolve escapes are not written with escapes (known finding F48) [E-TABLE, E-SITE]", r8_10, floor=2)
