"""C14 — timeouts bound execution time and surface as failures (structural clauses)."""
import re

from ..cfgq import (aggregates, bool_edges, cond_tree, place_key, reach_consistent, result_variant_blocks,
                    variant_edges, switches, stmt_loc)
from ..facts import AnchorError, Origins, method_name, mname, peel, strip_mods, callee_name, strip_generics


def _exec_all(ctx):
    return ctx.prog.impl_fn("StatefulExecutor", "Executor", "execute_all")


def _local_adt_in(prog, ty):
    """local ADT names occurring in a type string (longest-path match)"""
    out = []
    for (crate, path), a in prog.adts.items():
        if re.search(r"(?<![\w:])%s(?![\w:])" % re.escape(path), ty):
            out.append(a)
    return out


def r14_1(ctx):
    prog = ctx.prog
    f = _exec_all(ctx)
    mins = [(bb, t) for bb, t in f.calls() if method_name(callee_name(t, resolved=False) or "") in
            ("Iterator::min", "Iterator::min_by", "Iterator::min_by_key", "Ord::min", "cmp::min", "Iterator::max", "Iterator::max_by", "Iterator::max_by_key")]
    sel = []
    for bb, t in mins:
        if "Duration" in t["callee_args"] or "Timeout" in t["callee_args"]:
            sel.append((bb, t))
    if len(sel) != 1:
        raise AnchorError("expected exactly one min-selection over timeout candidates in execute_all, found %d" % len(sel))
    bb, t = sel[0]
    name = method_name(callee_name(t, resolved=False))
    where = f.loc(bb)
    if name.startswith("Iterator::max") or name in ("Iterator::max",):
        ctx.bad("comparator", where, "the effective timeout is selected with `%s`: the larger limit wins" % name)
        return
    if name in ("Iterator::min_by", "Iterator::min_by_key"):
        # key closure must return a Duration / comparator must compare durations: analyse closure
        o = Origins(f)
        cl = peel(o.operand(t["args"][1]))
        cb = None
        if cl.kind == "agg" and cl.a[0].startswith("closure "):
            cb = prog.body_by_def(cl.a[0][len("closure "):], f.crate)
        if name == "Iterator::min_by_key" and cb is not None and strip_mods(cb.lty(0)) in ("Duration", "Option<Duration>"):
            ctx.ok("comparator", where, "min_by_key with a Duration key")
        else:
            ctx.bad("comparator", where, "the effective timeout is selected with `%s` whose comparator is not analysable as `Duration first`" % name)
        return
    # Iterator::min / Ord::min : item type decides
    item_ty = t["callee_args"]
    adts = [a for a in _local_adt_in(prog, item_ty)]
    if not adts:
        if "Duration" in item_ty:
            ctx.ok("comparator", where, "min over plain Durations")
        else:
            ctx.bad("comparator", where, "cannot determine the item type of the timeout min (%s)" % item_ty)
        return
    for a in adts:
        short = a["path"].split("::")[-1]
        ords = [i for i in prog.impls_of("Ord") if strip_mods(i["self_ty"]) == short]
        pords = [i for i in prog.impls_of("PartialOrd") if strip_mods(i["self_ty"]) == short]
        if len(ords) != 1:
            ctx.bad("comparator:" + short, where, "no unique Ord impl for %s" % short)
            continue
        fields = a["variants"][0]["fields"] if a["kind"] == "Struct" else None
        if not ords[0]["auto_derived"] or not (pords and pords[0]["auto_derived"]):
            ctx.bad("comparator:" + short, "%s:%d" % (ords[0]["span"]["file"], ords[0]["span"]["line"]),
                    "hand-written Ord for %s: not analysable as `compares the Duration first`" % short)
            continue
        if not fields:
            ctx.bad("comparator:" + short, where, "%s is not a struct" % short)
            continue
        first = fields[0]
        ctx.check(strip_mods(first["ty"]) == "Duration", "comparator:" + short,
                  "%s:%d" % (a["span"]["file"], a["span"]["line"]),
                  "derived Ord of %s compares its Duration field first (fields: %s)" % (short, [x["name"] for x in fields]),
                  "derived Ord of %s is lexicographic in declaration order and its first field is `%s: %s`, not the Duration: "
                  "`min` picks the per-test timeout whenever one exists, even if the remaining document time is shorter" % (short, first["name"], first["ty"]),
                  {"fields": fields})
    # candidates: per-test timeout and remaining document time, both present
    o = Origins(f)
    srcs = set()
    made = {}
    for cb in prog.closures_of(f):
        for ab, si, rv in aggregates(cb, "Timeout", "Timeout"):
            oc = Origins(cb)
            vals = {fn: peel(oc.operand(op)) for fn, op in zip(rv["fields"], rv["ops"])}
            g = vals.get("is_global")
            if g is not None and g.kind == "const" and vals.get("timeout") is not None and vals["timeout"].kind == "arg":
                made[g.a.as_bool()] = cb
    ctx.check(set(made) == {True, False}, "candidates", f.where(),
              "both candidates are built: Timeout{is_global:false, d} (per test) and Timeout{is_global:true, d} (document)",
              "expected one per-test and one document-wide Timeout candidate, found is_global in %s" % sorted(made))


def r14_2(ctx):
    f = _exec_all(ctx)
    o = Origins(f)
    # the selected value is stored into testcase.config.timeout before `run`
    stores = []
    for bi, b in enumerate(f.blocks):
        for si, st in enumerate(b["stmts"]):
            if st["k"] == "assign" and [p["n"] for p in st["lhs"]["p"] if isinstance(p, dict) and "n" in p][-2:] == ["config", "timeout"]:
                stores.append((bi, si, st))
    runs = [bb for bb, t in f.calls() if method_name(callee_name(t, resolved=False) or "") == "Runner::run"]
    if len(runs) != 1 or not stores:
        raise AnchorError("execute_all: expected one Runner::run call (%d) and a store to testcase.config.timeout (%d)" % (len(runs), len(stores)))
    for bi, si, st in stores:
        src = peel(o.rvalue(st["rv"]))
        shown = src.show()
        from_min = src.has_call("Iterator::min", "Iterator::min_by_key") and src.has_call("Option::map_or", "Option::map")
        ctx.check(from_min and f.dominates(bi, runs[0]), "store-effective", stmt_loc(f, bi, si),
                  "the min-selected timeout is stored into testcase.config.timeout and dominates Runner::run",
                  "testcase.config.timeout is not set from the min-selected value before Runner::run (%s)" % shown[:200])
        # .. and it is that value itself: nothing is subtracted from / added to the selected limit on the way (time spent elsewhere, e.g. in
        # `wait`, is accounted for by the deadline behind the document candidate, never by shrinking the per-test-case limit)
        arith = []

        def above_min(n):
            """nodes between the stored value and the min selection (the candidates below `min` are computed with arithmetic legitimately)"""
            yield n
            if n.kind == "call" and method_name(n.a) in ("Iterator::min", "Iterator::min_by_key", "Iterator::min_by"):
                return
            for k_ in n.kids:
                yield from above_min(k_)
        for n in above_min(src):
            if n.kind == "bin" and n.a in ("Sub", "SubWithOverflow", "Add", "AddWithOverflow", "Mul", "MulWithOverflow", "Div"):
                arith.append(n.a)
            if n.kind == "call" and any(w in method_name(n.a).split("::")[-1] for w in ("sub", "add", "mul", "div", "elapsed", "min_by")) and \
                    method_name(n.a) not in ("Iterator::min_by_key",):
                arith.append(method_name(n.a))
            if n.kind == "agg" and isinstance(n.a, tuple) and str(n.a[0]).startswith("closure "):
                cb = ctx.prog.body_by_def(n.a[0][len("closure "):], f.crate)
                if cb is not None:
                    for _, t2 in cb.calls():
                        last = mname(t2).split("::")[-1]
                        if any(w in last for w in ("sub", "add", "mul", "div", "elapsed")):
                            arith.append("closure:" + mname(t2))
        ctx.check(not arith, "store-unmodified", stmt_loc(f, bi, si), "the stored limit is the selected candidate itself (no arithmetic on the way)",
                  "the selected timeout is modified before it is stored (%s): a per-test-case `timeout` is shortened by time that does not count against it, "
                  "a command inside its limits is reported as timed out" % sorted(set(arith)))
    # SubprocessRunner::run: limit_time(t) exactly on the Some(t) edge
    r = ctx.prog.impl_fn("SubprocessRunner", "Runner", "run")
    orr = Origins(r)
    lt = [(bb, t) for bb, t in r.calls() if method_name(callee_name(t, resolved=False) or "") == "Communicator::limit_time"]
    rd = [bb for bb, t in r.calls() if method_name(callee_name(t, resolved=False) or "") == "Communicator::read"]
    cs = [bb for bb, t in r.calls() if method_name(callee_name(t, resolved=False) or "") == "Popen::communicate_start"]
    if len(lt) != 1 or len(rd) != 1 or len(cs) != 1:
        raise AnchorError("SubprocessRunner::run: limit_time=%d read=%d communicate_start=%d (expected 1 each)" % (len(lt), len(rd), len(cs)))
    bb, t = lt[0]
    arg = peel(orr.operand(t["args"][1]))
    good = arg.kind == "field" and arg.kids[0].kind == "variant" and arg.kids[0].a == "Some" and "config.timeout" in arg.show()
    ctx.check(good, "limit-arg", r.loc(bb), "limit_time receives the payload of testcase.config.timeout",
              "limit_time receives %s instead of the Some payload of testcase.config.timeout" % arg.show())
    # the Some edge of discriminant(testcase.config.timeout) must pass limit_time before read
    found = False
    for sb, st in switches(r):
        ve, rv = variant_edges(r, sb)
        if ve is None or set(ve) != {"None", "Some"}:
            continue
        if [p["n"] for p in rv["place"]["p"] if isinstance(p, dict) and "n" in p][-2:] != ["config", "timeout"]:
            continue
        if not r.dominates(cs[0], sb) or rd[0] not in r.reachable(sb):
            continue        # (a later re-inspection of the limit, after the read, is not the arming site)
        found = True
        reach = reach_consistent(r, ve["Some"], {place_key(rv["place"]): "Some"}, removed_edges=[])
        # remove the limit_time block: read must become unreachable from the Some edge
        without = r.reachable(ve["Some"], removed_blocks=[bb])
        ctx.check(rd[0] in reach and rd[0] not in without, "limit-must-pass", r.loc(sb),
                  "with a timeout configured every path from communicate_start to read() passes limit_time",
                  "read() is reachable on the Some(timeout) edge without passing limit_time: the timeout is not enforced")
        # the read result feeds the comm that had limit_time applied (comm reassigned)
        rdt = r.blocks[rd[0]]["term"]
        src = peel(orr.operand(rdt["args"][0]))
        ctx.check("limit_time" in src.show(), "limit-flows", r.loc(rd[0]), "read() is called on the communicator that limit_time returned",
                  "read() is not called on the time-limited communicator (%s)" % src.show()[:160])
    if not found:
        # is there a switch on something *derived* from config.timeout through a partial adaptor?
        why = "no switch on testcase.config.timeout between communicate_start and read"
        for sb, st in switches(r):
            ve, rv = variant_edges(r, sb)
            if ve is None or set(ve) != {"None", "Some"} or not r.dominates(cs[0], sb):
                continue
            tree = orr.place(rv["place"])
            if any(n.kind == "field" and n.a == "timeout" for n in tree.walk()) and tree.has_call("Option::filter", "Option::and_then", "Option::take_if", "Option::xor", "Option::zip"):
                why = ("the limit handed to limit_time is first passed through %s: for some configured timeouts (e.g. zero = `no time left` as computed by the "
                       "stateful executor once the document deadline has passed) no limit is applied at all and the command runs unbounded"
                       % sorted({method_name(c) for c in tree.call_names() if method_name(c).startswith("Option::")}))
        ctx.bad("limit-must-pass", r.where(), why)


def r14_3(ctx):
    prog = ctx.prog
    f = _exec_all(ctx)
    o = Origins(f)
    # total_timeout.unwrap_or(DEFAULT_TOTAL_TIMEOUT); is_zero => no deadline
    zs = [(bb, t) for bb, t in f.calls() if method_name(callee_name(t, resolved=False) or "") == "Duration::is_zero"]
    if len(zs) != 1:
        raise AnchorError("execute_all: expected one Duration::is_zero test, found %d" % len(zs))
    bb, t = zs[0]
    src = peel(o.operand(t["args"][0]))
    shown = src.show()
    ctx.check(src.kind == "call" and method_name(src.a) == "Option::unwrap_or" and "total_timeout" in shown and "DEFAULT_TOTAL_TIMEOUT" in shown,
              "document-limit-source", f.loc(bb), "document limit = context.config.total_timeout.unwrap_or(DEFAULT_TOTAL_TIMEOUT)",
              "document limit is %s" % shown[:200])
    # the is_zero true edge assigns None to the deadline, the false edge Some(now + limit)
    nxt = f.blocks[bb]["term"]["target"]
    be = bool_edges(f, nxt)
    if be is None:
        ctx.bad("zero-unlimited", f.loc(bb), "is_zero() result is not branched on directly")
    else:
        tt, tf = be
        none_blocks = [ab for ab, si, rv in aggregates(f, "Option", "None") if ab in f.reachable(tt) and ab not in f.reachable(0, removed_edges=[(nxt, tt)])]
        some_blocks = [ab for ab, si, rv in aggregates(f, "Option", "Some") if ab in f.reachable(tf) and ab not in f.reachable(0, removed_edges=[(nxt, tf)])]
        # `Instant::now().checked_add(limit)` yields the Option itself (None only where the clock cannot express the deadline: no limit, F52)
        some_blocks += [cb for cb, ct in f.calls() if mname(ct) in ("Instant::checked_add",) and cb in f.reachable(tf) and cb not in f.reachable(0, removed_edges=[(nxt, tf)])]
        ctx.check(bool(none_blocks) and bool(some_blocks), "zero-unlimited", f.loc(nxt),
                  "limit 0 => no deadline (None); otherwise Some(now + limit)",
                  "the is_zero() edges do not select None / Some(deadline) (zero edge None blocks: %s, non-zero Some blocks: %s)" % (none_blocks, some_blocks))
    # both constants are 900 s
    init = prog.fn("<DEFAULT_TOTAL_TIMEOUT as Deref>::deref::__static_ref_initialize")
    oi = Origins(init)
    r0 = peel(oi.local(0))
    secs = None
    if r0.kind == "call" and method_name(r0.a) == "Duration::from_secs" and r0.kids[0].kind == "const":
        secs = r0.kids[0].a.as_int()
    doc = prog.const("DEFAULT_DOCUMENT_TIMEOUT").as_int()
    ctx.check(secs is not None and secs == doc, "default-tables", init.where(),
              "executor DEFAULT_TOTAL_TIMEOUT (%s s) equals config DEFAULT_DOCUMENT_TIMEOUT (%s s)" % (secs, doc),
              "executor DEFAULT_TOTAL_TIMEOUT (%s s) differs from config DEFAULT_DOCUMENT_TIMEOUT (%s s)" % (secs, doc))
    # --timeout-seconds is written to total_timeout (bin)
    g = prog.fn("GlobalSharedParameters::to_document_config")
    og = Origins(g)
    wrote = False
    for bi, b in enumerate(g.blocks):
        for si, st in enumerate(b["stmts"]):
            if st["k"] == "assign" and [p["n"] for p in st["lhs"]["p"] if isinstance(p, dict) and "n" in p][-1:] == ["total_timeout"]:
                shown = og.rvalue(st["rv"]).show()
                if "timeout_seconds" in shown and "from_secs" in shown:
                    wrote = True
    for ab, si, rv in aggregates(g, "DocumentConfig"):
        if "total_timeout" in rv["fields"]:
            shown = og.operand(rv["ops"][rv["fields"].index("total_timeout")]).show()
            if "timeout_seconds" in shown and "from_secs" in shown:
                wrote = True
    ctx.check(wrote, "cli-limit", g.where(), "--timeout-seconds is converted with from_secs into total_timeout",
              "GlobalSharedParameters::to_document_config does not set total_timeout from timeout_seconds")


def _exit_switch(f):
    for sb, t in switches(f):
        ve, rv = variant_edges(f, sb)
        if ve is not None and strip_mods(rv["ty"]) == "ExitStatus" and [p["n"] for p in rv["place"]["p"] if isinstance(p, dict) and "n" in p][-1:] == ["exit_code"]:
            return sb, ve, rv
    raise AnchorError("no switch on output.exit_code in %s" % f.npath)


def r14_4(ctx):
    f = _exec_all(ctx)
    o = Origins(f)
    sb, ve, rv = _exit_switch(f)
    pk = place_key(rv["place"])
    reach = reach_consistent(f, ve["Timeout"], {pk: "Timeout"})
    back = [e for e in f.back_edges()]
    loops_back = [e for e in back if e[0] in reach]
    ctx.check(not loops_back, "timeout-arm-stops", f.loc(sb), "the Timeout arm never continues with the next test case",
              "the Timeout arm can reach the loop back edge: execution continues after a timeout")
    rets = [d for d in f.defs.get(0, []) if d[0] in reach]
    kinds = set()
    for bb, si, kind, payload in rets:
        if kind == "assign" and payload["k"] == "agg" and payload["variant"] == "Err":
            shown = o.operand(payload["ops"][0]).show()
            kinds.add("Timeout" if "ExecutionError::Timeout" in shown else shown[:80])
        elif kind == "assign" and payload["k"] == "agg":
            kinds.add(payload["variant"])
        else:
            kinds.add("call")
    ctx.check(kinds == {"Timeout"}, "timeout-arm-result", f.loc(sb), "every result of the Timeout arm is Err(ExecutionError::Timeout(..))",
              "the Timeout arm can return %s" % sorted(kinds))
    # the converse (contract with the test command, which counts one failure per output that carries ExitStatus::Timeout): ExecutionError::Timeout is
    # constructed only in the arm of an observed timed-out output - an early `return Err(Timeout(..))` elsewhere hands over outputs without a timed-out
    # one, nothing is counted as failed and the run exits 0
    stray = [(ab, si) for ab, si, arv in aggregates(f, "ExecutionError", "Timeout") if ab not in reach]
    stray += [(ab, si) for ab, si, arv in aggregates(f, "ExecutionTimeout") if ab not in reach]
    ctx.check(not stray, "timeout-only-from-output", stmt_loc(f, stray[0][0], stray[0][1]) if stray else f.loc(sb),
              "ExecutionError::Timeout is constructed only in the arm of an output whose exit status is Timeout",
              "ExecutionError::Timeout(..) is also constructed outside the arm of a timed-out output: the outputs handed to the test command then contain no "
              "ExitStatus::Timeout, no failure is counted, the remaining test cases are booked as skipped and the run exits 0 although the document ran out of time")
    # Total exactly on the is_global edge
    for ab, si, arv in aggregates(f, "ExecutionTimeout"):
        if ab not in reach:
            continue
        ok = False
        for gb, gt in switches(f):
            be = bool_edges(f, gb)
            if be is None or gb not in reach:
                continue
            tree = peel(cond_tree(f, gb, o))
            shown = tree.show()
            if tree.has_call("Option::map_or") and tree.kind == "field" and tree.a == "0":
                edge = be[0] if arv["variant"] == "Total" else be[1]
                if ab in f.reachable(edge) and ab not in f.reachable(0, removed_edges=[(gb, edge)]):
                    ok = True
        ctx.check(ok, "kind:" + arv["variant"], stmt_loc(f, ab, si),
                  "ExecutionTimeout::%s is reported on the is_global==%s edge" % (arv["variant"], arv["variant"] == "Total"),
                  "ExecutionTimeout::%s is not guarded by the matching is_global edge" % arv["variant"])


def r14_5(ctx):
    prog = ctx.prog
    run = prog.fn("test::Args::run")
    # closure mapping (output, testcase) of a timed-out document
    cands = []
    for cb in prog.closures_of(run):
        if any(True for _ in aggregates(cb, "TestCaseError", "Timeout")):
            cands.append(cb)
    if len(cands) != 1:
        raise AnchorError("expected one closure constructing TestCaseError::Timeout in test::Args::run, found %d" % len(cands))
    cb = cands[0]
    ocb = Origins(cb)
    sw = None
    for sb, t in switches(cb):
        ve, rv = variant_edges(cb, sb)
        if ve is not None and strip_mods(rv["ty"]) == "ExitStatus":
            sw = (sb, ve, rv)
    if sw is None:
        raise AnchorError("timeout closure does not switch on the output's ExitStatus")
    sb, ve, rv = sw
    pk = place_key(rv["place"])
    reach_t = reach_consistent(cb, ve["Timeout"], {pk: "Timeout"})
    others = [v for v in ve if v != "Timeout"]
    tb = [(ab, si) for ab, si, _ in aggregates(cb, "TestCaseError", "Timeout")]
    for ab, si in tb:
        only_t = ab in reach_t and not any(ab in reach_consistent(cb, ve[v], {pk: v}) for v in others)
        ctx.check(only_t, "timeout->failed", stmt_loc(cb, ab, si), "Err(TestCaseError::Timeout) exactly for outputs with ExitStatus::Timeout")
    # on the Timeout edge validate is never consulted, and count_failed is incremented
    vcalls = [bb for bb, t in cb.calls() if (t.get("callee") or "").endswith("TestCase::validate")]
    ctx.check(vcalls and not any(v in reach_t for v in vcalls), "timeout-not-validated", cb.where(),
              "a timed-out output is never handed to validate (cannot become a pass)")
    incs = _counter_incs(cb)
    # every path from the Timeout edge passes exactly one counter increment and it is count_failed (path-sensitive: the result built on
    # that edge is Err, so a later `match result { Ok => success, Err => failed }` takes only its Err arm)
    t_inc = [c for c in incs if c[0] in reach_t]
    inc_blocks = sorted({c[0] for c in t_inc})
    must = bool(inc_blocks) and not any(rb in reach_consistent(cb, ve["Timeout"], {pk: "Timeout"}, removed_blocks=inc_blocks) for rb in cb.return_blocks())
    once = all(not any(b2 in cb.reachable(s_) for s_ in cb.succ(b1) for b2 in inc_blocks) for b1 in inc_blocks) and \
        all(len([c for c in t_inc if c[0] == b]) == 1 for b in inc_blocks)
    roles = counter_roles(prog)
    ctx.check(must and once and all(roles.get(c[2]) == "total_failed" for c in t_inc), "timeout-counted", cb.where(),
              "the timed-out test case increments count_failed exactly once",
              "the Timeout edge increments %s (on every path: %s, at most once: %s)" % ([c[2] for c in t_inc], must, once))
    # remainder becomes Skipped: closure constructing TestCaseError::Skipped fed by skip(outputs.len())
    o = Origins(run)
    skipped_closures = [c for c in prog.closures_of(run) if any(True for _ in aggregates(c, "TestCaseError", "Skipped"))]
    found = False
    for bb, t in run.calls():
        if method_name(callee_name(t, resolved=False) or "") != "Iterator::map":
            continue
        cl = peel(o.operand(t["args"][1]))
        if cl.kind == "agg" and any(cl.a[0] == "closure " + c.path for c in skipped_closures):
            srcn = o.operand(t["args"][0])
            if srcn.has_call("Iterator::skip"):
                found = True
                ctx.check(srcn.has_call("Vec::len", "slice::len"), "remainder-skipped", run.loc(bb),
                          "test cases after the timed-out one (`skip(outputs.len())`) are reported as Skipped")
    ctx.check(found, "remainder-skipped-site", run.where(), "the post-timeout remainder is mapped to Err(Skipped)",
              "no `testcases.iter().skip(outputs.len()).map(.. Err(Skipped))` found for the post-timeout remainder")


def _counter_incs(body):
    """(bb, si, name) of `*counter = *counter + 1` through captured &mut upvars or locals"""
    out = []
    o = Origins(body)
    for bi, b in enumerate(body.blocks):
        if b["cleanup"]:
            continue
        for si, st in enumerate(b["stmts"]):
            if st["k"] != "assign":
                continue
            lhs = st["lhs"]
            src = o.rvalue(st["rv"])
            # `(*(_1.k)) = move (_t.0)` with _t = AddWithOverflow(copy (*(_1.k)), 1)
            if src.kind == "field" and src.a == "0" and src.kids[0].kind == "bin" and src.kids[0].a in ("AddWithOverflow", "Add"):
                binn = src.kids[0]
                if binn.kids[1].kind == "const" and binn.kids[1].a.as_int() == 1:
                    # a self-increment: the left operand of the addition is the place written to
                    src_pl = _bin_left_place(body, st)
                    if src_pl is not None and body.canon_place(src_pl) == body.canon_place(lhs):
                        name = _place_name(body, lhs)
                        out.append((bi, si, name))
    return out


def _counter_writes(body, names=None, prefix="count_"):
    """(bb, si, name) of every store into one of the counter places `names` (by role, see counter_roles); without `names`
    the historic prefix convention is used"""
    out = []
    for bi, b in enumerate(body.blocks):
        if b["cleanup"]:
            continue
        for si, st in enumerate(b["stmts"]):
            if st["k"] == "assign":
                nm = body.place_name(st["lhs"])
                if (names is not None and nm in names) or (names is None and nm.startswith(prefix)):
                    out.append((bi, si, nm))
    return out


def counter_roles(prog):
    """{counter name: role} for the counters of the test command, bound by what they are used for (never by their names):
       total_failed   - the counter whose `> 0` test guards Err(ValidationFailedError)
       doc_failed / doc_success - incremented on the Err / Ok side of the validate() result in the per-pair loop
       total_success  - receives `+= doc_success` (total_failed must receive `+= doc_failed`)
       total_skipped  - the only counter incremented in the ExecutionError::Skipped arm
       total_detached - incremented in the per-pair loop on the path that pushes no outcome"""
    from ..cfgq import aggregates, bool_edges, cond_tree, explore, place_key, switches, variant_edges
    run = prog.fn("test::Args::run")
    o = Origins(run)
    roles = {}
    incs = _counter_incs(run)
    # total_failed
    vsites = [bb for bb, si, rv in aggregates(run, "ValidationFailedError")]
    for sb, st in switches(run):
        be = bool_edges(run, sb)
        if be is None or not vsites:
            continue
        tree = cond_tree(run, sb, o)
        if tree.kind == "bin" and tree.a in ("Gt", "Ne", "Ge", "Lt") and any(k.kind == "const" for k in tree.kids):
            if any((vb in run.reachable(e) and vb not in run.reachable(0, removed_edges=[(sb, e)])) for e in be for vb in vsites):
                for bi in [sb]:
                    for st2 in run.blocks[bi]["stmts"]:
                        if st2["k"] == "assign" and st2["rv"]["k"] == "bin":
                            for side in ("a", "b"):
                                pl = st2["rv"][side].get("copy") or st2["rv"][side].get("move")
                                if pl is not None:
                                    roles[run.place_name(pl)] = "total_failed"
    # doc_failed / doc_success: hypothesis on the validate() result
    vcalls = [(bb, t) for bb, t in run.calls() if (callee_name(t) or "").endswith("TestCase::validate")]
    if vcalls:
        vb, vt = vcalls[0]
        pk = place_key(vt["dest"])
        is_err = [bb for bb, t in run.calls() if mname(t) == "Result::is_err"]
        is_ok = [bb for bb, t in run.calls() if mname(t) == "Result::is_ok"]
        back = run.back_edges()

        def side(variant):
            assume = {b_: (variant == "Err") for b_ in is_err}
            assume.update({b_: (variant == "Ok") for b_ in is_ok})
            return set(explore(run, vt["target"], {pk: variant}, removed_edges=back, assume=assume).keys())
        on_err, on_ok = side("Err"), side("Ok")
        for bb, si, nm in incs:
            if bb in on_err and bb not in on_ok:
                roles.setdefault(nm, "doc_failed")
            elif bb in on_ok and bb not in on_err:
                roles.setdefault(nm, "doc_success")
    # totals: X += doc_success
    inv = {v: k for k, v in roles.items()}
    for bi, blk in enumerate(run.blocks):
        for st in blk["stmts"]:
            if st["k"] == "assign" and st["rv"]["k"] == "bin" and st["rv"]["op"] in ("AddWithOverflow", "Add"):
                a = st["rv"]["a"].get("copy") or st["rv"]["a"].get("move")
                b = st["rv"]["b"].get("copy") or st["rv"]["b"].get("move")
                if a and b and run.place_name(b) == inv.get("doc_success"):
                    roles.setdefault(run.place_name(a), "total_success")
    # total_skipped: the counter of the Skipped arm
    for sb, st in switches(run):
        ve, rv = variant_edges(run, sb)
        if ve is not None and strip_mods(rv["ty"]) == "ExecutionError" and "Skipped" in ve:
            pk2 = place_key(rv["place"])
            back = run.back_edges()
            reg = set(explore(run, ve["Skipped"], {pk2: "Skipped"}, removed_edges=back).keys())
            others = set()
            for v, tg in ve.items():
                if v != "Skipped":
                    others |= set(explore(run, tg, {pk2: v}, removed_edges=back).keys())
            names = {nm for bb, si, nm in incs if bb in reg - others}
            if len(names) == 1:
                roles.setdefault(names.pop(), "total_skipped")
    # total_detached: the remaining counter incremented inside the per-pair loop
    heads = [bb for bb, t in run.calls() if mname(t) == "Iterator::next" and "Zip<" in (t.get("self_ty") or "")]
    if len(heads) == 1:
        body_blocks = set(run.reachable(run.blocks[heads[0]]["term"]["target"], removed_edges=run.back_edges()))
        rest = {nm for bb, si, nm in incs if bb in body_blocks and nm not in roles}
        if len(rest) == 1:
            roles[rest.pop()] = "total_detached"
    return roles


def _bin_left_place(body, st):
    """for `X = move (_t.0)` with `_t = AddWithOverflow(copy P, 1)`: P"""
    rv = st["rv"]
    if rv["k"] != "use":
        return None
    pl = rv["op"].get("move") or rv["op"].get("copy")
    if not pl:
        return None
    d = body.single_def(pl["l"])
    if not d or d[2] != "assign" or d[3]["k"] != "bin":
        return None
    a = d[3]["a"]
    return a.get("copy") or a.get("move")


def _place_name(body, pl):
    return body.place_name(pl)


def r14_6(ctx):
    f = ctx.prog.fn("compile_testcase")
    cs = ctx.prog.fn("compile_script")
    o = Origins(f)
    zs = [(bb, t) for bb, t in f.calls() if method_name(callee_name(t, resolved=False) or "") == "Duration::is_zero"]
    ctx.check(len(zs) >= 1, "cram-zero", f.where(), "compile_testcase tests the document limit with is_zero()",
              "compile_testcase no longer tests the document limit for zero (0 must mean unlimited)")
    for bb, t in zs:
        shown = peel(o.operand(t["args"][0])).show()
        ctx.check("total_timeout" in shown and "DEFAULT_TOTAL_TIMEOUT" in shown, "cram-limit-source", f.loc(bb),
                  "Cram script limit = total_timeout.unwrap_or(DEFAULT_TOTAL_TIMEOUT)", "Cram script limit is %s" % shown[:160])
    # per-test timeouts are rejected: an Err mentioning timeout on the `timeout.is_some()` edge
    rej = False
    ocs = Origins(cs)
    for bb, t in cs.calls():
        n = method_name(callee_name(t, resolved=False) or "")
        if n == "Option::is_some":
            shown = ocs.operand(t["args"][0]).show()
            if shown.endswith("config.timeout"):
                nxt = cs.blocks[bb]["term"]["target"]
                be = bool_edges(cs, nxt)
                if be is not None:
                    errs = [b for b, _, _ in result_variant_blocks(cs, "Err") if b in cs.reachable(be[0]) and b not in cs.reachable(0, removed_edges=[(nxt, be[0])])]
                    rej = bool(errs)
    ctx.check(rej, "cram-per-test-rejected", cs.where(), "compile_script returns Err for a test case that carries a per-test timeout (it cannot be honoured in one script)",
              "compile_script no longer rejects per-test timeouts it cannot honour (they would be silently ignored)")


def r14_7(ctx):
    """the remaining document time is Some(..) whenever a deadline exists: it is derived from the deadline only through
    Option::map with total closures (duration_since / saturating_duration_since saturate to zero), never and_then / filter /
    checked_* (which would turn an elapsed deadline into `no limit`)"""
    prog = ctx.prog
    f = _exec_all(ctx)
    o = Origins(f)
    # the candidate with is_global: true
    glob = None
    for cb in prog.closures_of(f):
        for ab, si, rv in aggregates(cb, "Timeout", "Timeout"):
            oc = Origins(cb)
            g = peel(oc.operand(rv["ops"][rv["fields"].index("is_global")]))
            if g.kind == "const" and g.a.as_bool() is True:
                glob = cb
    if glob is None:
        raise AnchorError("execute_all: the document-wide Timeout candidate closure was not found")
    site = None
    for bb, t in f.calls():
        if mname(t) in ("Option::map", "Option::and_then", "Option::filter", "Option::map_or", "Option::zip"):
            cl = peel(o.operand(t["args"][1])) if len(t["args"]) > 1 else None
            if cl is not None and cl.kind == "agg" and cl.a[0] == "closure " + glob.path:
                site = (bb, t)
    if site is None:
        raise AnchorError("execute_all: the document candidate is not built by an Option adaptor over the remaining time")
    bb, t = site
    ctx.check(mname(t) == "Option::map", "candidate-adaptor", f.loc(bb), "the document candidate is `remaining.map(|d| Timeout{is_global: true, d})`",
              "the document candidate is built with %s" % mname(t))
    # walk the chain of closures that produce `remaining`
    src = peel(o.operand(t["args"][0]))
    chain = []
    body, node = f, src
    for _ in range(6):
        if node.kind != "call":
            break
        tt = node.owner.blocks[node.at[0]]["term"] if node.owner is not None and node.at else None
        m = method_name(node.a)
        callee = prog.body_by_def(tt["resolved"], node.owner.crate) if tt is not None and tt.get("resolved_local") else None
        if callee is not None:
            body = callee
            node = peel(Origins(callee).local(0))
            continue
        chain.append(m)
        if m in ("Option::map", "Option::and_then", "Option::filter"):
            cl = peel(node.kids[1])
            cb = prog.body_by_def(cl.a[0][len("closure "):], body.crate) if cl.kind == "agg" and cl.a[0].startswith("closure ") else None
            if cb is not None:
                chain += [mname(t2) for _, t2 in cb.calls()]
            node = peel(node.kids[0])
            continue
        break
    partial = [m for m in chain if m in ("Option::and_then", "Option::filter", "Instant::checked_duration_since", "Instant::checked_sub", "Duration::checked_sub", "Option::take", "Result::ok")]
    total = [m for m in chain if m in ("Instant::duration_since", "Instant::saturating_duration_since", "Duration::saturating_sub")]
    ctx.check(not partial and total and "Option::map" in chain, "remaining-total", f.loc(bb),
              "remaining = deadline.map(|at| at.duration_since(now)): Some(0) once the deadline has passed, so the next test case is aborted at once",
              "the remaining document time is computed through %s: after the deadline has passed it becomes None, which means `no document limit` - all remaining "
              "test cases run unbounded and are reported as passed" % (partial or chain))


def r14_8(ctx, accept_terminate=False):
    """a timed-out execution is aborted: on the way to every ExitStatus::Timeout result the child process is killed
    (limit_time only stops *waiting*; without a kill the command keeps running after scrut reported the timeout and even
    after scrut exited - its EXIT trap then re-creates the already removed state directory)"""
    prog = ctx.prog
    r = prog.impl_fn("SubprocessRunner", "Runner", "run")
    def _kills(body):
        # SIGKILL only for the time bound: SIGTERM (Popen::terminate) can be trapped or ignored by the test's shell expression, and the
        # unbounded wait() that follows then lasts until the command has run to completion (C18 only needs the process gone before clean-up)
        return [bb for bb, t in body.calls() if mname(t) in (("Popen::kill", "Popen::terminate") if accept_terminate else ("Popen::kill",))]

    kills = _kills(r)
    # a crate-local helper counts as a kill when every path through it passes Popen::kill (wrapper summary, depth 1)
    for bb, t in r.calls():
        if t.get("resolved_local"):
            hb = prog.body_by_def(t["resolved"], r.crate)
            if hb is not None and hb is not r:
                hk = _kills(hb)
                if hk and not any(rb in hb.reachable(0, removed_blocks=hk) for rb in hb.return_blocks()):
                    kills.append(bb)
    touts = [(bb, si) for bb, si, rv in aggregates(r, "ExitStatus", "Timeout") if "subprocess" not in rv["adt"]]
    if not touts:
        raise AnchorError("SubprocessRunner::run constructs no ExitStatus::Timeout")
    k = 0
    for bb, si in touts:
        k += 1
        dom = [kb for kb in kills if r.dominates(kb, bb)]
        ctx.check(bool(dom), "timeout-kills-child#%d" % k, stmt_loc(r, bb, si),
                  "the child process is killed before the execution is reported as timed out",
                  "ExitStatus::Timeout is returned without killing (SIGKILL) the child process: the command keeps running after the timeout was reported (and after scrut "
                  "exited); a `sleep 3; touch marker` with `timeout: 1s` still creates the marker, and bash's EXIT trap re-creates the removed state directory")


def r14_9(ctx):
    """the limit covers the whole execution, not only the reading of the output: when a timeout is set, no *unbounded* Popen::wait is reached
    before the process was killed (a command that closes its output streams ends the reading at once and then runs as long as it likes)"""
    prog = ctx.prog
    r = prog.impl_fn("SubprocessRunner", "Runner", "run")
    waits = [bb for bb, t in r.calls() if mname(t) == "Popen::wait"]
    kills = [bb for bb, t in r.calls() if mname(t) == "Popen::kill"]
    for bb, t in r.calls():
        if t.get("resolved_local"):
            hb = prog.body_by_def(t["resolved"], r.crate)
            if hb is not None and hb is not r:
                hk = [b2 for b2, t2 in hb.calls() if mname(t2) == "Popen::kill"]
                hw = [b2 for b2, t2 in hb.calls() if mname(t2) == "Popen::wait"]
                if hk and not any(rb in hb.reachable(0, removed_blocks=hk) for rb in hb.return_blocks()):
                    kills.append(bb)
                elif hw:
                    waits.append(bb)
    if not waits:
        raise AnchorError("SubprocessRunner::run: no Popen::wait call")
    # the bounded wait gets what is *left* of the limit: its argument is the limit minus the time since the start (taken before the output was read)
    orr_ = Origins(r)
    for wb, wt_ in [(bb, t) for bb, t in r.calls() if mname(t) == "Popen::wait_timeout"]:
        tree = orr_.operand(wt_["args"][1])
        names = {method_name(c).split("::")[-1] for c in tree.call_names()}
        ok_ = bool(names & {"saturating_sub", "checked_sub", "sub"}) and bool(names & {"elapsed", "duration_since", "saturating_duration_since", "checked_duration_since"})
        ctx.check(ok_, "bounded-wait-gets-remainder", r.loc(wb), "wait_timeout receives the limit minus the elapsed time",
                  "wait_timeout receives %s: the wait for the exit status starts a fresh limit after the output was read - a command that closes its streams shortly "
                  "before the limit runs for nearly twice as long and is reported with its normal exit code" % tree.show()[:120])
    # the Some edge(s) of `testcase.config.timeout` from which the read is reachable or that follow it
    some_edges = []
    for sb, st in switches(r):
        ve, rv = variant_edges(r, sb)
        if ve is None or set(ve) != {"None", "Some"}:
            continue
        if [p["n"] for p in rv["place"]["p"] if isinstance(p, dict) and "n" in p][-2:] != ["config", "timeout"]:
            continue
        some_edges.append((sb, ve["Some"], place_key(rv["place"])))
    if not some_edges:
        raise AnchorError("SubprocessRunner::run: no match on testcase.config.timeout")
    n = 0
    for wb in sorted(set(waits)):
        n += 1
        # reachable with the limit set (consistently with timeout == Some on every later re-inspection) without passing a kill?
        unbounded = False
        for sb, tgt, pk in some_edges:
            reach = reach_consistent(r, tgt, {pk: "Some"}, removed_edges=[])
            if wb in reach:
                # remove kill blocks: still reachable?
                if wb in reach_consistent(r, tgt, {pk: "Some"}, removed_edges=[], removed_blocks=kills):
                    unbounded = True
        ctx.check(not unbounded, "no-unbounded-wait#%d" % n, r.loc(wb), "this wait() is reached only without a limit or after the process was killed",
                  "with a timeout set this unbounded wait() is reached without a preceding kill: a command that closes stdout and stderr (`exec >&- 2>&-; sleep 3`) "
                  "ends the limited read at once and then runs to completion - the test passes after 3 s with `timeout: 1s`, the document limit is overrun the same way")


def r14_11(ctx):
    """(a) F53: the wait for a previous test case counts against the per-document timeout - the duration handed to sleep / wait_until_path_or_time is the
    minimum of the configured wait and what is left of the document's time; and what is left for the command is determined *after* the wait (the
    wait dominates the selection of the effective timeout); (b) F52: the deadline is computed with checked_add (a limit the clock cannot express
    is no limit, not a panic)"""
    prog = ctx.prog
    f = _exec_all(ctx)
    o = Origins(f)
    waits = [(bb, t) for bb, t in f.calls() if (mname(t) or "").endswith("thread::sleep") or (callee_name(t) or "").endswith("wait_until_path_or_time") or (callee_name(t) or "").endswith("sleep")]
    if not waits:
        raise AnchorError("StatefulExecutor::execute_all: no sleep / wait_until_path_or_time call")
    for i, (bb, t) in enumerate(waits):
        arg = o.operand(t["args"][-1])
        bounded = any(method_name(c).split("::")[-1] in ("min", "map_or", "min_by") for c in arg.call_names()) and \
            (arg.has_call("Ord::min") or any("min" in method_name(c) for c in arg.call_names()) or _closure_uses_min(prog, f, arg))
        ctx.check(bounded, "wait-bounded-by-deadline#%d" % i, f.loc(bb), "the wait is the minimum of the configured time and what is left of the document's time",
                  "the configured wait is slept through in full (%s): `total_timeout: 1s` with `wait: 3s` runs for three seconds" % arg.show()[:80])
    # the effective timeout is selected after the wait
    mins = [bb for bb, t in f.calls() if mname(t) in ("Iterator::min", "Iterator::min_by", "Iterator::min_by_key")]
    ctx.check(bool(mins) and all(any(wb in f.reachable(0, removed_blocks=[mb]) and mb in f.reachable(wb, removed_edges=f.back_edges()) for wb, _ in waits) for mb in mins),
              "timeout-selected-after-wait", f.loc(mins[0]) if mins else f.where(), "the effective timeout is selected after the wait (what is left is determined then)",
              "the effective timeout is selected before the wait: the time spent waiting is granted to the command a second time and the document overruns its limit")
    # (b)
    adds = [bb for bb, t in f.calls() if mname(t) in ("Add::add", "Instant::add") and "Instant" in (t.get("self_ty") or "")]
    chk = [bb for bb, t in f.calls() if mname(t) == "Instant::checked_add"]
    ctx.check(bool(chk) and not adds, "deadline-no-overflow", f.where(), "the deadline is computed with Instant::checked_add",
              "the deadline is computed with `Instant + Duration`: `--timeout-seconds 18446744073709551615` panics with `overflow when adding duration to instant`")


def _closure_uses_min(prog, f, tree):
    for n in tree.walk():
        if n.kind == "agg" and isinstance(n.a, tuple) and str(n.a[0]).startswith("closure "):
            cb = prog.body_by_def(n.a[0][len("closure "):], f.crate)
            if cb is not None and any((mname(t) or "").split("::")[-1] == "min" for _, t in cb.calls()):
                return True
    return False


def run(ctx):
    ctx.run_rule("R14.1", "effective timeout: the `min` over Option<Timeout> candidates uses a comparator whose primary key is the Duration (derived Ord => first declared field) [type facts]", r14_1, floor=2)
    ctx.run_rule("R14.2", "the selected timeout is stored into testcase.config.timeout before Runner::run; SubprocessRunner::run passes limit_time(t) on every path on the Some(t) edge [E-FLOW, E-PATH]", r14_2, floor=4)
    ctx.run_rule("R14.3", "document limit = total_timeout.unwrap_or(DEFAULT_TOTAL_TIMEOUT), zero => unlimited, both defaults 900 s, --timeout-seconds wired [E-TABLE]", r14_3, floor=4)
    ctx.run_rule("R14.4", "execute_all: the Timeout arm always returns Err(Timeout(..)), never continues; Total exactly when is_global [E-PATH]", r14_4, floor=4)
    ctx.run_rule("R14.5", "test command: ExitStatus::Timeout => Err(TestCaseError::Timeout) + count_failed, never validated; remainder => Skipped [E-SITE]", r14_5, floor=4)
    ctx.run_rule("R14.8", "a timed-out execution is aborted: Popen::kill dominates every ExitStatus::Timeout result of SubprocessRunner::run [E-PATH must-pass]", r14_8, floor=1)
    ctx.run_rule("R14.9", "the limit covers the wait for the exit status too: with a timeout set no unbounded Popen::wait is reached before a kill (F31) [E-PATH, path-sensitive on the timeout Option]", r14_9, floor=2)
    ctx.run_rule("R14.7", "the remaining document time never degrades to `no limit`: deadline.map(total saturating subtraction) [E-FLOW through closure summaries]", r14_7, floor=2)
    ctx.run_rule("R14.6", "Cram: script timeout from the document limit unless zero; per-test timeouts rejected [E-SITE]", r14_6, floor=3)
    from . import c20
    ctx.run_rule("R14.10", "attribution in the Timeout arm: outputs and test cases are zipped positionally (no filter / skip on either side), so the timed-out result lands on the test case that timed out and a command inside its limits is not reported as timed out (shared with C20 R20.4) [E-STATE]", c20.r20_4, floor=7)
    ctx.run_rule("R14.11", "the wait counts against the document's time (bounded by what is left; the effective timeout is selected after it) and the deadline cannot overflow (F52, F53) [E-FLOW, E-PATH]", r14_11, floor=3)
