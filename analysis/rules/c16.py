"""C16 — configuration precedence: command line > test case > document defaults > format."""
from ..cfgq import aggregates, stmt_loc
from ..facts import AnchorError, Origins, callee_name, method_name, mname, peel, strip_mods


def arg_field(node, argn=None):
    """if node (after peeling, also through Option::as_ref / as_deref / iter adaptors of the field) is `argN.field` return (N, field) else None"""
    n = peel(node)
    while n.kind == "call" and method_name(n.a) in ("Option::as_ref", "Option::as_deref", "Option::as_mut", "Clone::clone", "IntoIterator::into_iter",
                                                      "BTreeMap::iter", "HashMap::iter", "Iterator::next", "Vec::iter", "slice::iter") and n.kids:
        n = peel(n.kids[0])
    if n.kind == "field" and n.kids:
        base = peel(n.kids[0])
        if base.kind == "arg" and (argn is None or base.a == argn):
            return (base.a, n.a)
    return None


def closure_body(prog, body, node):
    n = peel(node)
    if n.kind == "agg" and n.a[0].startswith("closure "):
        return prog.body_by_def(n.a[0][len("closure "):], body.crate), n
    return None, None


def closure_returns(prog, body, node):
    """for `|| captured.field.clone()`: returns (captured-origin-in-parent, field)"""
    cb, n = closure_body(prog, body, node)
    if cb is None:
        return None
    oc = Origins(cb)
    r = peel(oc.local(0))
    # r is field f of deref (upvar k of arg1)
    if r.kind == "field" and r.kids:
        base = peel(r.kids[0])
        if base.kind == "field" and base.kids and peel(base.kids[0]).kind == "arg" and peel(base.kids[0]).a == 1:
            k = int(base.a)
            if k < len(n.kids):
                return (peel(n.kids[k]), r.a)
    return None


def mut_calls(body, local):
    """calls that receive `&mut local` (directly or through one temporary)"""
    out = []
    refs = set()
    for bi, b in enumerate(body.blocks):
        for st in b["stmts"]:
            if st["k"] == "assign" and st["rv"]["k"] == "ref" and st["rv"]["mut"] and st["rv"]["place"]["l"] == local and not st["rv"]["place"]["p"] and not st["lhs"]["p"]:
                refs.add(st["lhs"]["l"])
    for bi, t in body.calls():
        for a in t["args"]:
            pl = a.get("move") or a.get("copy")
            if pl and not pl["p"] and pl["l"] in refs:
                out.append((bi, t))
    return out


def _list_parts(prog, body, tree, subst=None, depth=0):
    """ordered sources of a list built from two layers: chain(a, b).collect(), [a, b].concat(), or a local closure that does one of these
    (its parameters substituted by the call's arguments) -> [arg_field-or-None, ..] or None when the form is not recognised"""
    n = peel(tree)
    while n.kind == "call" and method_name(n.a) in ("Iterator::cloned", "Iterator::copied", "Iterator::collect", "Vec::from", "slice::to_vec", "Iterator::map") and n.kids:
        n = peel(n.kids[0])
    if n.kind == "call" and method_name(n.a) == "Iterator::chain":
        return [x for k in n.kids[:2] for x in (_list_parts(prog, body, k, subst, depth) or [_af(k, subst)])]
    if n.kind == "call" and method_name(n.a) in ("slice::concat", "slice::join") and n.kids:
        arr = peel(n.kids[0])
        if arr.kind == "agg" and arr.a[0] == "array":
            return [_af(k, subst) for k in arr.kids]
    if n.kind == "call" and method_name(n.a) in ("Fn::call", "FnMut::call_mut", "FnOnce::call_once") and len(n.kids) == 2 and depth < 2:
        cb, cn = closure_body(prog, body, n.kids[0])
        tup = peel(n.kids[1])
        if cb is not None and tup.kind == "agg" and tup.a[0] == "tuple":
            return _list_parts(prog, cb, Origins(cb).local(0), {i + 2: k for i, k in enumerate(tup.kids)}, depth + 1)
    return None


def _af(node, subst):
    n = peel(node)
    if subst is not None and n.kind == "arg" and n.a in subst:
        return arg_field(subst[n.a])
    return arg_field(n)


def _order_ok(fname, parts, self_arg, dflt_arg):
    """documented order of the accumulating lists: `append` - inherited (lower layer) first, own last; `prepend` - own first, inherited last (mirror image,
    so that command-line prepends run before the document's and command-line appends after them)"""
    want = [(dflt_arg, fname), (self_arg, fname)] if fname == "append" else [(self_arg, fname), (dflt_arg, fname)] if fname == "prepend" else None
    return want is None or parts == want


def _merge_fields(ctx, f, label, self_arg=1, dflt_arg=2, only=None):
    prog = ctx.prog
    o = Origins(f)
    aggs = [d for d in f.defs.get(0, []) if d[2] == "assign" and d[3]["k"] == "agg" and d[3]["agg"] == "adt"]
    if len(aggs) != 1:
        raise AnchorError("%s: expected one struct literal as result, found %d" % (f.npath, len(aggs)))
    bb, si, _, rv = aggs[0]
    adt = prog.adt(strip_mods(rv["adt"]).split("::")[-1], crate="scrut-lib")
    all_fields = [x["name"] for x in adt["variants"][0]["fields"]]
    if only is None:
        ctx.check(sorted(rv["fields"]) == sorted(all_fields), label + ":all-fields", stmt_loc(f, bb, si),
                  "every field of the config is merged explicitly (no `..base`)", "fields %s are not merged field-wise" % sorted(set(all_fields) - set(rv["fields"])))
    elif not set(only) <= set(rv["fields"]):
        ctx.bad(label + ":fields", stmt_loc(f, bb, si), "field(s) %s are not merged field-wise" % sorted(set(only) - set(rv["fields"])))
    for fname, op in zip(rv["fields"], rv["ops"]):
        if only is not None and fname not in only:
            continue
        tree = peel(o.operand(op))
        where = stmt_loc(f, bb, si)
        key = label + ":" + fname
        verdict = None
        while tree.kind == "call" and method_name(tree.a) in ("Option::cloned", "Option::copied") and tree.kids:
            tree = peel(tree.kids[0])
        if tree.kind == "call":
            m = method_name(tree.a)
            if m == "Option::or":
                a, b = arg_field(tree.kids[0]), arg_field(tree.kids[1])
                verdict = (a == (self_arg, fname) and b == (dflt_arg, fname),
                           "`%s` = self.%s.or(defaults.%s): the receiver layer wins" % (fname, fname, fname),
                           "`%s` is merged as %s.or(%s): the lower layer wins or a different field is mixed in" % (fname, a, b))
            elif m == "Option::or_else":
                a = arg_field(tree.kids[0])
                cr = closure_returns(prog, f, tree.kids[1])
                b = None
                if cr is not None and cr[0].kind == "arg":
                    b = (cr[0].a, cr[1])
                verdict = (a == (self_arg, fname) and b == (dflt_arg, fname),
                           "`%s` = self.%s.or_else(|| defaults.%s): the receiver layer wins" % (fname, fname, fname),
                           "`%s` is merged as %s.or_else(|| %s)" % (fname, a, b))
            elif m == "Iterator::collect":
                ch = peel(tree.kids[0])
                while ch.kind == "call" and method_name(ch.a) in ("Iterator::cloned", "Iterator::copied") and ch.kids:
                    ch = peel(ch.kids[0])
                ftype = next((x["ty"] for x in adt["variants"][0]["fields"] if x["name"] == fname), "")
                if ch.kind == "call" and method_name(ch.a) == "Iterator::chain" and "Vec<" in ftype:
                    first, second = arg_field(ch.kids[0]), arg_field(ch.kids[1])
                    layers = {x[0] for x in (first, second) if x}
                    names = {x[1] for x in (first, second) if x}
                    verdict = (layers == {self_arg, dflt_arg} and names == {fname} and _order_ok(fname, [first, second], self_arg, dflt_arg),
                               "list `%s` accumulates both layers in the documented order (%s chained with %s)" % (fname, first, second),
                               "list `%s` does not accumulate self and defaults in the documented order (%s chained with %s; append: inherited then own, prepend: own "
                               "then inherited)" % (fname, first, second))
                elif ch.kind == "call" and method_name(ch.a) == "Iterator::chain":
                    first, second = arg_field(ch.kids[0]), arg_field(ch.kids[1])
                    # later entries win when collecting into a map
                    verdict = (first == (dflt_arg, fname) and second == (self_arg, fname),
                               "map `%s` = defaults.chain(self).collect(): later entries win, so the receiver layer wins per key" % fname,
                               "map `%s` is collected from %s chained with %s: on a key set in both layers the LOWER layer's value wins "
                               "(collect keeps the last entry)" % (fname, first, second))
            elif m.endswith("with_defaults_from"):
                a, b = arg_field(tree.kids[0]), arg_field(tree.kids[1])
                verdict = (a == (self_arg, fname) and b == (dflt_arg, fname),
                           "nested `%s` = self.%s.with_defaults_from(defaults.%s)" % (fname, fname, fname),
                           "nested `%s` merged as %s.with_defaults_from(%s)" % (fname, a, b))
            elif m == "Clone::clone":
                pass
        if verdict is None and tree.kind == "phi" and len(tree.kids) == 2:
            # explicit match: `match &self.f { Some(v) => Some(v.clone()), None => defaults.f.clone() }`
            from ..cfgq import switches, variant_edges
            somes = [k for k in tree.kids if peel(k).kind == "agg" and str(peel(k).a[0]).endswith("Some")]
            rest = [k for k in tree.kids if k not in somes]
            if len(somes) == 1 and len(rest) == 1:
                pay = peel(somes[0]).kids[0]
                from_self = any(n.kind == "variant" and n.a == "Some" and arg_field(n.kids[0]) == (self_arg, fname) for n in pay.walk())
                lower = arg_field(rest[0]) == (dflt_arg, fname)
                edge_ok = False
                for sb_, st_ in switches(f):
                    ve_, rv_ = variant_edges(f, sb_)
                    if ve_ is None or set(ve_) != {"Some", "None"}:
                        continue
                    if arg_field(o.operand({"copy": rv_["place"]})) != (self_arg, fname):
                        continue
                    none_reg = set(f.reachable(ve_["None"])) - set(f.reachable(ve_["Some"]))
                    some_reg = set(f.reachable(ve_["Some"])) - set(f.reachable(ve_["None"]))
                    opl = op.get("move") or op.get("copy")
                    d_rest = list(f.defs.get(f.canon_place(opl)["l"], [])) if opl else []
                    blocks_some = {d[0] for d in d_rest if peel(o._def(d, 0, ())).kind == "agg"}
                    blocks_rest = {d[0] for d in d_rest} - blocks_some
                    edge_ok = bool(blocks_some) and bool(blocks_rest) and blocks_some <= some_reg and blocks_rest <= none_reg
                verdict = (from_self and lower and edge_ok,
                           "`%s` = match self.%s { Some(v) => Some(v), None => defaults.%s }: the receiver layer wins" % (fname, fname, fname),
                           "`%s` is merged by a match that does not prefer self.%s over defaults.%s (self payload: %s, fallback: %s, arms on the right edges: %s)"
                           % (fname, fname, fname, from_self, arg_field(rest[0]), edge_ok))
        if verdict is None:
            # accumulate idiom: local = X.f.clone(); local.extend(Y.f.clone())
            base = arg_field(tree)
            pl = op.get("move") or op.get("copy")
            if pl is not None:
                pl = f.canon_place(pl)
            ext = []
            if pl is not None and not pl["p"]:
                for cb_, t in mut_calls(f, pl["l"]):
                    if method_name(callee_name(t, resolved=False) or "") in ("Extend::extend", "Vec::extend", "Vec::append", "Vec::extend_from_slice"):
                        ext.append(arg_field(o.operand(t["args"][1])))
            ins = []
            if pl is not None and not pl["p"]:
                for cb_, t in mut_calls(f, pl["l"]):
                    if method_name(callee_name(t, resolved=False) or "") in ("BTreeMap::insert", "HashMap::insert"):
                        srcs = set()
                        for a_ in t["args"][1:]:
                            for n_ in o.operand(a_).walk():
                                af = arg_field(n_) if n_.kind in ("field", "call") else None
                                if af:
                                    srcs.add(af)
                        ins.append(srcs)
                    elif method_name(callee_name(t, resolved=False) or "") in ("Extend::extend",) and "Map" in f.lty(pl["l"]):
                        ins.append({arg_field(o.operand(t["args"][1]))})
            if base is not None and ins and not ext or (base is not None and ins and "Map" in f.lty(pl["l"])):
                # map built from one layer, then entries of the other inserted: the inserted layer wins per key
                verdict = (base == (dflt_arg, fname) and all(x == {(self_arg, fname)} for x in ins),
                           "map `%s` starts as defaults.%s and receives self's entries by insert/extend: the receiver layer wins per key" % (fname, fname),
                           "map `%s` starts as %s and receives entries from %s: on a key set in both layers the lower layer wins" % (fname, base, [sorted(x, key=str) for x in ins]))
            elif base is not None and ext:
                layers = {base[0]} | {e[0] for e in ext if e}
                names = {base[1]} | {e[1] for e in ext if e}
                verdict = (layers == {self_arg, dflt_arg} and names == {fname} and _order_ok(fname, [base] + ext, self_arg, dflt_arg),
                           "list `%s` accumulates both layers in the documented order (%s then %s)" % (fname, base, ext),
                           "list `%s` does not accumulate self and defaults in the documented order (%s extended with %s; append: inherited then own, prepend: own then "
                           "inherited - command-line prepends run before the document's)" % (fname, base, ext))
        if verdict is None:
            # a closure (or expression) that *selects* one of the two lists instead of joining them
            n_ = peel(o.operand(op))
            sel_ = None
            if n_.kind == "call" and method_name(n_.a) in ("Fn::call", "FnMut::call_mut", "FnOnce::call_once") and len(n_.kids) == 2:
                cb_, _cn = closure_body(prog, f, n_.kids[0])
                if cb_ is not None:
                    r_ = peel(Origins(cb_).local(0))
                    while r_.kind == "call" and method_name(r_.a) in ("slice::to_vec", "ToOwned::to_owned", "Clone::clone", "Vec::from") and r_.kids:
                        r_ = peel(r_.kids[0])
                    if r_.kind == "phi" and all(peel(k).kind == "arg" for k in r_.kids):
                        sel_ = sorted(peel(k).a for k in r_.kids)
            ftype_ = next((x["ty"] for x in adt["variants"][0]["fields"] if x["name"] == fname), "")
            if sel_ is not None and "Vec<" in ftype_:
                verdict = (False, "", "list `%s` is *selected* from one layer (closure returns one of its parameters %s), not accumulated: with `%s` in the front-matter and "
                                      "on the command line one of the two lists is dropped - its documents are never run and never reported" % (fname, sel_, fname))
        if verdict is None:
            parts = _list_parts(prog, f, o.operand(op))
            if parts is not None and len(parts) == 2:
                verdict = (set(parts) == {(self_arg, fname), (dflt_arg, fname)} and _order_ok(fname, parts, self_arg, dflt_arg),
                           "list `%s` accumulates both layers in the documented order %s" % (fname, parts),
                           "list `%s` is built from %s: not self and defaults in the documented order (append: inherited then own, prepend: own then inherited - "
                           "command-line prepends run before the document's)" % (fname, parts))
        if verdict is None:
            ctx.bad(key, where, "merge of `%s` is not in a recognised operator family (or/or_else/chain+collect/extend): %s" % (fname, tree.show()[:200]))
        else:
            ctx.check(verdict[0], key, where, verdict[1], verdict[2])


def r16_1(ctx):
    _merge_fields(ctx, ctx.prog.fn("TestCaseConfig::with_defaults_from"), "TestCaseConfig")
    _merge_fields(ctx, ctx.prog.fn("DocumentConfig::with_defaults_from"), "DocumentConfig")


def r16_2(ctx):
    for ty in ("TestCaseConfig", "DocumentConfig"):
        f = ctx.prog.fn("%s::with_overrides_from" % ty)
        o = Origins(f)
        r = peel(o.local(0))
        good = r.kind == "call" and r.a.endswith("%s::with_defaults_from" % ty) and peel(r.kids[0]).kind == "arg" and peel(r.kids[0]).a == 2 \
            and peel(r.kids[1]).kind == "arg" and peel(r.kids[1]).a == 1
        ctx.check(good, ty, f.where(), "%s::with_overrides_from(o) == o.with_defaults_from(self)" % ty,
                  "%s::with_overrides_from is %s" % (ty, r.show()[:200]))


RANK = {"CLI": 4, "TESTCASE": 3, "DOC": 2, "FORMAT": 1, "EMPTY": 0}


def _upvar_origin(prog, cb, idx):
    par = prog.body_by_def(cb.j.get("parent"), cb.crate)
    if par is None:
        return None
    o = Origins(par)
    for bi, b in enumerate(par.blocks):
        for st in b["stmts"]:
            if st["k"] == "assign" and st["rv"]["k"] == "agg" and st["rv"]["agg"] == "closure" and st["rv"]["def"] == cb.path:
                if idx < len(st["rv"]["ops"]):
                    return o.operand(st["rv"]["ops"][idx])
    return None


def classify(prog, body, node, kind, in_phi=False):
    """-> (highest layer, lowest layer) names, or None when not classifiable.
    A loop-carried value `v = phi(init, merge(v, x))` is the set of layers of init and x: the cut back reference to v itself
    (a `local` node below the phi) adds nothing and is treated as the neutral element."""
    n = peel(node)
    shown = n.show()
    if n.kind == "local" and in_phi:
        return ("EMPTY", "EMPTY")
    if n.kind == "phi":
        rs = [classify(prog, body, k, kind, True) for k in n.kids]
        if any(r is None for r in rs):
            return None
        ne = [r for r in rs if r[0] != "EMPTY"]
        rs = ne or rs
        return (max((r[0] for r in rs), key=RANK.get), min((r[1] for r in rs), key=RANK.get))
    if n.kind == "call" and (n.a.endswith("with_defaults_from") or n.a.endswith("with_overrides_from")):
        a, b = classify(prog, body, n.kids[0], kind, in_phi), classify(prog, body, n.kids[1], kind, in_phi)
        if a is None or b is None:
            return None
        both = [x for x in (a[0], a[1], b[0], b[1]) if x != "EMPTY"] or ["EMPTY"]
        return (max(both, key=RANK.get), min(both, key=RANK.get))
    # closure upvar: resolve in the parent
    if n.kind == "field" and n.kids and peel(n.kids[0]).kind == "arg" and peel(n.kids[0]).a == 1 and body.kind == "Closure" and n.a.isdigit():
        up = _upvar_origin(prog, body, int(n.a))
        if up is not None:
            par = prog.body_by_def(body.j.get("parent"), body.crate)
            return classify(prog, par, up, kind)
    if "to_testcase_config" in shown or "to_document_config" in shown:
        return ("CLI", "CLI")
    if n.kind == "field" and n.a == "defaults":
        return ("DOC", "DOC")
    if "default_markdown" in shown or "default_cram" in shown or (n.kind == "field" and n.a == "base_testcase_config"):
        return ("FORMAT", "FORMAT")
    if n.kind == "call" and n.a.endswith("::empty") and not n.kids:
        return ("EMPTY", "EMPTY")  # the empty layer is the identity of the merge: compatible with any position
    if "from_str" in shown:
        return ("TESTCASE", "TESTCASE") if kind == "TestCaseConfig" else ("DOC", "DOC")
    if n.kind == "field" and n.a == "config":
        return ("TESTCASE", "TESTCASE") if kind == "TestCaseConfig" else ("DOC", "DOC")
    return None


def r16_3(ctx):
    prog = ctx.prog
    sites = list(prog.all_calls(lambda n: n.endswith("::with_defaults_from") or n.endswith("::with_overrides_from")))
    n_def = 0
    for body, bi, t in sites:
        name = callee_name(t)
        kind = "TestCaseConfig" if "TestCaseConfig" in name else "DocumentConfig"
        if body.npath.endswith("::with_overrides_from") or body.npath.endswith("::with_defaults_from"):
            continue  # the merge functions themselves: R16.1 / R16.2
        o = Origins(body)
        recv = classify(prog, body, o.operand(t["args"][0]), kind)
        arg = classify(prog, body, o.operand(t["args"][1]), kind)
        is_over = name.endswith("with_overrides_from")
        # one key per (function, callee, ordinal) - no line numbers
        ordn = len([1 for b2, bi2, t2 in sites if b2 is body and callee_name(t2) == name and bi2 < bi])
        key = "%s>%s#%d" % (body.npath, name.split("::")[-2] + "::" + name.split("::")[-1], ordn)
        where = body.loc(bi)
        if recv is None or arg is None:
            ctx.ok(key, where, "layer of %s not classifiable (receiver=%s argument=%s): listed, not decided" % (
                "receiver" if recv is None else "argument", recv, arg), obligation=False)
            continue
        n_def += 1
        if "EMPTY" in (recv[0], arg[0]):
            ctx.ok(key, where, "one side is the empty layer (identity): %s vs %s" % (recv, arg))
            continue
        if is_over:
            good = RANK[arg[1]] >= RANK[recv[0]]
            txt = "%s(%s..%s).with_overrides_from(%s..%s)" % (kind, recv[0], recv[1], arg[0], arg[1])
        else:
            good = RANK[recv[1]] >= RANK[arg[0]]
            txt = "%s(%s..%s).with_defaults_from(%s..%s)" % (kind, recv[0], recv[1], arg[0], arg[1])
        ctx.check(good, key, where, "layer order respected: " + txt, "layer inversion: %s lets a lower-precedence layer win" % txt)
    if n_def < 9:
        ctx.bad("classified-floor", "-", "only %d merge call sites could be classified (9 confirmed by reading on the reference tree)" % n_def)


def _opt_const(node):
    """Some(const)/None description of an Option-typed origin"""
    n = peel(node)
    s = n.show()
    return s


def r16_4(ctx):
    prog = ctx.prog
    skip = prog.const("DEFAULT_SKIP_DOCUMENT_CODE").as_int()
    want = {
        "default_markdown": {"output_stream": "Stdout", "skip_document_code": skip},
        "default_cram": {"output_stream": "Combined", "keep_crlf": True, "skip_document_code": skip},
    }
    dflt = prog.impl_fn("TestCaseConfig", "Default", "default")
    for fname, exp in want.items():
        f = prog.fn("TestCaseConfig::" + fname)
        o = Origins(f)
        aggs = [d for d in f.defs.get(0, []) if d[2] == "assign" and d[3]["k"] == "agg"]
        if len(aggs) != 1:
            raise AnchorError("%s: expected one struct literal" % f.npath)
        rv = aggs[0][3]
        got = {}
        for fld, op in zip(rv["fields"], rv["ops"]):
            n = peel(o.operand(op))
            sh = n.show()
            if n.kind == "agg" and n.a[0] == "Option::Some":
                v = peel(n.kids[0])
                if v.kind == "agg":
                    got[fld] = v.a[0].split("::")[-1]
                elif v.kind == "const":
                    got[fld] = v.a.as_bool() if v.a.ty == "bool" else v.a.as_int()
                else:
                    got[fld] = sh
            elif n.kind == "field" and n.kids and peel(n.kids[0]).kind == "call" and method_name(peel(n.kids[0]).a) == "Default::default":
                pass  # ..Default::default(): unset
            elif n.kind == "agg" and n.a[0] == "Option::None":
                pass
            else:
                got[fld] = sh
        ctx.check(got == exp, fname, f.where(), "TestCaseConfig::%s sets exactly %s" % (fname, exp),
                  "TestCaseConfig::%s sets %s, documented format default is %s" % (fname, got, exp))
    ctx.check(dflt.auto_derived, "default-derived", dflt.where(), "TestCaseConfig::default is the derived all-unset value")
    # cram parser applies default_cram, markdown parser applies defaults then base
    cp = prog.impl_fn("CramParser", "Parser", "parse")
    uses = [bi for bi, t in cp.calls() if (callee_name(t) or "").endswith("TestCaseConfig::default_cram")]
    ctx.check(len(uses) >= 1, "cram-applies-default", cp.where(), "CramParser::parse applies TestCaseConfig::default_cram()")


# CLI layer: which command line flag may decide which configuration key (confirmed by reading the clap definitions
# in src/bin/commands/root.rs, test.rs, update.rs, create.rs; one line per key)
CLI_KEY_FLAGS = {
    "output_stream": {"no_combine_output", "combine_output"},      # --(no-)combine-output
    "keep_crlf": {"no_keep_output_crlf", "keep_output_crlf"},      # --(no-)keep-output-crlf
    "shell": {"shell"},                                            # --shell
    "total_timeout": {"timeout_seconds"},                          # --timeout-seconds
    "append": {"append_test_file_paths"},                          # --append-test-file-paths
    "prepend": {"prepend_test_file_paths"},                        # --prepend-test-file-paths
    "timeout": {"timeout_seconds", "timeout"},
    "skip_document_code": {"skip_document_code"},
    "strip_ansi_escaping": {"strip_ansi_escaping", "no_strip_ansi_escaping"},
    "detached": set(), "wait": set(), "environment": set(), "defaults": set(),
}


def _controlling_fields(f, o, bb):
    """self-fields whose branch decides whether block bb is reached (control dependence, loops cut)"""
    from ..cfgq import switches, bool_edges, cond_tree, variant_edges
    back = f.back_edges()
    out = set()
    for sb, st in switches(f):
        tree = peel(cond_tree(f, sb, o))
        name = None
        for n in tree.walk():
            if n.kind == "field" and n.kids and peel(n.kids[0]).kind == "arg" and peel(n.kids[0]).a == 1:
                name = n.a
        if name is None:
            continue
        succs = f.succ(sb)
        reach = [bb in f.reachable(s2, removed_edges=back) or s2 == bb for s2 in succs]
        if any(reach) and not all(reach):
            out.add(name)
    return out


def r16_5(ctx):
    prog = ctx.prog
    fns = [b for b in prog.bodies if b.promoted is None and b.crate.startswith("scrut-bin") and b.kind == "AssocFn"
           and b.name in ("to_testcase_config", "to_document_config")]
    n = 0
    for f in fns:
        o = Origins(f)
        for bi, blk in enumerate(f.blocks):
            if blk["cleanup"]:
                continue
            stores = []
            for si, st in enumerate(blk["stmts"]):
                if st["k"] == "assign" and st["lhs"]["p"]:
                    names = [p["n"] for p in st["lhs"]["p"] if isinstance(p, dict) and "n" in p]
                    base = f.lty(st["lhs"]["l"])
                    if names and ("TestCaseConfig" in base or "DocumentConfig" in base) and names[-1] in CLI_KEY_FLAGS:
                        stores.append((si, names[-1]))
            t = blk["term"]
            if t["k"] == "call" and mname(t) in ("Extend::extend", "Vec::extend", "Vec::push"):
                nm = f.arg_name(t["args"][0])
                if "." in nm and nm.split(".")[-1] in CLI_KEY_FLAGS and nm.split(".")[0] == "config":
                    stores.append(("term", nm.split(".")[-1]))
            for si, key in stores:
                n += 1
                ctl = _controlling_fields(f, o, bi)
                extra = ctl - CLI_KEY_FLAGS[key]
                fn = f.npath.split("::")[-3] + "::" + f.name if f.npath.count("::") >= 2 else f.name
                ctx.check(not extra, "cli-key:%s:%s" % (fn, key), stmt_loc(f, bi, si),
                          "the command-line layer sets `%s` only when its own flag(s) %s were given" % (key, sorted(ctl) or "(unconditional copy of the flag value)"),
                          "the command-line layer sets `%s` under flag(s) %s that are not this key's own (%s): a value the user did not pass on the command line then overrides "
                          "the test case's and the document's configuration" % (key, sorted(extra), sorted(CLI_KEY_FLAGS[key])))
    if n < 6:
        ctx.bad("cli-stores-floor", "-", "only %d command-line layer stores analysed (6 confirmed by reading)" % n)


def r16_6(ctx):
    """an absent flag must leave its key unset: no clap argument that feeds the command-line layer (the flags of CLI_KEY_FLAGS) carries a
    default value - with one, the derive fills the field although the user passed nothing and the layer overrides document and test case"""
    prog = ctx.prog
    flags = set().union(*CLI_KEY_FLAGS.values())
    seen = set()
    n = 0
    for b in prog.bodies:
        if b.promoted is not None or not b.crate.startswith("scrut-bin") or b.name not in ("augment_args", "augment_args_for_update"):
            continue
        o = None
        for bb, t in b.calls():
            m = mname(t)
            if m == "Arg::new":
                o = o or Origins(b)
                ident = peel(o.operand(t["args"][0]))
                if ident.kind == "const" and ident.a.as_str() in flags:
                    seen.add(ident.a.as_str())
            if not (m.startswith("Arg::default_") or m in ("Arg::default_missing_value", "Arg::default_missing_values")):
                continue
            o = o or Origins(b)
            recv = o.operand(t["args"][0])
            ids = [peel(x.kids[0]).a.as_str() for x in recv.walk() if x.kind == "call" and method_name(x.a) == "Arg::new" and x.kids and peel(x.kids[0]).kind == "const"]
            for ident in ids[:1]:
                n += 1
                ctx.check(ident not in flags, "flag-default:%s:%s" % (b.impl_self.split("::")[-1] if b.impl_self else b.npath, ident), b.loc(bb),
                          "`%s` has a clap default but is no key of the command-line configuration layer" % ident,
                          "the flag `%s` feeds the command-line configuration layer and has a clap default (%s): without the flag on the command line the layer still "
                          "sets the key and overrides the document's / test case's value" % (ident, peel(o.operand(t["args"][1])).show()[:40] if len(t["args"]) > 1 else "?"))
    ctx.check(len(seen) >= 8, "flags-found", "-", "%d flag definitions of the command-line layer found in the clap derives (%s)" % (len(seen), sorted(seen)),
              "only %d of the command-line layer's flags found in the clap derives: %s" % (len(seen), sorted(seen)))


def run(ctx):
    ctx.run_rule("R16.1", "with_defaults_from merges every field with an operator whose priority side is the receiver: or/or_else (receiver wins), "
                 "defaults.chain(self).collect() for maps (later wins), extend for lists (both kept) [E-FLOW]", r16_1, floor=14)
    ctx.run_rule("R16.2", "with_overrides_from(o) == o.with_defaults_from(self) in both config types [E-FLOW]", r16_2, floor=2)
    ctx.run_rule("R16.3", "layer order at every merge call site in lib+bin: CLI > TESTCASE > DOC > FORMAT [E-SITE]", r16_3, floor=9)
    ctx.run_rule("R16.4", "format default tables: markdown {stdout, skip 80}, cram {combined, keep_crlf, skip 80} [E-TABLE]", r16_4, floor=4)
    ctx.run_rule("R16.6", "an absent flag leaves its key unset: no clap default on any flag that feeds the command-line layer [E-SITE over the derive expansion]", r16_6, floor=8)
    ctx.run_rule("R16.5", "who-may-set in the command-line layer: each key is decided only by its own flag(s) (control dependence of every store in to_*_config) [E-SITE]", r16_5, floor=6)
