"""C19 — every renderer handles every outcome and shows every difference (structural clauses)."""
from ..cfgq import aggregates, bool_edges, cond_tree, const_str_of, explore, place_key, result_variant_blocks, stmt_loc, switches, variant_edges
from ..facts import AnchorError, Origins, callee_name, method_name, mname, peel, strip_mods
from . import eunit
from .c06 import _len_minus_sites, _len_guard  # shared `len()-k` sweep

FILTERS = {"Iterator::skip", "Iterator::take", "Iterator::filter", "Iterator::step_by", "Iterator::skip_while", "Iterator::take_while", "Iterator::nth",
           "Iterator::filter_map"}


def r19_1(ctx):
    prog = ctx.prog
    hits = list(eunit.sweep(prog, scope=lambda b: "src/renderers/" in b.file or "src/output.rs" in b.file or "src/outcome.rs" in b.file))
    seen = {}
    for b, bb, m, i, r in hits:
        nm = b.name if b.npath.startswith("<") else b.npath.split("::")[-1]
        k = seen.setdefault(nm, 0)
        seen[nm] = k + 1
        ctx.bad("char-as-byte:%s#%d" % (nm, k), b.loc(bb),
                "a character count (%s) is used as byte offset in %s of a str: a line ending in a multi-byte whitespace character (e.g. U+3000) "
                "makes the renderer panic (`not a char boundary`)" % (r, m))
    swept = len([b for b in prog.bodies if b.promoted is None and "src/renderers/" in b.file])
    if not hits:
        ctx.ok("no-char-as-byte", "-", "no character count reaches a str byte-offset sink in the renderers (%d bodies swept)" % swept)
    ctrl = list(eunit.sweep(ctx.ctrl)) if ctx.ctrl else []
    ctx.control("char-index-summary", any("control_char_index_via_helper" == b.npath for b, *_ in ctrl), "fixtures/positive control_char_index_via_helper")


def _distinct_arms(ctx, f, enum_suffix, key, min_variants):
    found = 0
    for sb, st in switches(f):
        ve, rv = variant_edges(f, sb)
        if ve is None or not strip_mods(rv["ty"]).replace("&", "").endswith(enum_suffix):
            continue
        found += 1
        targets = {}
        for v, tg in ve.items():
            targets.setdefault(tg, []).append(v)
        shared = [vs for vs in targets.values() if len(vs) > 1]
        ctx.check(not shared and len(ve) >= min_variants, "%s#%d" % (key, found), f.loc(sb),
                  "every %s variant has its own arm (%d variants, no wildcard)" % (enum_suffix, len(ve)),
                  "%s variants %s share one arm (a wildcard): they are rendered identically / dropped" % (enum_suffix, shared))
    return found


def r19_2(ctx):
    prog = ctx.prog
    re_ = [b for b in prog.bodies if b.promoted is None and b.name == "render_error" and b.kind == "AssocFn"]
    if not re_:
        raise AnchorError("ErrorRenderer::render_error not found")
    n = 0
    for f in re_:
        n += _distinct_arms(ctx, f, "TestCaseError", "dispatch:" + f.crate, len(prog.adt("TestCaseError", crate="scrut-lib")["variants"]))
        # each arm calls a different render_* method
        called = sorted({mname(t) for _, t in f.calls() if (mname(t) or "").startswith("ErrorRenderer::render_")})
        ctx.check(len(called) >= 5, "dispatch-targets:" + f.crate, f.where(), "render_error delegates to %s" % called, "render_error delegates only to %s" % called)
    ctx.check(n >= 1, "dispatch-found", "-", "render_error switch over TestCaseError found")
    for anchor in ("<PrettyColorRenderer as ErrorRenderer>::render_malformed_output", "UnifiedDiff::render"):
        f = prog.fn(anchor)
        k = _distinct_arms(ctx, f, "DiffLine", "diffline:" + anchor.split("::")[-1] + ":" + ("pretty" if "Pretty" in anchor else "diff"), 3)
        ctx.check(k >= 1, "diffline-found:" + anchor, f.where(), "switch over DiffLine found in %s" % anchor)


def r19_3(ctx):
    prog = ctx.prog
    # pretty
    f = prog.fn("<PrettyColorRenderer as ErrorRenderer>::render_malformed_output")
    o = Origins(f)
    sw = None
    for sb, st in switches(f):
        ve, rv = variant_edges(f, sb)
        if ve is not None and strip_mods(rv["ty"]).endswith("DiffLine"):
            sw = (sb, ve, rv)
    sb, ve, rv = sw
    pk = place_key(rv["place"])
    back = f.back_edges()
    regs = {v: set(explore(f, tg, {pk: v}, removed_edges=back).keys()) for v, tg in ve.items()}

    def excl(v):
        rest = set()
        for v2, r in regs.items():
            if v2 != v:
                rest |= r
        return regs[v] - rest
    # Unmatched: expectation text reaches output.push_str
    pushes = [(bb, t) for bb, t in f.calls() if bb in excl("UnmatchedExpectation") and mname(t) == "String::push_str"]
    ctx.check(len(pushes) >= 1, "pretty:unmatched-emitted", f.loc(sb), "the UnmatchedExpectation arm writes to the output",
              "the pretty renderer's UnmatchedExpectation arm writes nothing: missing expectations are not shown")
    # ... on every path through the arm (no guard that silently drops some unmatched expectations)
    from .c20 import _segment_events
    ev = {bb: {"w": 1} for bb, t in pushes}
    if ev:
        keys, outs = _segment_events(f, ve["UnmatchedExpectation"], set(), ev)
        cnts = {cnt[0] for how, cnt in outs if how == "stop"}
        ctx.check(cnts and 0 not in cnts, "pretty:unmatched-on-every-path", f.loc(sb), "every UnmatchedExpectation record is written (no path through the arm skips the write)",
                  "some path through the UnmatchedExpectation arm writes nothing (writes per path: %s): certain unmatched expectations are silently not shown" % sorted(cnts))
    fe_all = [bb for bb, t in f.calls() if bb in excl("UnexpectedLines") and mname(t) in ("Iterator::for_each",)]
    if fe_all:
        keys, outs = _segment_events(f, ve["UnexpectedLines"], set(), {bb: {"w": 1} for bb in fe_all})
        cnts = {cnt[0] for how, cnt in outs if how == "stop"}
        ctx.check(cnts and 0 not in cnts, "pretty:unexpected-on-every-path", f.loc(sb), "every UnexpectedLines record is iterated and written")
    for bb, t in pushes:
        tree = o.operand(t["args"][1])
        ctx.check(tree.has_call("Expectation::to_expression_string", "Expectation::original_string") and any(n.kind == "field" and n.a == "expectation" for n in tree.walk()),
                  "pretty:unmatched-text", f.loc(bb), "the unmatched expectation's own text is rendered", "the Unmatched arm renders %s" % tree.show()[:100])
    # Unexpected: for_each over all lines, closure pushes escaped line
    fe = [(bb, t) for bb, t in f.calls() if bb in excl("UnexpectedLines") and mname(t) in ("Iterator::for_each", "Iterator::fold", "Iterator::map")]
    loops = [bb for bb, t in f.calls() if bb in excl("UnexpectedLines") and mname(t) == "Iterator::next"]
    ctx.check(bool(fe) or bool(loops), "pretty:unexpected-iterated", f.loc(sb), "the UnexpectedLines arm iterates the lines",
              "the UnexpectedLines arm of the pretty renderer does not iterate its lines")
    for bb, t in fe:
        src = o.operand(t["args"][0])
        bad = [m for m in (method_name(c) for c in src.call_names()) if m in FILTERS]
        ctx.check(not bad and any(n.kind == "field" and n.a == "lines" for n in src.walk()), "pretty:unexpected-all-lines", f.loc(bb),
                  "all unexpected lines are visited (no skip/take/filter)", "unexpected lines are visited through %s" % bad)
        cl = peel(o.operand(t["args"][1]))
        if cl.kind == "agg" and cl.a[0].startswith("closure "):
            cb = prog.body_by_def(cl.a[0][len("closure "):], f.crate)
            oc = Origins(cb)
            ps = [(b2, t2) for b2, t2 in cb.calls() if mname(t2) == "String::push_str"]
            good = len(ps) == 1 and oc.operand(ps[0][1]["args"][1]).has_call("Escaper::escaped_expectation")
            all_paths = good and all(ps[0][0] in cb.reachable(0, removed_blocks=[]) and rb not in cb.reachable(0, removed_blocks=[ps[0][0]]) for rb in cb.return_blocks())
            ctx.check(good and all_paths, "pretty:unexpected-text", cb.where(), "every unexpected line is escaped and pushed on every path through the closure",
                      "the per-line closure does not push escaped_expectation(line) on every path")
    # diff renderer
    u = prog.fn("UnifiedDiff::render")
    ou = Origins(u)
    sw = None
    for sb2, st in switches(u):
        ve2, rv2 = variant_edges(u, sb2)
        if ve2 is not None and strip_mods(rv2["ty"]).endswith("DiffLine"):
            sw = (sb2, ve2, rv2)
    sb2, ve2, rv2 = sw
    pk2 = place_key(rv2["place"])
    back2 = u.back_edges()
    regs2 = {v: set(explore(u, tg, {pk2: v}, removed_edges=back2).keys()) for v, tg in ve2.items()}

    def excl2(v):
        rest = set()
        for v2, r in regs2.items():
            if v2 != v:
                rest |= r
        return regs2[v] - rest
    # private fields of the hunk buffer are bound by their types (a rename keeps the anchor)
    F_UNM = prog.field_by_type("UnifiedDiff", "Vec<String>", "unmatched_lines")
    F_UNX = prog.field_by_type("UnifiedDiff", "Vec<(usize, String)>", "unexpected_lines")
    F_STARTS = {prog.field_by_type("UnifiedDiff", "Option<usize>", "unmatched_start", nth=0), prog.field_by_type("UnifiedDiff", "Option<usize>", "unexpected_start", nth=1)}
    um = [(bb, t) for bb, t in u.calls() if bb in excl2("UnmatchedExpectation") and mname(t) == "Vec::push" and ("." + F_UNM) in ou.operand(t["args"][0]).show()]
    ctx.check(len(um) == 1 and ou.operand(um[0][1]["args"][1]).has_call("Expectation::original_string"), "diff:unmatched-buffered", u.loc(sb2),
              "every unmatched expectation is buffered into the hunk (original text)", "the diff renderer's Unmatched arm buffers %d lines" % len(um))
    ux = [(bb, t) for bb, t in u.calls() if bb in excl2("UnexpectedLines") and mname(t) in ("Extend::extend", "Vec::extend", "Vec::push", "Vec::append")
          and ("." + F_UNX) in ou.operand(t["args"][0]).show()]
    ctx.check(len(ux) == 1, "diff:unexpected-buffered", u.loc(sb2), "unexpected lines are buffered into the hunk", "Unexpected arm buffers %d times" % len(ux))
    for bb, t in ux:
        src = ou.operand(t["args"][1])
        bad = [m for m in (method_name(c) for c in src.call_names()) if m in FILTERS]
        ctx.check(not bad and any(n.kind == "field" and n.a == "lines" for n in src.walk()), "diff:unexpected-all-lines", u.loc(bb),
                  "all unexpected lines reach the hunk buffer", "unexpected lines pass %s" % bad)
    # final flush on every path to Ok: the hunk emission (DiffHeader construction) after the loop
    oks = [b for b, _, _ in result_variant_blocks(u, "Ok")]
    hdrs = [bb for bb, si, rvv in aggregates(u, "DiffHeader", "DiffHeader")]
    loop_heads = {s for (_, s) in back2}
    after_loop = [h for h in hdrs if not any(h in u.reachable(lh, removed_edges=back2) and any(b in u.reachable(h, removed_edges=[]) for (b, s2) in back2 if s2 == lh) for lh in loop_heads)]
    # simpler and exact: a header block from which the loop back edge is not reachable
    # (only the main loop over the diff lines counts: a flush may contain loops of its own over the buffered lines)
    main_back = [(b, h) for (b, h) in back2 if u.dominates(h, sb2)]
    tail_hdrs = [h for h in hdrs if not any(b in u.reachable(h) for (b, _) in main_back)]
    ctx.check(len(tail_hdrs) >= 1, "diff:final-flush", u.where(), "a hunk flush after the loop emits what is still buffered",
              "the diff renderer has no hunk flush after its loop: the last differences are never written")
    if tail_hdrs and oks:
        # on the path to Ok after the loop, the `buffers non-empty` test is evaluated: the block testing is_some of the starts dominates Ok
        # (is_some() calls or a match over the two Option fields: any decision after the loop that looks at unmatched_start / unexpected_start)
        tests, seen_fields = [], set()
        for sb3, st3 in switches(u):
            if any(b in u.reachable(sb3) for (b, _) in main_back):
                continue
            be3 = bool_edges(u, sb3)
            if be3 is not None:
                tree3 = cond_tree(u, sb3, ou)
            else:
                ve3, rv3 = variant_edges(u, sb3)
                if ve3 is None:
                    continue
                tree3 = ou.operand({"copy": rv3["place"]})
            flds = {n.a for n in tree3.walk() if n.kind == "field" and n.a in F_STARTS}
            if flds:
                tests.append(sb3)
                seen_fields |= flds
        ctx.check(bool(tests) and seen_fields == F_STARTS and len(F_STARTS) == 2 and all(any(u.dominates(tb, ob) for tb in tests) for ob in oks),
                  "diff:final-flush-dominates", u.where(), "every path to Ok(output) passes the final `anything buffered?` test (both hunk starts are examined)",
                  "after the loop the decision to flush looks at %s only / does not dominate Ok" % sorted(seen_fields))
    # hunk writer closures emit the buffered lines
    for cb in prog.closures_of(u):
        oc = Origins(cb)
        ps = [(b2, t2) for b2, t2 in cb.calls() if mname(t2) == "String::push_str"]
        if ps:
            ctx.check(len(ps) == 1, "diff:hunk-line:" + cb.name, cb.where(), "each buffered line is written once")


def r19_4(ctx):
    prog = ctx.prog
    for anchor in ("<PrettyColorRenderer as Renderer>::render", "<DiffRenderer as Renderer>::render"):
        fs = prog.find_fns(anchor)
        if len(fs) != 1:
            raise AnchorError("%s not found" % anchor)
        f = fs[0]
        sw = None
        for sb, st in switches(f):
            ve, rv = variant_edges(f, sb)
            if ve is not None and set(ve) == {"Ok", "Err"} and [p["n"] for p in f.canon_place(rv["place"])["p"] if isinstance(p, dict) and "n" in p][-1:] == ["result"]:
                sw = (sb, ve, rv)
        if sw is None:
            ctx.bad("ok-arm:" + anchor, f.where(), "no switch on outcome.result found")
            continue
        sb, ve, rv = sw
        pk = place_key(rv["place"])
        back = f.back_edges()
        ok_reg = set(explore(f, ve["Ok"], {pk: "Ok"}, removed_edges=back).keys())
        err_reg = set(explore(f, ve["Err"], {pk: "Err"}, removed_edges=back).keys())
        only_ok = ok_reg - err_reg
        writes = [bb for bb, t in f.calls() if bb in only_ok and mname(t) in ("String::push_str", "String::push", "ErrorRenderer::render_error", "OutcomeHeader::render_header")]
        ctx.check(not writes, "ok-arm:" + ("pretty" if "Pretty" in anchor else "diff"), f.loc(sb),
                  "a passing outcome writes nothing to the rendering (counter / continue only)",
                  "the Ok arm of %s writes to the output: passing tests get a section" % anchor)
        err_calls = [bb for bb, t in f.calls() if bb in err_reg - ok_reg and mname(t) == "ErrorRenderer::render_error"]
        ctx.check(len(err_calls) >= 1, "err-arm:" + ("pretty" if "Pretty" in anchor else "diff"), f.loc(sb), "failed outcomes are rendered through render_error")


def r19_5(ctx):
    prog = ctx.prog
    for ty in ("JsonRenderer", "YamlRenderer"):
        f = prog.impl_fn(ty, "Renderer", "render")
        o = Origins(f)
        sers = [(bb, t) for bb, t in f.calls() if t.get("callee_crate") in ("serde_json", "serde_yaml") and (mname(t) or "").split("::")[-1] in ("to_string", "to_string_pretty")]
        ctx.check(len(sers) >= 1, ty + ":serialises", f.where(), "%s serialises with serde" % ty)
        for bb, t in sers:
            arg = peel(o.operand(t["args"][0]))
            bad = [m for m in (method_name(c) for c in arg.call_names()) if m in FILTERS]
            ctx.check(arg.kind == "arg" and arg.a == 2 and not bad, ty + ":whole-slice", f.loc(bb), "the whole `outcomes` slice is serialised, unfiltered",
                      "%s serialises %s" % (ty, arg.show()[:80]))
    s = prog.impl_fn("Outcome", "Serialize", "serialize")
    os_ = Origins(s)
    entries = []
    for bb, t in s.calls():
        if mname(t) in ("SerializeMap::serialize_entry", "SerializeStruct::serialize_field"):
            entries.append((bb, const_str_of(prog, s, os_.operand(t["args"][1]))))
    ends = [bb for bb, t in s.calls() if mname(t) in ("SerializeMap::end", "SerializeStruct::end")]
    res = [bb for bb, k in entries if k == "result"]
    ctx.check(len(res) >= 1 and ends and all(any(s.dominates(r, e) for r in res) or
                                               all(e not in s.reachable(0, removed_blocks=res) for _ in [0]) for e in ends),
              "outcome:result-always", s.where(), "Serialize for Outcome writes `result` on every path to end()",
              "Serialize for Outcome can reach end() without writing `result` (entries: %s)" % [k for _, k in entries])
    e = prog.impl_fn("TestCaseError", "Serialize", "serialize")
    oe = Origins(e)
    kinds = []
    for bb, t in e.calls():
        if mname(t) in ("SerializeMap::serialize_entry", "SerializeStruct::serialize_field"):
            k = const_str_of(prog, e, oe.operand(t["args"][1]))
            if k == "kind":
                v = const_str_of(prog, e, oe.operand(t["args"][2]))
                kinds.append(v)
    adt = prog.adt("TestCaseError", crate="scrut-lib")
    nvar = len(adt["variants"])
    ctx.check(len(kinds) == nvar and len(set(kinds)) == nvar and None not in kinds, "error:kinds-distinct", e.where(),
              "every TestCaseError variant serialises a distinct `kind` literal: %s" % kinds,
              "TestCaseError has %d variants but serialises kinds %s" % (nvar, kinds))


def r19_6(ctx):
    n = 0
    for b, o, bi, si, st, lnode, k in _len_minus_sites(ctx.prog):
        if "src/renderers/" not in b.file:
            continue
        n += 1
    ctx.ok("len-minus-renderers", "-", "%d `len()-k` expressions in src/renderers (index uses are checked by C06/R6.4 over the same sweep)" % n, obligation=False)
    # direct `x[0]` on a Vec from a DiffLine is justified by C02 (matched lines are non-empty); listed
    f = ctx.prog.fn("<PrettyColorRenderer as ErrorRenderer>::render_malformed_output")
    ctx.ok("lines[0]", f.where(), "`lines[0]` of a MatchedExpectation relies on C02/R2.1 (a Matched entry carries >= 1 line)", obligation=False)


def r19_7(ctx):
    """the pretty renderer pads line numbers with `width - digits(num)` (unsigned): the gutter width must come from an upper
    bound of every number it prints - expectation numbers are bounded by testcase.expectations.len(), output line numbers by
    diff.count_output_lines (every output line is recorded once, C01) - plus the same base that is added to the numbers"""
    prog = ctx.prog
    f = prog.impl_fn("PrettyColorRenderer", "ErrorRenderer", "render_malformed_output")
    o = Origins(f)
    news = [(bb, t) for bb, t in f.calls() if (callee_name(t) or "").endswith("Decorator::new")]
    if len(news) != 1:
        raise AnchorError("render_malformed_output: expected one Decorator::new")
    bb, t = news[0]
    w = o.operand(t["args"][0])
    maxes = [n for n in w.walk() if n.kind == "call" and method_name(n.a) in ("Ord::max", "cmp::max")]
    has_exp = any(n.kind == "call" and method_name(n.a) == "Vec::len" and any(k.kind == "field" and k.a == "expectations" for k in n.walk()) and
                  any(k.kind == "field" and k.a == "testcase" for k in n.walk()) for m in maxes for n in m.walk())
    has_out = any(n.kind == "field" and n.a == "count_output_lines" for m in maxes for n in m.walk())
    lowering = [n.a for n in w.walk() if (n.kind == "call" and method_name(n.a) in ("Ord::min", "cmp::min", "usize::saturating_sub", "usize::checked_sub")) or
                (n.kind == "bin" and n.a in ("Div", "Shr", "Rem") )]
    ctx.check(bool(maxes) and has_exp and has_out and not lowering, "gutter-width-bound", f.loc(bb),
              "the gutter width is computed from max(diff.count_output_lines, testcase.expectations.len()): an upper bound of every printed expectation and line number",
              "the gutter width is computed from %s: it is no upper bound of the printed numbers (skipped optional expectations are not in the diff, yet later expectations "
              "print their own index), so `width - digits` underflows and the renderer panics instead of rendering the failure" % w.show()[:160])
    # the base added to the printed numbers is the base added to the bound
    base_nodes = [n for n in w.walk() if n.kind == "phi" and any(k.kind == "const" and k.a.as_int() == 0 for k in n.kids)]
    lines = [(b2, t2) for b2, t2 in f.calls() if (callee_name(t2) or "").endswith("Decorator::line")]
    ok_base = True
    for b2, t2 in lines:
        for a in t2["args"][1:3]:
            tr = o.operand(a)
            adds = [n for n in tr.walk() if (n.kind == "bin" and n.a in ("AddWithOverflow", "Add")) or (n.kind == "call" and method_name(n.a) == "Add::add")]
            if adds and base_nodes and not any(n.kind == "phi" and n.a == base_nodes[0].a for n in tr.walk()):
                ok_base = False
    ctx.check(bool(lines) and (ok_base or not base_nodes), "gutter-base", f.where(), "printed numbers and the width bound use the same line base (%d Decorator::line calls)" % len(lines))
    # the padding subtraction exists only in Decorator::output_line_number
    d = prog.fn("Decorator::output_line_number")
    subs = [1 for bi, b in enumerate(d.blocks) for st in b["stmts"] if st["k"] == "assign" and st["rv"].get("k") in ("bin", "checked") and "Sub" in str(st["rv"].get("op"))]
    ctx.ok("gutter-padding-site", d.where(), "padding = width - digits(number) in Decorator::output_line_number (%d unsigned subtraction(s)); bounded by the rule above" % len(subs), obligation=False)


REORDER_ONLY = {"sort", "sort_by", "sort_by_key", "sort_unstable", "sort_unstable_by", "sort_unstable_by_key", "sort_by_cached_key", "reverse", "as_mut_slice", "as_mut",
                "deref_mut", "iter_mut", "index_mut"}
DROPPING = ("dedup", "retain", "truncate", "drain", "pop", "remove", "swap_remove", "split_off", "clear", "filter", "take", "skip", "step_by", "take_while", "skip_while", "nth")


def r19_8(ctx):
    """no renderer loses an outcome on the way from its argument to its loop: the list may be copied and re-ordered, but no element-dropping
    operation (dedup*, retain, truncate, drain, filter, take, skip ..) is applied to it"""
    prog = ctx.prog
    from .c16 import mut_calls
    n = 0
    for b in prog.bodies:
        if b.promoted is not None or b.kind != "AssocFn" or b.name != "render" or not b.impl_trait or not b.impl_trait.endswith("Renderer") or "::tests" in b.npath:
            continue
        if not b.file.startswith("src/renderers/"):
            continue
        o = Origins(b)
        # locals holding a list of outcomes
        lists = [l for l in range(len(b.locals)) if "Outcome" in b.lty(l) and ("Vec<" in b.lty(l))]
        bad = []
        for l in lists:
            for mb, mt in mut_calls(b, l):
                last = mname(mt).split("::")[-1]
                if last in REORDER_ONLY:
                    continue
                if any(last.startswith(d) for d in DROPPING):
                    bad.append((b.loc(mb), mname(mt)))
        # the loop source: no dropping adaptor between the argument and Iterator::next / for_each
        for bb, t in b.calls():
            if mname(t) in ("Iterator::next", "Iterator::for_each", "Iterator::map", "Iterator::fold") and "Outcome" in (t.get("self_ty") or ""):
                src = o.operand(t["args"][0])
                for x in src.walk():
                    if x.kind == "call" and any(method_name(x.a).split("::")[-1].startswith(d) for d in DROPPING) and "Outcome" in x.a:
                        bad.append((b.loc(bb), method_name(x.a)))
        n += 1
        ctx.check(not bad, "no-outcome-dropped:" + b.impl_self.split("::")[-1], b.where(),
                  "%s::render iterates every outcome it was given (the list is at most copied and re-ordered)" % b.impl_self.split("::")[-1],
                  "%s::render drops outcomes before rendering them: %s - a failed test case with the same key as another one (e.g. same location and line number "
                  "through --prepend-test-file-paths) disappears from the report" % (b.impl_self.split("::")[-1], bad))
    ctx.check(n >= 3, "renderers-found", "-", "%d Renderer::render implementations analysed" % n, "only %d Renderer::render implementations found" % n)


TEXT_CHANGING = {"trim", "trim_end", "trim_start", "trim_matches", "trim_end_matches", "trim_start_matches", "trim_ascii", "trim_ascii_end", "trim_ascii_start",
                 "strip_suffix", "strip_prefix", "replace", "replacen", "to_lowercase", "to_uppercase", "to_ascii_lowercase", "to_ascii_uppercase", "truncate",
                 "split_whitespace", "retain", "pop", "drain", "split_off"}
STRICT_DECODERS = {"String::from_utf8", "str::from_utf8", "core::str::from_utf8", "from_utf8", "String::from_utf8_unchecked", "str::from_utf8_unchecked"}


def _text_calls(prog, body, tree, depth=0):
    """method names of all std calls in a provenance tree, descending into the result trees of closures found in it"""
    out = []
    for n in tree.walk():
        if n.kind == "call":
            out.append((method_name(n.a) or "", body))
        if n.kind == "agg" and isinstance(n.a, tuple) and str(n.a[0]).startswith("closure ") and depth < 3:
            cb = prog.body_by_def(n.a[0][len("closure "):], body.crate)
            if cb is not None:
                out.extend(_text_calls(prog, cb, Origins(cb).local(0), depth + 1))
                for bb, t in cb.calls():
                    out.append((mname(t) or "", cb))
    return out


def r19_9(ctx):
    """what is shown of a difference is the text itself: (a) output bytes are decoded lossily - a strict from_utf8 with `?` fails the whole rendering on a
    line that is not UTF-8; (b) between a DiffLine payload and the hunk buffers (diff) / push_str (pretty) the text passes through no trimming, cutting or
    re-casing std call - trailing blanks are exactly what such a difference consists of"""
    prog = ctx.prog
    n_sites = 0
    # (a) strict decoders in the renderers
    strict = []
    bodies = [b for b in prog.bodies if b.promoted is None and b.file.startswith("src/renderers/") and "::tests" not in b.npath]
    lossy = 0
    for b in bodies:
        for bb, t in b.calls():
            m = mname(t) or ""
            if m in STRICT_DECODERS or m.endswith("::from_utf8"):
                strict.append((b.loc(bb), m))
            if m.endswith("from_utf8_lossy"):
                lossy += 1
    ctx.check(not strict and lossy >= 1, "lossy-decoding", strict[0][0] if strict else "src/renderers/", "the renderers decode output bytes lossily only (%d site(s)), no strict from_utf8" % lossy,
              "a renderer decodes output bytes with %s: a failed test case whose output has a line that is not valid UTF-8 (latin-1 text, a cut multi-byte character) makes "
              "the whole rendering fail - no report, exit 1 instead of 50" % sorted({m for _, m in strict}))
    # (a') what the structured renderers serialise stays within what serde_yaml can write: no `serialize_bytes` in the crate's Serialize impls
    # (serde_json writes an array of numbers, serde_yaml 0.9 answers `serialization of bytes in YAML is not implemented` - for the whole outcome list)
    raw = []
    for b in prog.bodies:
        if b.promoted is None and b.crate == "scrut-lib" and "::tests" not in b.npath:
            for bb, t in b.calls():
                if (mname(t) or "").endswith("::serialize_bytes"):
                    raw.append((b.loc(bb), b.npath))
    ctx.check(not raw, "no-serialize-bytes", raw[0][0] if raw else "src/output.rs", "no Serialize impl of the crate emits raw bytes (output is serialised as lossy text)",
              "%s serialises through serialize_bytes: the yaml renderer fails on every outcome list that contains such a value (output that is not valid UTF-8) - no "
              "rendering, exit 1 instead of 50" % sorted({n_ for _, n_ in raw}))
    # (c) the loops over the diff records are left by exhaustion only (or by an error return): a `break` behind some record hides every later one
    for fn_ in (prog.impl_fn("PrettyColorRenderer", "ErrorRenderer", "render_malformed_output"), prog.fn("UnifiedDiff::render")):
        of = Origins(fn_)
        nexts = [(bb, t) for bb, t in fn_.calls() if mname(t) == "Iterator::next" and "DiffLine" in ((t.get("self_ty") or "") + (t.get("callee_args") or ""))]
        for nb, nt in nexts:
            ve, rvv = variant_edges(fn_, nt["target"])
            if ve is None or set(ve) != {"Some", "None"}:
                continue
            # natural loop of the back edges into the block that calls next()
            body_ = {nb}
            for b_, h_ in fn_.back_edges():
                if h_ == nb or fn_.dominates(nb, b_) and nb in fn_.reachable(b_):
                    stack_ = [b_]
                    body_.add(b_)
                    while stack_:
                        x_ = stack_.pop()
                        for p_ in fn_.preds[x_]:
                            if p_ not in body_ and fn_.dominates(nb, p_):
                                body_.add(p_)
                                stack_.append(p_)
            exits = {(b, s2) for b in body_ for s2 in fn_.succ(b) if s2 not in body_ and not fn_.blocks[s2]["cleanup"]}
            early = []
            for b, s2 in exits:
                if b == nt["target"] and s2 == ve["None"]:
                    continue
                # error propagation (`?`) leaves through a from_residual / Err return: allowed
                reach = set(fn_.reachable(s2, removed_edges=fn_.back_edges()))
                errs = {bb2 for bb2, _si, _rv in aggregates(fn_, "Result", "Err")} | {bb2 for bb2, t2 in fn_.calls() if mname(t2) == "FromResidual::from_residual"}
                if s2 in errs or (reach & errs and not any(fn_.blocks[x]["term"]["k"] == "call" and mname(fn_.blocks[x]["term"]) == "String::push_str" for x in reach)):
                    continue
                if fn_.blocks[s2]["term"]["k"] in ("unreachable", "resume"):
                    continue
                early.append(fn_.loc(b))
            n_sites += 1
            ctx.check(not early, "records-loop-complete:" + fn_.npath.split("::")[-1], early[0] if early else fn_.loc(nb),
                      "the loop over the diff records of %s is left by exhaustion only" % fn_.npath.split("::")[-1],
                      "the loop over the diff records can be left early (%s): the records behind that point - e.g. unexpected output lines after a long run of matching "
                      "lines - are not rendered" % early[:2])
    # (b) stores of the diff renderer
    r = prog.fn("UnifiedDiff::render")
    o = Origins(r)
    for bb, t in r.calls():
        if mname(t) in ("Extend::extend", "Vec::extend", "Vec::push", "Vec::extend_from_slice", "Vec::append"):
            recv = r.arg_name(t["args"][0]) or ""
            if "self" not in recv and "." not in recv:
                continue
            calls = _text_calls(prog, r, o.operand(t["args"][1]))
            bad = sorted({m for m, _ in calls if m.split("::")[-1] in TEXT_CHANGING})
            n_sites += 1
            ctx.check(not bad, "diff-buffer-verbatim:" + recv.split(".")[-1], r.loc(bb), "`%s` receives the text as it is (line feed trimmed only)" % recv,
                      "the text stored in `%s` passes through %s: an unexpected line that differs from the expectation only in trailing whitespace is shown as `-foo` / `+foo`, "
                      "the rendering does not contain the line that was printed" % (recv, bad))
    # pretty: text pushed to the output in render_malformed_output and its closures
    pm = prog.impl_fn("PrettyColorRenderer", "ErrorRenderer", "render_malformed_output")
    for b in [pm] + prog.closures_of(pm):
        ob = Origins(b)
        for bb, t in b.calls():
            if mname(t) == "String::push_str":
                calls = _text_calls(prog, b, ob.operand(t["args"][1]))
                bad = sorted({m for m, _ in calls if m.split("::")[-1] in TEXT_CHANGING})
                n_sites += 1
                if bad:
                    ctx.bad("pretty-text-verbatim", b.loc(bb), "the text written by the pretty renderer passes through %s: differences that consist of trailing whitespace are not shown" % bad)
    ctx.check(n_sites >= 6, "text-sites", r.where(), "%d buffer stores / output writes analysed in the diff and pretty renderers" % n_sites,
              "only %d buffer stores / output writes found (6 confirmed by reading)" % n_sites)


def run(ctx):
    ctx.run_rule("R19.1", "no character count is used as a str byte offset in the renderers (incl. through helper results) [E-UNIT]", r19_1, floor=1)
    ctx.run_rule("R19.2", "exhaustive dispatch: render_error and both DiffLine switches give every variant its own arm [E-TABLE]", r19_2, floor=5)
    ctx.run_rule("R19.3", "completeness: every UnmatchedExpectation and every UnexpectedLines line reaches the output (pretty) / the hunk buffers + final flush (diff) [E-FLOW, E-PATH]", r19_3, floor=9)
    ctx.run_rule("R19.4", "a passing outcome writes nothing; failed outcomes go through render_error [E-PATH]", r19_4, floor=4)
    ctx.run_rule("R19.5", "structured renderers serialise the whole slice; Outcome always writes `result`; TestCaseError kinds distinct [E-TABLE]", r19_5, floor=6)
    ctx.run_rule("R19.7", "pretty gutter: Decorator width is derived from max(count_output_lines, expectations.len()) + base, an upper bound of every printed number (no `width - digits` underflow) [E-FLOW]", r19_7, floor=2)
    ctx.run_rule("R19.8", "no renderer drops an outcome between its argument and its loop (copy / re-order only; no dedup, retain, filter, take ..) [E-SITE]", r19_8, floor=4)
    ctx.run_rule("R19.9", "the shown text is the text: output bytes decoded lossily only (no strict from_utf8 + `?`), no trimming / cutting / re-casing between a DiffLine payload and the hunk buffers / the pretty output [E-FLOW]", r19_9, floor=4)
    ctx.run_rule("R19.6", "index arithmetic in renderers listed (decided by R6.4 / C02)", r19_6, floor=1)
