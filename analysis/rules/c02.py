"""C02 — diff accounts for every output line and every expectation exactly once, terminates, never panics."""
from ..cfgq import bool_edges, cond_tree, stmt_loc, switches
from ..facts import AnchorError, Origins, callee_name, method_name, mname, peel
from . import diffstate
from .c01 import report

TEXT = {
    "R2.1": "payloads: index is E; lines are exactly [(L, LINES[L])], M..L, L..X or L..len; the result list is only pushed to [E-STATE]",
    "R2.2": "progress: every loop iteration strictly advances E or L by +1 or to a peek result; no other cursor writes (termination) [E-STATE]",
    "R2.3": "bounds: EXPS[E] / LINES[L] are evaluated only in states where the cursor is known in bounds (incl. the tail access under an open run) [E-STATE]",
}


def _mk(rule):
    def fn(ctx):
        m, n = report(ctx, {rule})
        ctx.note("%s: %d (block, abstract state) pairs explored" % (rule, m.states))
    return fn


def r2_4(ctx):
    prog = ctx.prog
    f = prog.fn("newline::split_at_newline")
    o = Origins(f)
    start = f.local_by_name("start")
    if len(start) != 1:
        # bind by role: the usize local used as slice start
        raise AnchorError("split_at_newline: `start` role not bound")
    S = start[0]
    pushes = [(bb, t) for bb, t in f.calls() if mname(t) == "Vec::push"]
    ctx.check(len(pushes) == 2, "two-pushes", f.where(), "one push per terminated line and one for an unterminated rest", "found %d pushes" % len(pushes))
    back = f.back_edges()
    loop_blocks = set()
    for b, h in back:
        loop_blocks |= {x for x in f.reachable(h) if b in f.reachable(x)}
    # the newline test
    nl = None
    for sb, st in switches(f):
        be = bool_edges(f, sb)
        if be is None:
            continue
        tree = cond_tree(f, sb, o)
        if tree.kind == "bin" and tree.a in ("Eq", "Ne") and any(k.kind == "const" and k.a.as_int() == 10 for k in tree.kids):
            nl = (sb, be[0] if tree.a == "Eq" else be[1], be[1] if tree.a == "Eq" else be[0])
    if nl is None:
        ctx.bad("newline-test", f.where(), "no `byte == b'\\n'` test in split_at_newline")
        return
    sb, eq_edge, ne_edge = nl
    eq_reg = f.reachable(eq_edge, removed_edges=back) - f.reachable(ne_edge, removed_edges=back)
    for bb, t in pushes:
        arg = peel(o.operand(t["args"][1]))
        rng = [n for n in o.operand(t["args"][1]).walk() if n.kind == "agg" and "Range" in n.a[0] and n.at is not None]
        if not rng:
            ctx.bad("slice-shape", f.loc(bb), "a pushed line is not a sub-slice of the input")
            continue
        st = f.blocks[rng[0].at[0]]["stmts"][rng[0].at[1]]
        ops = st["rv"]["ops"]
        s_ok = f.canon_place(ops[0].get("copy") or ops[0].get("move")) == {"l": S, "p": []}
        if bb in loop_blocks:
            end = o.operand(ops[1])
            e_ok = end.kind == "field" and end.a == "0" and end.kids[0].kind == "bin" and end.kids[0].a in ("AddWithOverflow", "Add") and \
                end.kids[0].kids[1].kind == "const" and end.kids[0].kids[1].a.as_int() == 1 and "Enumerate" in end.kids[0].kids[0].show()
            ctx.check(s_ok and e_ok and rng[0].a[0].endswith("Range::Range") and bb in eq_reg, "in-loop-slice", f.loc(bb),
                      "inside the loop the slice start..=index (terminator kept) is pushed exactly on the `byte == \\n` edge",
                      "the in-loop slice is %s..%s on edge-eq=%s" % (f.place_name(ops[0].get("copy") or ops[0].get("move")), end.show()[:40], bb in eq_reg))
        else:
            ctx.check(s_ok and rng[0].a[0].endswith("RangeFrom::RangeFrom"), "tail-slice", f.loc(bb), "after the loop text[start..] is pushed", "the tail slice does not start at `start`")
            # guard start < len
            g = False
            for sb2, st2 in switches(f):
                be2 = bool_edges(f, sb2)
                if be2 is None:
                    continue
                tree = cond_tree(f, sb2, o)
                if tree.kind == "bin" and tree.a == "Lt" and peel(tree.kids[1]).kind == "call" and method_name(peel(tree.kids[1]).a).endswith("len"):
                    if bb in f.reachable(be2[0]) and bb not in f.reachable(0, removed_edges=[(sb2, be2[0])]):
                        g = True
            ctx.check(g, "tail-guard", f.loc(bb), "the rest is pushed only when start < len (no empty trailing line)")
    # writes to start: 0 and index+1 (after the push, in the newline arm)
    ws = [d for d in f.defs.get(S, []) if d[2] == "assign"]
    kinds = []
    for d in ws:
        n = o.rvalue(d[3])
        if n.kind == "const" and n.a.as_int() == 0:
            kinds.append("0")
        elif n.kind == "field" and n.a == "0" and n.kids[0].kind == "bin" and n.kids[0].kids[1].kind == "const" and n.kids[0].kids[1].a.as_int() == 1 and "Enumerate" in n.kids[0].kids[0].show():
            kinds.append("index+1")
            in_push = [pb for pb, _ in pushes if pb in loop_blocks]
            ctx.check(d[0] in eq_reg and in_push and f.dominates(in_push[0], d[0]), "start-update", f.loc(d[0]), "start becomes index+1 right after the line was pushed (same arm)")
        else:
            kinds.append("other:" + n.show()[:40])
    ctx.check(sorted(kinds) == ["0", "index+1"], "start-writes", f.where(), "start is written only as 0 and index+1: the pushed slices partition the input",
              "start is written as %s" % kinds)
    it = [mname(t) for _, t in f.calls()]
    ctx.check("Iterator::enumerate" in it and "slice::iter" in it and not [m for m in it if m in ("Iterator::skip", "Iterator::take", "Iterator::filter", "Iterator::rev")],
              "all-bytes", f.where(), "all bytes are visited in order")
    r = peel(o.local(0))
    lines = f.local_by_name("lines")
    ctx.check(bool(lines) and f.canon_place({"l": 0, "p": []})["l"] in (0, lines[0]) and all(f.arg_name(t["args"][0]) == "lines" for _, t in pushes), "returns-pushed", f.where(),
              "the returned Vec is the one the slices were pushed to")


def r2_5(ctx):
    """accounting (same simulation as C01): every consumed line / passed expectation was recorded"""
    m = diffstate.analyse(ctx.prog)
    for (rule, key), v in sorted(m.obl.items()):
        if rule in ("R1.1", "R1.2", "R1.3", "R1.5") or (rule == "R1.4" and key.startswith("matched-range-nonempty")):
            k = "%s:%s" % (rule, key)
            if v["ok"]:
                ctx.ok(k, v["where"], v["what"])
            else:
                ctx.bad(k, v["where"], v["what"])


def run(ctx):
    ctx.run_rule("R2.5", "accounting: a cursor moves only past lines / expectations that were recorded (or optional expectations); function exit reports the rest - "
                 "every line and every non-optional expectation is mentioned [E-STATE, obligations shared with C01]", r2_5, floor=15)
    for rule in ("R2.1", "R2.2", "R2.3"):
        ctx.run_rule(rule, TEXT[rule], _mk(rule), floor={"R2.1": 9, "R2.2": 1, "R2.3": 3}[rule])
    ctx.run_rule("R2.4", "split_at_newline: pushed slices start at `start`, end at index+1 on the newline edge, start := index+1, rest pushed iff start < len (partition, terminators kept) [E-STATE shape]", r2_4, floor=7)
