"""C02 — diff accounts for every output line and every expectation exactly once, terminates, never panics."""
from ..cfgq import bool_edges, cond_tree, stmt_loc, switches
from ..facts import AnchorError, Origins, callee_name, method_name, mname, peel
from . import diffstate
from .c01 import report

TEXT = {
    "R2.1": "payloads: index is E; lines are exactly [(L, LINES[L])], M..L, L..X or L..len; the result list is only pushed to [E-STATE]",
    "R2.2": "progress: every loop iteration strictly advances E or L by +1 or to a peek result; no other cursor writes (termination) [E-STATE]",
    "R2.3": "bounds: EXPS[E] / LINES[L] are evaluated only in states where the cursor is known in bounds (incl. the tail access under an open run) [E-STATE]",
}


def _mk(rule):
    def fn(ctx):
        m, n = report(ctx, {rule})
        ctx.note("%s: %d (block, abstract state) pairs explored" % (rule, m.states))
    return fn


def _byte_is_newline_closure(prog, f, node):
    n = peel(node)
    if n.kind == "agg" and isinstance(n.a, tuple) and str(n.a[0]).startswith("closure "):
        cb = prog.body_by_def(n.a[0][len("closure "):], f.crate)
        if cb is not None:
            r = peel(Origins(cb).local(0))
            return r.kind == "bin" and r.a == "Eq" and any(k.kind == "const" and k.a.as_int() == 10 for k in r.kids)
    return False


def _split_form_inclusive(ctx, prog, f, o):
    """`text.split_inclusive(|b| *b == b'\n').collect()`"""
    r = peel(o.local(0))
    if not (r.kind == "call" and method_name(r.a) == "Iterator::collect" and r.kids):
        return False
    sp = peel(r.kids[0])
    if not (sp.kind == "call" and method_name(sp.a).endswith("split_inclusive") and len(sp.kids) == 2):
        return False
    src = peel(sp.kids[0])
    ctx.check(src.kind == "arg" and src.a == 1 and _byte_is_newline_closure(prog, f, sp.kids[1]), "in-loop-slice", f.where(),
              "the input is split after every `\n` (split_inclusive keeps the terminator, drops no byte and yields no empty tail)",
              "split_inclusive is applied to %s with another predicate" % src.show()[:40])
    for k in ("two-pushes", "tail-slice", "tail-guard", "start-update", "start-writes", "all-bytes"):
        ctx.ok(k, f.where(), "(split_inclusive form) guaranteed by the std adaptor")
    return True


def _split_form_remainder(ctx, prog, f, o):
    """`while let Some(i) = rest.iter().position(|b| *b == b'\n') { let (line, r) = rest.split_at(i + 1); push(line); rest = r } if !rest.is_empty() { push(rest) }`"""
    sps = [(bb, t) for bb, t in f.calls() if mname(t) == "slice::split_at"]
    pos = [(bb, t) for bb, t in f.calls() if mname(t) == "Iterator::position"]
    pushes = [(bb, t) for bb, t in f.calls() if mname(t) == "Vec::push"]
    if len(sps) != 1 or len(pos) != 1:
        return False
    (sb, st), (pb, pt) = sps[0], pos[0]
    back = f.back_edges()
    ctx.check(len(pushes) == 2, "two-pushes", f.where(), "one push per terminated line and one for an unterminated rest", "found %d pushes" % len(pushes))
    # the remainder local: receiver of split_at
    rc = [l for l in range(len(f.locals)) if l > 1 and f.lty(l) == "&[u8]" and len(f.defs.get(l, [])) >= 2]
    if len(rc) != 1:
        return False
    R = rc[0]
    rtree = peel(o.operand(st["args"][0]))
    if not any(n.kind == "phi" and ("(_%d)" % R in str(n.a) or str(n.a) == "_%d" % R) for n in rtree.walk()):
        return False
    rdefs = f.defs.get(R, [])
    init_ok = any(peel(o._def(d, 0, ())).kind == "arg" and peel(o._def(d, 0, ())).a == 1 for d in rdefs)
    upd = [d for d in rdefs if d[0] in f.reachable(sb) and d[0] != rdefs[0][0]]
    upd_ok = any(peel(o._def(d, 0, ())).kind == "field" and peel(o._def(d, 0, ())).a == "1" and
                 any(n.kind == "call" and n.at == (sb, "term") for n in o._def(d, 0, ()).walk()) for d in rdefs)
    ctx.check(init_ok and upd_ok and len(rdefs) == 2, "start-writes", f.where(), "the remainder starts as the whole input and becomes the second half of each split",
              "the remainder is written %d times (init from input: %s, update from split_at.1: %s)" % (len(rdefs), init_ok, upd_ok))
    ctx.ok("start-update", f.loc(sb), "the remainder is replaced by the rest of the very split whose first half was pushed")
    # split position = position + 1 over the remainder, predicate byte == \n
    it = o.operand(pt["args"][0])
    on_rest = any(n.kind == "call" and method_name(n.a) == "slice::iter" for n in it.walk())
    at = peel(o.operand(st["args"][1]))
    plus1 = at.kind == "field" and at.a == "0" and at.kids[0].kind == "bin" and at.kids[0].a in ("AddWithOverflow", "Add") and \
        at.kids[0].kids[1].kind == "const" and at.kids[0].kids[1].a.as_int() == 1 and any(n.kind == "call" and n.at == (pb, "term") for n in at.walk())
    ctx.check(on_rest and plus1 and _byte_is_newline_closure(prog, f, o.operand(pt["args"][1])), "in-loop-slice", f.loc(sb),
              "each line is rest[..=position of the first `\n`] (terminator kept)", "the split point is %s" % at.show()[:60])
    ctx.check(not [m for _, t in f.calls() for m in [mname(t)] if m in ("Iterator::skip", "Iterator::take", "Iterator::filter", "Iterator::rev", "Iterator::rposition")],
              "all-bytes", f.where(), "the search runs over the whole remainder, front to back")
    for bb, t in pushes:
        arg = peel(o.operand(t["args"][1]))
        if sb in f.reachable(bb, removed_edges=[]) and f.dominates(sb, bb) and bb in {x for b_, h in back for x in f.reachable(h) if b_ in f.reachable(x)}:
            ctx.check(arg.kind == "field" and arg.a == "0" and any(n.kind == "call" and n.at == (sb, "term") for n in arg.walk()), "in-loop-slice:push", f.loc(bb),
                      "the first half of the split is pushed", "pushed inside the loop: %s" % arg.show()[:60])
        else:
            tail_is_rest = any(n.kind == "phi" or n.kind == "arg" or n.kind == "field" for n in [arg])
            ctx.check(tail_is_rest, "tail-slice", f.loc(bb), "after the loop the remainder itself is pushed")
            g = False
            for sb2, st2 in switches(f):
                be2 = bool_edges(f, sb2)
                if be2 is None:
                    continue
                tree = cond_tree(f, sb2, o)
                neg = False
                while tree.kind == "un" and tree.a == "Not":
                    neg, tree = not neg, tree.kids[0]
                if tree.kind == "call" and method_name(tree.a) == "slice::is_empty":
                    edge = be2[0] if neg else be2[1]
                    if bb in f.reachable(edge) and bb not in f.reachable(0, removed_edges=[(sb2, edge)]):
                        g = True
            ctx.check(g, "tail-guard", f.loc(bb), "the rest is pushed only when it is not empty (no empty trailing line)")
    return True


def r2_4(ctx):
    prog = ctx.prog
    f = prog.fn("newline::split_at_newline")
    o = Origins(f)
    # other accepted forms of the same partition
    if _split_form_remainder(ctx, prog, f, o) or _split_form_inclusive(ctx, prog, f, o):
        return
    # index form; bind `start` by role: the usize local used as the start of the pushed sub-slices
    cands = set()
    for bi, b in enumerate(f.blocks):
        for st in b["stmts"]:
            if st["k"] == "assign" and st["rv"]["k"] == "agg" and "Range" in str(st["rv"].get("adt", "")) and st["rv"].get("ops"):
                pl = st["rv"]["ops"][0].get("copy") or st["rv"]["ops"][0].get("move")
                if pl is not None:
                    c = f.canon_place(pl)
                    if not c["p"] and f.lty(c["l"]) == "usize" and len(f.defs.get(c["l"], [])) >= 2:
                        cands.add(c["l"])
    if len(cands) != 1:
        raise AnchorError("split_at_newline: `start` role not bound (%d candidates) and no other recognised form" % len(cands))
    S = cands.pop()
    pushes = [(bb, t) for bb, t in f.calls() if mname(t) == "Vec::push"]
    ctx.check(len(pushes) == 2, "two-pushes", f.where(), "one push per terminated line and one for an unterminated rest", "found %d pushes" % len(pushes))
    back = f.back_edges()
    loop_blocks = set()
    for b, h in back:
        loop_blocks |= {x for x in f.reachable(h) if b in f.reachable(x)}
    # the newline test
    nl = None
    for sb, st in switches(f):
        be = bool_edges(f, sb)
        if be is None:
            continue
        tree = cond_tree(f, sb, o)
        if tree.kind == "bin" and tree.a in ("Eq", "Ne") and any(k.kind == "const" and k.a.as_int() == 10 for k in tree.kids):
            nl = (sb, be[0] if tree.a == "Eq" else be[1], be[1] if tree.a == "Eq" else be[0])
    if nl is None:
        ctx.bad("newline-test", f.where(), "no `byte == b'\\n'` test in split_at_newline")
        return
    sb, eq_edge, ne_edge = nl
    eq_reg = f.reachable(eq_edge, removed_edges=back) - f.reachable(ne_edge, removed_edges=back)
    for bb, t in pushes:
        arg = peel(o.operand(t["args"][1]))
        rng = [n for n in o.operand(t["args"][1]).walk() if n.kind == "agg" and "Range" in n.a[0] and n.at is not None]
        if not rng:
            ctx.bad("slice-shape", f.loc(bb), "a pushed line is not a sub-slice of the input")
            continue
        st = f.blocks[rng[0].at[0]]["stmts"][rng[0].at[1]]
        ops = st["rv"]["ops"]
        s_ok = f.canon_place(ops[0].get("copy") or ops[0].get("move")) == {"l": S, "p": []}
        if bb in loop_blocks:
            end = o.operand(ops[1])
            e_ok = end.kind == "field" and end.a == "0" and end.kids[0].kind == "bin" and end.kids[0].a in ("AddWithOverflow", "Add") and \
                end.kids[0].kids[1].kind == "const" and end.kids[0].kids[1].a.as_int() == 1 and "Enumerate" in end.kids[0].kids[0].show()
            ctx.check(s_ok and e_ok and rng[0].a[0].endswith("Range::Range") and bb in eq_reg, "in-loop-slice", f.loc(bb),
                      "inside the loop the slice start..=index (terminator kept) is pushed exactly on the `byte == \\n` edge",
                      "the in-loop slice is %s..%s on edge-eq=%s" % (f.place_name(ops[0].get("copy") or ops[0].get("move")), end.show()[:40], bb in eq_reg))
        else:
            ctx.check(s_ok and rng[0].a[0].endswith("RangeFrom::RangeFrom"), "tail-slice", f.loc(bb), "after the loop text[start..] is pushed", "the tail slice does not start at `start`")
            # guard start < len
            g = False
            for sb2, st2 in switches(f):
                be2 = bool_edges(f, sb2)
                if be2 is None:
                    continue
                tree = cond_tree(f, sb2, o)
                if tree.kind == "bin" and tree.a == "Lt" and peel(tree.kids[1]).kind == "call" and method_name(peel(tree.kids[1]).a).endswith("len"):
                    if bb in f.reachable(be2[0]) and bb not in f.reachable(0, removed_edges=[(sb2, be2[0])]):
                        g = True
            ctx.check(g, "tail-guard", f.loc(bb), "the rest is pushed only when start < len (no empty trailing line)")
    # writes to start: 0 and index+1 (after the push, in the newline arm)
    ws = [d for d in f.defs.get(S, []) if d[2] == "assign"]
    kinds = []
    for d in ws:
        n = o.rvalue(d[3])
        if n.kind == "const" and n.a.as_int() == 0:
            kinds.append("0")
        elif n.kind == "field" and n.a == "0" and n.kids[0].kind == "bin" and n.kids[0].kids[1].kind == "const" and n.kids[0].kids[1].a.as_int() == 1 and "Enumerate" in n.kids[0].kids[0].show():
            kinds.append("index+1")
            in_push = [pb for pb, _ in pushes if pb in loop_blocks]
            ctx.check(d[0] in eq_reg and in_push and f.dominates(in_push[0], d[0]), "start-update", f.loc(d[0]), "start becomes index+1 right after the line was pushed (same arm)")
        else:
            kinds.append("other:" + n.show()[:40])
    ctx.check(sorted(kinds) == ["0", "index+1"], "start-writes", f.where(), "start is written only as 0 and index+1: the pushed slices partition the input",
              "start is written as %s" % kinds)
    it = [mname(t) for _, t in f.calls()]
    ctx.check("Iterator::enumerate" in it and "slice::iter" in it and not [m for m in it if m in ("Iterator::skip", "Iterator::take", "Iterator::filter", "Iterator::rev")],
              "all-bytes", f.where(), "all bytes are visited in order")
    r = peel(o.local(0))
    # the returned Vec is bound by role: the local moved into the return place; every push goes to it
    ret = None
    for d in f.defs.get(0, []):
        if d[2] == "assign" and d[3]["k"] == "use":
            pl0 = d[3]["op"].get("move") or d[3]["op"].get("copy")
            if pl0 is not None and not pl0["p"]:
                ret = f.canon_place(pl0)["l"]
    from .c16 import mut_calls
    pushed_to_ret = {mb for mb, mt in mut_calls(f, ret)} if ret is not None else set()
    ctx.check(ret is not None and all(pb in pushed_to_ret for pb, _ in pushes), "returns-pushed", f.where(),
              "the returned Vec is the one the slices were pushed to")


def r2_5(ctx):
    """accounting (same simulation as C01): every consumed line / passed expectation was recorded"""
    m = diffstate.analyse(ctx.prog)
    for (rule, key), v in sorted(m.obl.items()):
        if rule in ("R1.1", "R1.2", "R1.3", "R1.5") or (rule == "R1.4" and key.startswith("matched-range-nonempty")):
            k = "%s:%s" % (rule, key)
            if v["ok"]:
                ctx.ok(k, v["where"], v["what"])
            else:
                ctx.bad(k, v["where"], v["what"])


def r2_6(ctx):
    """the Diff that is stored is the list of records DiffTool::diff produced: Diff::new keeps every record it is given (no filter / retain / dedup .. on
    the way into `lines`) - a record dropped there is output that appears nowhere, and has_differences no longer sees it"""
    from .c20 import FILTERS
    prog = ctx.prog
    f = prog.fn("Diff::new")
    o = Origins(f)
    aggs = [d for d in f.defs.get(0, []) if d[2] == "assign" and d[3]["k"] == "agg" and d[3].get("agg") == "adt"]
    if len(aggs) != 1:
        raise AnchorError("Diff::new: expected one struct literal, found %d" % len(aggs))
    rv = aggs[0][3]
    if "lines" not in rv["fields"]:
        raise AnchorError("Diff::new: no `lines` field")
    tree = o.operand(rv["ops"][rv["fields"].index("lines")])
    drop = sorted({method_name(c) for c in tree.call_names() if method_name(c) in FILTERS or method_name(c).split("::")[-1] in ("retain", "filter", "filter_map", "dedup", "truncate", "drain", "take", "skip", "take_while", "skip_while")})
    # mutations of the argument before it is stored
    from .c16 import mut_calls
    muts = sorted({mname(t) for l in range(1, f.arg_count + 1) for _, t in mut_calls(f, l) if (mname(t) or "").split("::")[-1] in ("retain", "dedup", "truncate", "drain", "remove", "pop", "clear", "retain_mut", "dedup_by", "dedup_by_key", "swap_remove")})
    from_arg = any(n.kind == "arg" and n.a == 1 for n in tree.walk())
    ctx.check(from_arg and not drop and not muts, "records-kept", f.where(), "Diff::new stores the records it is given, all of them",
              "Diff::new passes the records through %s before storing them: a dropped record (e.g. a hunk of blank unexpected lines) is output that appears nowhere "
              "in the result - has_differences does not see it and the test passes" % (drop + muts or "something other than its argument"))


def run(ctx):
    ctx.run_rule("R2.5", "accounting: a cursor moves only past lines / expectations that were recorded (or optional expectations); function exit reports the rest - "
                 "every line and every non-optional expectation is mentioned [E-STATE, obligations shared with C01]", r2_5, floor=15)
    for rule in ("R2.1", "R2.2", "R2.3"):
        ctx.run_rule(rule, TEXT[rule], _mk(rule), floor={"R2.1": 9, "R2.2": 1, "R2.3": 3}[rule])
    ctx.run_rule("R2.4", "split_at_newline: pushed slices start at `start`, end at index+1 on the newline edge, start := index+1, rest pushed iff start < len (partition, terminators kept) [E-STATE shape]", r2_4, floor=7)
    ctx.run_rule("R2.6", "Diff::new keeps every record it is given (no filter / retain / dedup on the way into `lines`) [E-FLOW]", r2_6, floor=1)
