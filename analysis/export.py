"""Runs the mirfacts driver over a source tree (default /repo) and returns the directory with the
fact files. Facts are a pure function of the inputs hashed below; a cache hit skips the compiler.
Nothing is written inside the analysed tree (CARGO_TARGET_DIR is under /verif/.cache)."""
import fcntl
import hashlib
import os
import shutil
import subprocess
import sys
import time

VERIF = os.path.dirname(os.path.dirname(os.path.abspath(__file__)))
CACHE = os.path.join(VERIF, ".cache")
DRIVER_DIR = os.path.join(VERIF, "driver")
DRIVER = os.path.join(DRIVER_DIR, "target", "debug", "mirfacts")


def _sh(cmd, **kw):
    return subprocess.run(cmd, stdout=subprocess.PIPE, stderr=subprocess.STDOUT, text=True, **kw)


def sysroot():
    r = _sh(["rustc", "+nightly", "--print", "sysroot"])
    if r.returncode != 0:
        raise RuntimeError("nightly toolchain not available: " + r.stdout)
    return r.stdout.strip()


def build_driver():
    """(re)build the driver when its sources are newer than the binary"""
    src = [os.path.join(DRIVER_DIR, "src", "main.rs"), os.path.join(DRIVER_DIR, "Cargo.toml")]
    if os.path.exists(DRIVER) and all(os.path.getmtime(DRIVER) >= os.path.getmtime(s) for s in src):
        return
    env = dict(os.environ, CARGO_NET_OFFLINE="true")
    env.pop("RUSTC_WORKSPACE_WRAPPER", None)
    env.pop("RUSTFLAGS", None)
    env.pop("CARGO_TARGET_DIR", None)
    r = _sh(["cargo", "+nightly", "build", "--offline"], cwd=DRIVER_DIR, env=env)
    if r.returncode != 0 or not os.path.exists(DRIVER):
        raise RuntimeError("building the mirfacts driver failed:\n" + r.stdout[-4000:])


def tree_hash(root, extra=()):
    h = hashlib.sha256()
    files = []
    for rel in ("Cargo.toml", "Cargo.lock", "build.rs"):
        p = os.path.join(root, rel)
        if os.path.exists(p):
            files.append(p)
    for base, dirs, fs in os.walk(os.path.join(root, "src")):
        dirs.sort()
        for f in sorted(fs):
            files.append(os.path.join(base, f))
    for p in files:
        h.update(os.path.relpath(p, root).encode())
        h.update(b"\0")
        with open(p, "rb") as fh:
            h.update(fh.read())
        h.update(b"\0")
    with open(DRIVER, "rb") as fh:
        h.update(hashlib.sha256(fh.read()).digest())
    r = _sh(["rustc", "+nightly", "-vV"])
    h.update(r.stdout.encode())
    # (the location of the tree is not part of the key: the exported facts carry crate-relative paths only, so a scratch copy with the same
    #  content - the same stored patch applied for another property's self-test - shares the facts)
    for e in extra:
        h.update(str(e).encode())
    return h.hexdigest()[:24]


class Lock:
    def __init__(self, name):
        os.makedirs(CACHE, exist_ok=True)
        self.path = os.path.join(CACHE, name)

    def __enter__(self):
        self.fh = open(self.path, "w")
        fcntl.flock(self.fh, fcntl.LOCK_EX)
        return self

    def __exit__(self, *a):
        fcntl.flock(self.fh, fcntl.LOCK_UN)
        self.fh.close()


def _prune(facts_root, keep=int(os.environ.get("VERIF_FACTS_KEEP", "250"))):
    try:
        ds = [os.path.join(facts_root, d) for d in os.listdir(facts_root)]
        ds = [d for d in ds if os.path.isdir(d)]
        ds.sort(key=os.path.getmtime, reverse=True)
        for d in ds[keep:]:
            shutil.rmtree(d, ignore_errors=True)
    except OSError:
        pass


def export(root="/repo", expect=("scrut-lib.json", "scrut-bin.json"), force=False, cargo_args=("--lib", "--bins"), log=None):
    """returns (facts_dir, info) ; info has keys hash, cached, wall_s"""
    t0 = time.time()
    with Lock("export.lock"):
        build_driver()
        h = tree_hash(root, cargo_args)
        facts_root = os.path.join(CACHE, "facts")
        out = os.path.join(facts_root, h)
        stamp = os.path.join(out, "STAMP")
        if not force and os.path.exists(stamp) and open(stamp).read() == h and all(os.path.exists(os.path.join(out, e)) for e in expect):
            os.utime(out)
            return out, {"hash": h, "cached": True, "wall_s": time.time() - t0}
        shutil.rmtree(out, ignore_errors=True)
        os.makedirs(out)
        target = os.path.join(CACHE, "target")
        # cargo's freshness cache would skip the wrapper: drop the fingerprints of the analysed
        # package (never those of the dependencies)
        fp = os.path.join(target, "debug", ".fingerprint")
        if os.path.isdir(fp):
            for d in os.listdir(fp):
                if d.startswith("scrut-") or d.startswith("verif_positive-") or d.startswith("verif-positive-"):
                    shutil.rmtree(os.path.join(fp, d), ignore_errors=True)
        env = dict(os.environ)
        env.update({
            "LD_LIBRARY_PATH": os.path.join(sysroot(), "lib") + (":" + env["LD_LIBRARY_PATH"] if env.get("LD_LIBRARY_PATH") else ""),
            "RUSTFLAGS": "-Zmir-opt-level=0 -Awarnings",
            "RUSTC_WORKSPACE_WRAPPER": DRIVER,
            "MIRFACTS_OUT": out,
            "CARGO_TARGET_DIR": target,
            "CARGO_NET_OFFLINE": "true",
            "CARGO_INCREMENTAL": "0",
        })
        cmd = ["cargo", "+nightly", "check", "--offline", "--locked"] + list(cargo_args)
        r = _sh(cmd, cwd=root, env=env)
        if log:
            log(r.stdout[-3000:])
        missing = [e for e in expect if not os.path.exists(os.path.join(out, e))]
        if r.returncode != 0 or missing:
            shutil.rmtree(out, ignore_errors=True)
            raise RuntimeError("fact export failed (exit %d, missing %s):\n%s" % (r.returncode, missing, r.stdout[-6000:]))
        with open(stamp, "w") as fh:
            fh.write(h)
        _prune(facts_root)
        return out, {"hash": h, "cached": False, "wall_s": time.time() - t0}


if __name__ == "__main__":
    root = sys.argv[1] if len(sys.argv) > 1 else "/repo"
    if "--positive" in sys.argv:
        d, info = export(root, expect=("verif_positive-lib.json",), cargo_args=("--lib",))
    else:
        d, info = export(root, force="--force" in sys.argv)
    print(d, info)
