"""Finite case analysis over a function's CFG (E-TABLE support).

`cases(body, valmap, call_oracle)` follows the CFG deciding every `switchInt` whose operand can be
computed from (a) places given a concrete integer by `valmap`, (b) constants, (c) comparison /
boolean operators over those, (d) results of calls the `call_oracle` answers for. Undecidable
switches fork. This is how small finite tables (quantifier <-> flags, capture-count cases) are
*extracted from the current MIR*; scrut itself is never run.

`PathOrigins` is `Origins` restricted to one such path: a local with several definitions resolves
to the definition that is last on the path (no phi nodes)."""
from .facts import Node, Origins


def const_int(op):
    if "const" in op:
        v = op["const"].get("val")
        if v and v.get("kind") == "int":
            return int(v["bits"])
    return None


CMP = {"Le": lambda a, c: a <= c, "Lt": lambda a, c: a < c, "Ge": lambda a, c: a >= c, "Gt": lambda a, c: a > c,
       "Eq": lambda a, c: a == c, "Ne": lambda a, c: a != c, "BitAnd": lambda a, c: a & c, "BitOr": lambda a, c: a | c,
       "BitXor": lambda a, c: a ^ c}


def cases(body, valmap, call_oracle=None, start=0, limit=20000, max_visits=3):
    """-> list of {'path': [...], 'forks': [(bb, target)], 'end': 'return'|'end'|'loop', 'known': {...}}"""
    results = []
    stack = [(start, {}, [], [])]
    steps = 0
    while stack:
        b, known, path, forks = stack.pop()
        known = dict(known)
        path = list(path)
        forks = list(forks)
        while True:
            steps += 1
            if steps > limit:
                raise RuntimeError("cases: step limit exceeded in %s" % body.npath)
            if path.count(b) >= max_visits:
                results.append({"path": path, "forks": forks, "end": "loop", "known": known})
                break
            path.append(b)
            blk = body.blocks[b]

            def val(op):
                c = const_int(op)
                if c is not None:
                    return c
                pl = op.get("copy") or op.get("move")
                if pl is None:
                    return None
                v = valmap(pl)
                if v is not None:
                    return v
                if not pl["p"] and pl["l"] in known:
                    return known[pl["l"]]
                # component of a tuple built on this path: `match (a, b) { .. }`
                if len(pl["p"]) == 1 and isinstance(pl["p"][0], dict) and "n" in pl["p"][0] and (pl["l"], pl["p"][0]["n"]) in known:
                    return known[(pl["l"], pl["p"][0]["n"])]
                # payload of an enum value built on this path: `(x as Some).0` after `x = Some(const)`
                if len(pl["p"]) == 2 and isinstance(pl["p"][0], dict) and "dc" in pl["p"][0] and isinstance(pl["p"][1], dict) and "n" in pl["p"][1] \
                        and known.get(("v", pl["l"])) == pl["p"][0]["dc"] and (pl["l"], pl["p"][1]["n"]) in known:
                    return known[(pl["l"], pl["p"][1]["n"])]
                return None

            def sval(op):
                """string constants are carried as ('str', text) so that oracles can decide `s.is_empty()` etc."""
                if "const" in op:
                    from .facts import ConstVal
                    try:
                        t_ = ConstVal(op["const"]).as_str()
                    except Exception:
                        t_ = None
                    if t_ is not None:
                        return ("str", t_)
                return None
            for st in blk["stmts"]:
                if st["k"] != "assign" or st["lhs"]["p"]:
                    continue
                rv = st["rv"]
                l = st["lhs"]["l"]
                known.pop(l, None)
                for k_ in [k_ for k_ in known if isinstance(k_, tuple) and k_[0] == l]:
                    del known[k_]
                v = None
                known.pop(("v", l), None)
                if rv["k"] == "use":
                    v = val(rv["op"])
                    if v is None:
                        v = sval(rv["op"])
                    src_ = rv["op"].get("copy") or rv["op"].get("move")
                    if src_ is not None and not src_["p"] and ("v", src_["l"]) in known:
                        known[("v", l)] = known[("v", src_["l"])]
                        for k_ in [k_ for k_ in list(known) if isinstance(k_, tuple) and k_[0] == src_["l"] and k_[0] != "v"]:
                            known[(l, k_[1])] = known[k_]
                elif rv["k"] == "agg" and rv.get("agg") == "adt" and rv.get("variant"):
                    # an enum value built on this path carries its variant (`Ok(..)` returned by an inlined helper, then `?`) and its known payload
                    known[("v", l)] = rv["variant"].split("::")[-1]
                    for fn_, op_ in zip(rv.get("fields") or [], rv.get("ops") or []):
                        cv = val(op_)
                        if cv is not None:
                            known[(l, str(fn_))] = cv
                elif rv["k"] == "discr" and not rv["place"]["p"] and ("v", rv["place"]["l"]) in known:
                    name_ = known[("v", rv["place"]["l"])]
                    for idx_, vn_ in rv.get("variants", []):
                        if vn_ == name_:
                            v = int(idx_)
                elif rv["k"] == "ref" and rv["place"]["p"] == ["*"] and isinstance(known.get(rv["place"]["l"]), tuple) and known[rv["place"]["l"]][0] == "str":
                    v = known[rv["place"]["l"]]  # reborrow of a &'static str constant
                elif rv["k"] == "agg" and rv.get("agg") == "tuple":
                    for i_, op_ in enumerate(rv["ops"]):
                        cv = val(op_)
                        if cv is None:
                            cv = sval(op_)
                        if cv is not None:
                            known[(l, str(i_))] = cv
                elif rv["k"] == "cast" and rv["cast"].startswith("IntToInt"):
                    v = val(rv["op"])
                elif rv["k"] == "bin" and rv["op"] in CMP:
                    a, c = val(rv["a"]), val(rv["b"])
                    if a is not None and c is not None:
                        v = int(CMP[rv["op"]](a, c))
                elif rv["k"] == "un" and rv["op"] == "Not":
                    a = val(rv["a"])
                    if a is not None:
                        v = int(not a)
                if v is not None:
                    known[l] = v
            t = blk["term"]
            if t["k"] == "return":
                results.append({"path": path, "forks": forks, "end": "return", "known": known})
                break
            if t["k"] == "switch":
                v = val(t["discr"])
                if v is None:
                    outs = [(int(sv), tg) for sv, tg in t["targets"]] + [(None, t["otherwise"])]
                    for sv, tg in outs[1:]:
                        stack.append((tg, dict(known), list(path), forks + [(b, tg)]))
                    forks.append((b, outs[0][1]))
                    b = outs[0][1]
                    continue
                nxt = None
                for sv, tg in t["targets"]:
                    if int(sv) == v:
                        nxt = tg
                b = nxt if nxt is not None else t["otherwise"]
                continue
            s = body.succ(b)
            if len(s) != 1:
                results.append({"path": path, "forks": forks, "end": "end", "known": known})
                break
            if t["k"] == "call" and not t["dest"]["p"]:
                known.pop(t["dest"]["l"], None)
                known.pop(("v", t["dest"]["l"]), None)
                from .facts import mname as _mn
                mm_ = _mn(t)
                if mm_ == "Try::branch" and t["args"]:
                    a0_ = t["args"][0].get("move") or t["args"][0].get("copy")
                    if a0_ is not None and not a0_["p"] and ("v", a0_["l"]) in known:
                        cv_ = {"Ok": "Continue", "Some": "Continue", "Err": "Break", "None": "Break"}.get(known[("v", a0_["l"])])
                        if cv_:
                            known[("v", t["dest"]["l"])] = cv_
                elif mm_ == "FromResidual::from_residual":
                    dty_ = body.lty(t["dest"]["l"])
                    known[("v", t["dest"]["l"])] = "Err" if "Result<" in dty_ else "None"
                if call_oracle is not None:
                    r = call_oracle(t, val)
                    if r is not None:
                        known[t["dest"]["l"]] = int(r)
            b = s[0]
    return results


class PathOrigins(Origins):
    """origin trees along one CFG path: multi-definition locals resolve to their last definition
    on the path"""

    def __init__(self, body, path):
        super().__init__(body)
        self.path = list(path)
        self.pos = {}
        for i, b in enumerate(self.path):
            self.pos[b] = i  # last occurrence wins

    def local(self, l, depth=0, stack=()):
        b = self.b
        ds = b.defs.get(l, [])
        whole = [d for d in ds if d[2] != "partial" and d[0] in self.pos]
        if 1 <= l <= b.arg_count and not whole:
            return Node("arg", l)
        if l in self._cache:
            return self._cache[l]
        if l in self._busy or depth > self.max_depth:
            return Node("local", b.lname(l))
        if not whole:
            return Node("local", b.lname(l))
        d = max(whole, key=lambda d: (self.pos[d[0]], d[1] if isinstance(d[1], int) else 10 ** 6))
        self._busy.add(l)
        try:
            n = self._def(d, depth + 1, stack)
        finally:
            self._busy.discard(l)
        self._cache[l] = n
        return n
