"""Checker self-test (thorough tier): every stored variant of /repo with one rule instance broken
must make the property's rules fire, every behaviour-preserving variant must leave them silent.
Variants are applied to a scratch copy outside /repo and /verif which is removed immediately. A missed mutant is recorded as a weakness of the checker in the evidence; it never
produces a VIOLATION line (the property did not fail on /repo)."""
import glob
import importlib
import os
import shutil
import subprocess
import tempfile
import time

from . import engine, export
from .facts import Program

VERIF = os.path.dirname(os.path.dirname(os.path.abspath(__file__)))


def scratch_copy(repo):
    d = tempfile.mkdtemp(prefix="scrut-verif-scratch-", dir=os.environ.get("VERIF_SCRATCH", "/tmp"))
    for rel in ("Cargo.toml", "Cargo.lock", "build.rs", "README.md"):
        p = os.path.join(repo, rel)
        if os.path.exists(p):
            shutil.copy2(p, os.path.join(d, rel))
    shutil.copytree(os.path.join(repo, "src"), os.path.join(d, "src"))
    docs = os.path.join(repo, "website", "docs")
    if os.path.isdir(docs):
        shutil.copytree(docs, os.path.join(d, "website", "docs"))
    return d


def apply_patch(root, patch):
    r = subprocess.run(["git", "apply", "--unsafe-paths", "--directory=" + root, patch], cwd="/", stdout=subprocess.PIPE, stderr=subprocess.STDOUT, text=True)
    if r.returncode != 0:
        r = subprocess.run(["patch", "-p1", "-s", "-d", root, "-i", patch], stdout=subprocess.PIPE, stderr=subprocess.STDOUT, text=True)
    return r.returncode == 0, r.stdout[-500:]


def run_rules(prop, root, ctrl):
    fdir, info = export.export(root, force=False)
    prog = Program([os.path.join(fdir, "scrut-lib.json"), os.path.join(fdir, "scrut-bin.json")])
    from . import cfgq
    cfgq.set_program(prog)
    ctx = engine.Ctx(prop, prog, root, ctrl, "thorough")
    mod = importlib.import_module("analysis.rules.%s" % prop.lower())
    mod.run(ctx)
    known, _ = engine.load_known()
    viol = [i for i in ctx.insts if i.verdict == "violation" and i.full_key() not in known]
    return viol, fdir


def _touched(patch):
    try:
        return {l[6:].strip() for l in open(patch, encoding="utf-8", errors="replace") if l.startswith("+++ b/")}
    except OSError:
        return set()


def run(prop, repo, only=None, relevant_files=None, budget=None):
    t0 = time.time()
    cdir, _ = export.export(os.path.join(VERIF, "fixtures", "positive"), expect=("verif_positive-lib.json",), cargo_args=("--lib",))
    ctrl = Program([os.path.join(cdir, "verif_positive-lib.json")])
    muts = sorted(glob.glob(os.path.join(VERIF, "selftest", "mutants", "%s-*.patch" % prop))) + \
        sorted(glob.glob(os.path.join(VERIF, "seeded", "*", "patch.diff")))
    benign = sorted(glob.glob(os.path.join(VERIF, "selftest", "benign", "*.patch")))
    if relevant_files:
        benign.sort(key=lambda p_: (0 if _touched(p_) & set(relevant_files) else 1, p_))
    out = []
    skipped_for_budget = []
    for kind, patches in (("mutant", muts), ("benign", benign)):
        for p in patches:
            if kind == "mutant" and "/seeded/" in p:
                meta = os.path.join(os.path.dirname(p), "meta.json")
                try:
                    import json
                    if prop not in json.load(open(meta)).get("properties", []):
                        continue
                except Exception:
                    continue
            if only and only not in p:
                continue
            name = os.path.relpath(p, VERIF)
            if budget and kind == "benign" and time.time() - t0 > budget:
                skipped_for_budget.append(name)
                continue
            root = scratch_copy(repo)
            fdir = None
            try:
                ok, msg = apply_patch(root, p)
                if not ok:
                    out.append({"patch": name, "kind": kind, "applied": False, "detail": msg})
                    continue
                try:
                    viol, fdir = run_rules(prop, root, ctrl)
                    out.append({"patch": name, "kind": kind, "applied": True, "fired": bool(viol),
                                "rules": sorted({"%s %s" % (v.rule, v.key) for v in viol})[:12]})
                except Exception as e:  # noqa
                    out.append({"patch": name, "kind": kind, "applied": True, "fired": None, "detail": "analysis failed: %s" % str(e)[-300:]})
            finally:
                # the scratch copy goes at once; its facts (11 MB, keyed by content hash) stay in /verif/.cache/facts so that the
                # other properties' self-tests reuse them (LRU-pruned by export)
                shutil.rmtree(root, ignore_errors=True)
    m = [x for x in out if x["kind"] == "mutant" and x.get("applied")]
    b = [x for x in out if x["kind"] == "benign" and x.get("applied")]
    return {"selftest": {
        "mutants_applied": len(m), "mutants_fired": len([x for x in m if x.get("fired")]),
        "mutants_missed": [x["patch"].replace("/patch.diff", "") for x in m if x.get("fired") is False],
        "benign_applied": len(b), "benign_silent": len([x for x in b if x.get("fired") is False]),
        "benign_false_alarms": [x["patch"] for x in b if x.get("fired")],
        "not_applicable_patches": [x["patch"] for x in out if not x.get("applied")],
        # a stored patch whose tree no longer builds (e.g. a rename patch that misses a call site added by a later repair) decides nothing: listed
        "analysis_failed": [x["patch"] for x in out if x.get("applied") and x.get("fired") is None],
        "benign_skipped_for_time_budget": skipped_for_budget,
        "details": out, "wall_s": round(time.time() - t0, 1)}}


if __name__ == "__main__":
    import json
    import sys
    print(json.dumps(run(sys.argv[1], "/repo", sys.argv[2] if len(sys.argv) > 2 else None), indent=1))
