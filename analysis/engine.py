"""Rule runner: context handed to rules, result records, evidence writer, known-finding matching."""
import json
import os
import time
import traceback

from .facts import AnchorError, Program

VERIF = os.path.dirname(os.path.dirname(os.path.abspath(__file__)))


class Inst:
    """one evaluated rule instance"""
    __slots__ = ("prop", "rule", "key", "verdict", "where", "what", "witness", "obligation")

    def __init__(self, prop, rule, key, verdict, where, what, witness=None, obligation=True):
        self.prop = prop
        self.rule = rule
        self.key = key
        self.verdict = verdict  # ok | violation
        self.where = where
        self.what = what
        self.witness = witness
        self.obligation = obligation

    def full_key(self):
        return "%s|%s|%s" % (self.prop, self.rule, self.key)

    def as_json(self):
        d = {"rule": self.rule, "key": self.key, "verdict": self.verdict, "where": self.where, "what": self.what}
        if self.witness is not None:
            d["witness"] = self.witness
        return d


class Ctx:
    def __init__(self, prop, prog, repo, ctrl=None, tier="quick"):
        self.prop = prop
        self.prog = prog
        self.ctrl = ctrl
        self.repo = repo
        self.tier = tier
        self.insts = []
        self.rule = None
        self.rule_text = {}
        self.controls = []
        self.notes = []

    # -- recording ----------------------------------------------------------------------------
    def ok(self, key, where, what, obligation=True):
        self.insts.append(Inst(self.prop, self.rule, key, "ok", where, what, None, obligation))

    def bad(self, key, where, what, witness=None):
        self.insts.append(Inst(self.prop, self.rule, key, "violation", where, what, witness))

    def check(self, cond, key, where, what_ok, what_bad=None, witness=None):
        if cond:
            self.ok(key, where, what_ok)
        else:
            self.bad(key, where, what_bad or ("NOT: " + what_ok), witness)
        return cond

    def control(self, name, matched, detail=""):
        """positive control: a forbidden pattern planted in fixtures/positive must be matched"""
        self.controls.append({"rule": self.rule, "control": name, "matched": bool(matched), "detail": detail})

    def note(self, text):
        self.notes.append({"rule": self.rule, "note": text})

    # -- running ------------------------------------------------------------------------------
    def run_rule(self, rule_id, text, fn, floor=1):
        """run one rule; AnchorError and any internal error fail closed as a violation of that
        rule; fewer than `floor` evaluated instances is a violation too (vacuous pass guard)."""
        self.rule = rule_id
        self.rule_text[rule_id] = text
        before = len(self.insts)
        try:
            fn(self)
        except AnchorError as e:
            self.bad("anchor-lost", "-", "anchor lost: %s" % e)
        except Exception as e:  # noqa
            self.bad("rule-error", "-", "rule could not be evaluated (%s: %s)" % (type(e).__name__, e),
                     traceback.format_exc().splitlines()[-6:])
        n = len([i for i in self.insts[before:] if i.rule == rule_id])
        if n < floor:
            self.bad("floor", "-", "rule evaluated %d instance(s), fewer than the %d confirmed by hand on the reference tree" % (n, floor))
        self.rule = None


def load_known(path=None):
    path = path or os.path.join(VERIF, "known_findings.jsonl")
    known, fixed = {}, {}
    if os.path.exists(path):
        for line in open(path):
            line = line.strip()
            if not line or line.startswith("#"):
                continue
            r = json.loads(line)
            if r.get("status") == "known":
                known[r["key"]] = r
            else:
                fixed[r["key"]] = r
    return known, fixed


def finish(ctx, stats, t0, seed=0, extra=None, out_dir=None):
    """print verdict lines, write evidence + replay files; returns the exit code"""
    out_dir = out_dir or os.path.join(VERIF, "evidence")
    os.makedirs(os.path.join(out_dir, "replay"), exist_ok=True)
    known, _fixed = load_known()
    viol = [i for i in ctx.insts if i.verdict == "violation"]
    failed_controls = [c for c in ctx.controls if not c["matched"]]
    new, listed = [], []
    for v in viol:
        (listed if v.full_key() in known else new).append(v)
    for v in listed:
        print("KNOWN-FINDING: property=%s %s [%s %s at %s]" % (ctx.prop, known[v.full_key()].get("what", v.what), v.rule, v.key, v.where))
    # stale replay files of this property
    rdir = os.path.join(out_dir, "replay")
    for f in os.listdir(rdir):
        if f.startswith(ctx.prop + "-"):
            os.unlink(os.path.join(rdir, f))
    n = 0
    for v in new:
        n += 1
        rp = os.path.join(rdir, "%s-%d.json" % (ctx.prop, n))
        with open(rp, "w") as fh:
            json.dump({"property": ctx.prop, "rule": v.rule, "rule_text": ctx.rule_text.get(v.rule, ""), "key": v.full_key(),
                       "where": v.where, "what": v.what, "witness": v.witness}, fh, indent=1)
        print("%s %s: %s\n    at %s" % (v.rule, v.key, v.what, v.where))
        print("VIOLATION property=%s replay=%s" % (ctx.prop, rp))
    for c in failed_controls:
        n += 1
        rp = os.path.join(rdir, "%s-%d.json" % (ctx.prop, n))
        with open(rp, "w") as fh:
            json.dump({"property": ctx.prop, "rule": c["rule"], "key": "control|" + c["control"],
                       "what": "positive control not matched: the rule is blind (checker defect, fail closed)", "detail": c["detail"]}, fh, indent=1)
        print("%s control %s not matched: the rule would pass vacuously" % (c["rule"], c["control"]))
        print("VIOLATION property=%s replay=%s" % (ctx.prop, rp))

    obl = [i for i in ctx.insts if i.obligation]
    distinct = len({(i.rule, i.key) for i in obl})
    by_rule = {}
    for i in ctx.insts:
        r = by_rule.setdefault(i.rule, {"instances": 0, "violations": 0})
        r["instances"] += 1
        if i.verdict == "violation":
            r["violations"] += 1
    samples = [i.as_json() for i in ctx.insts[:400]]
    cov = {
        "explanation": "static analysis of the type-checked MIR (mir-opt-level=0) of /repo's lib and bin crates exported by "
                       "/verif/driver on this run; rules applied: " + "; ".join("%s: %s" % kv for kv in ctx.rule_text.items()),
        "evaluations": len(ctx.insts),
        "distinct_nontrivial": distinct,
        "rule": "an instance is one (rule, construct) pair the rule evaluated: a call site, constructor site, CFG edge/path query, "
                "table row or (block, abstract state) obligation; distinct = distinct (rule, key) pairs carrying an obligation",
        "samples": samples,
        "by_rule": by_rule,
        "analysed": stats,
        "positive_controls": ctx.controls,
        "known_findings_printed": [v.full_key() for v in listed],
        "notes": ctx.notes,
        "exhaustive": False,
    }
    if extra:
        cov.update(extra)
    ev = {
        "property_id": ctx.prop,
        "tier": ctx.tier,
        "seed": seed,
        "level": "other",
        "coverage": cov,
        "assumptions": [
            "rustc nightly MIR construction and trait resolution are faithful to the source",
            "semantics of std and third-party callees are as summarised in the rule tables (not analysed)",
            "only the structural clauses named in MANIFEST level_claimed.text are decided; the behavioural remainder is not",
        ],
        "wall_s": round(time.time() - t0, 3),
        "violations": len(new) + len(failed_controls),
    }
    with open(os.path.join(out_dir, "%s.json" % ctx.prop), "w") as fh:
        json.dump(ev, fh, indent=1)
    print("%s %s: %d rule instance(s) over %d rule(s), %d violation(s) (%d listed as known), %d control(s) matched" % (
        ctx.prop, ctx.tier, len(ctx.insts), len(ctx.rule_text), len(viol), len(listed), len([c for c in ctx.controls if c["matched"]])))
    return 1 if (new or failed_controls) else 0
