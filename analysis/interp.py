"""Bounded inter-procedural reduction of origin trees ("summaries with a stated inlining bound").

`Inliner.reduce(body, node)` rewrites projections of call results: `(branch(f(..)) as Continue).0.1`
becomes the tree of the second tuple component that the crate-local function `f` returns inside
`Ok(..)`. Callee arguments are *not* substituted (leaves `argN` of an inlined tree refer to the
callee's parameters and are tagged with the callee path)."""
from .facts import Node, Origins, method_name, peel

OKISH = {"Ok", "Some", "Continue"}


class Inliner:
    def __init__(self, prog, max_depth=3):
        self.prog = prog
        self.max_depth = max_depth
        self._ret = {}

    def ret_tree(self, body):
        k = (body.crate, body.path)
        if k not in self._ret:
            self._ret[k] = Origins(body).local(0)
        return self._ret[k]

    def local_callee(self, body, node):
        """body of the crate-local function a call node refers to (by resolved path), or None"""
        if node.kind != "call" or node.at is None:
            return None
        bb, idx = node.at
        if idx != "term":
            return None
        body = node.owner or body
        t = body.blocks[bb]["term"]
        if t.get("k") != "call" or not t.get("resolved_local"):
            return None
        return self.prog.body_by_def(t["resolved"], body.crate)

    def reduce(self, body, node, depth=0):
        if node.kind == "field" and node.kids:
            base = self.reduce(body, node.kids[0], depth)
            r = self.select(body, base, ("field", node.a), depth)
            return r if r is not None else Node("field", node.a, [base], node.at)
        if node.kind == "variant" and node.kids:
            base = self.reduce(body, node.kids[0], depth)
            r = self.select(body, base, ("variant", node.a), depth)
            return r if r is not None else Node("variant", node.a, [base], node.at)
        if node.kind in ("ref", "deref", "cast") and node.kids:
            return Node(node.kind, node.a, [self.reduce(body, node.kids[0], depth)], node.at, node.owner)
        if node.kind == "phi":
            return Node("phi", node.a, [self.reduce(body, k, depth) for k in node.kids], node.at, node.owner)
        if node.kids:
            return Node(node.kind, node.a, [self.reduce(body, k, depth) for k in node.kids], node.at, node.owner)
        return node

    def select(self, body, node, step, depth):
        kind, name = step
        n = node
        while n.kind in ("ref", "deref") and n.kids:
            n = n.kids[0]
        if n.kind == "call" and method_name(n.a) in ("Clone::clone", "ToOwned::to_owned") and n.kids:
            return self.select(body, n.kids[0], step, depth)
        if n.kind == "agg":
            label, fields = n.a
            if kind == "variant":
                v = label.split("::")[-1]
                if v == name or (name in OKISH and v in OKISH):
                    return n
                return Node("unknown", "variant-mismatch")
            if fields is not None and name in fields:
                return n.kids[fields.index(name)]
            if label == "tuple" and name.isdigit() and int(name) < len(n.kids):
                return n.kids[int(name)]
            return None
        if n.kind == "phi":
            rs = [self.select(body, k, step, depth) for k in n.kids]
            rs = [r for r in rs if r is not None and not (r.kind == "unknown" and r.a == "variant-mismatch")]
            if not rs:
                return None
            if len(rs) == 1:
                return rs[0]
            return Node("phi", n.a, rs)
        if n.kind == "call":
            m = method_name(n.a)
            if m == "Try::branch" and kind == "variant" and name in OKISH and n.kids:
                return self.select(body, n.kids[0], ("variant", "Ok"), depth) or Node("variant", "Ok", [n.kids[0]])
            if m == "FromResidual::from_residual" and kind == "variant":
                return Node("unknown", "variant-mismatch")
            cb = self.local_callee(body, n)
            if cb is not None and depth < self.max_depth:
                rt = self.reduce(cb, self.ret_tree(cb), depth + 1)
                rt = _tag(rt, cb)
                return self.select(cb, rt, step, depth + 1)
            return None
        if n.kind == "variant" and kind == "field":
            # (X as Ok).0 where X unresolved
            return None
        return None


def _tag(node, body):
    """mark arg leaves of an inlined tree with the callee they belong to"""
    if node.kind == "arg" and not isinstance(node.a, tuple):
        return Node("arg", (body.npath, node.a))
    if not node.kids:
        return node
    return Node(node.kind, node.a, [_tag(k, body) for k in node.kids], node.at, node.owner)
