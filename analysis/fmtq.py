"""Decoding of `format!`/`format_args!` call trees into literal pieces and argument trees."""
from .facts import decode_fmt_template, method_name, peel


class FmtError(Exception):
    pass


def find_arguments(node):
    """first `Arguments::new*`/`from_str` call below node (through format/must_use/deref wrappers)"""
    for n in node.walk():
        if n.kind == "call" and method_name(n.a) in ("Arguments::new", "Arguments::from_str", "Arguments::new_const", "Arguments::new_v1"):
            return n
    return None


def pieces(node):
    """[str | ('arg', tree, spec, how)] for a format!-built value; raises FmtError if not decodable"""
    a = find_arguments(node)
    if a is None:
        c = _concat_pieces(node)
        if c is not None:
            return c
        raise FmtError("no fmt::Arguments construction below %s" % node.show()[:120])
    m = method_name(a.a)
    if m == "Arguments::from_str":
        c = peel(a.kids[0])
        if c.kind != "const" or c.a.as_str() is None:
            raise FmtError("from_str without literal")
        return [c.a.as_str()]
    if m != "Arguments::new":
        raise FmtError("unsupported fmt constructor %s" % m)
    t = peel(a.kids[0])
    if t.kind != "const" or t.a.as_bytes() is None:
        raise FmtError("fmt template is not a constant")
    tmpl = decode_fmt_template(t.a.as_bytes())
    args = peel(a.kids[1])
    if args.kind != "agg" or args.a[0] != "array":
        raise FmtError("fmt arguments are not an array literal: %s" % args.show()[:100])
    trees = []
    for k in args.kids:
        k = peel(k)
        if k.kind != "call" or not method_name(k.a).startswith("Argument::new_"):
            raise FmtError("unrecognised fmt argument %s" % k.show()[:100])
        trees.append((peel(k.kids[0]), method_name(k.a)[len("Argument::new_"):]))
    out = []
    for p in tmpl:
        if isinstance(p, str):
            out.append(p)
        else:
            _, idx, spec = p
            if idx >= len(trees):
                raise FmtError("fmt placeholder index out of range")
            out.append(("arg", trees[idx][0], spec, trees[idx][1]))
    return out


def _concat_pieces(node):
    """`[a, b, c].concat()` / `[a, b].join("")` of string slices: the same pieces as the equivalent format!"""
    for n in node.walk():
        if n.kind == "call" and method_name(n.a).split("::")[-1] in ("concat", "join") and n.kids:
            last = method_name(n.a).split("::")[-1]
            if last == "join":
                sep = peel(n.kids[1]) if len(n.kids) > 1 else None
                if sep is None or sep.kind != "const" or sep.a.as_str() != "":
                    return None
            arr = None
            for k in n.kids[0].walk():
                if k.kind == "agg" and k.a[0] == "array":
                    arr = k
                    break
            if arr is None:
                return None
            out = []
            for el in arr.kids:
                e = peel(el)
                if e.kind == "const" and e.a.as_str() is not None:
                    out.append(e.a.as_str())
                else:
                    out.append(("arg", e, None, "display"))
            return out
        if n.kind == "call" and method_name(n.a) not in ("Deref::deref", "String::as_str", "AsRef::as_ref", "Borrow::borrow", "must_use", "hint::must_use"):
            return None
    return None


def literal_text(ps, hole="\x00"):
    return "".join(p if isinstance(p, str) else hole for p in ps)


def flat_pieces(node, depth=0):
    """like pieces(), but arguments that are themselves `format!` results are expanded in place
    (the repository's `formatln!` wraps an inner format! in `{}\\n`)"""
    out = []
    for p in pieces(node):
        if isinstance(p, str):
            out.append(p)
            continue
        inner = p[1]
        if depth < 4 and inner.kind == "call" and find_arguments(inner) is not None and method_name(inner.a) in ("must_use", "format", "fmt::format", "hint::must_use"):
            out.extend(flat_pieces(inner, depth + 1))
        else:
            out.append(p)
    # merge adjacent literals
    merged = []
    for p in out:
        if isinstance(p, str) and merged and isinstance(merged[-1], str):
            merged[-1] += p
        else:
            merged.append(p)
    return merged
