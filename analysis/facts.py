"""Loader and query layer over the JSON facts written by /verif/driver (mirfacts).

Nothing in here is a rule. It provides: program/body lookup by resolved identity, CFG helpers
(successors, dominators, reachability with removed edges), single-assignment definition lookup,
origin trees (value provenance), constant decoding (ints, strs, byte strings, `&[&str]` tables,
`format_args!` templates) and a compact pretty printer used in reports.
"""
import json
import os
import re
import struct
from collections import defaultdict


class AnchorError(Exception):
    """A function / type / role the rule is anchored on could not be bound (fail closed)."""


# ---------------------------------------------------------------------------------------------
# path normalisation
# ---------------------------------------------------------------------------------------------
_MODPREFIX = re.compile(r"\b(?:[a-z_][a-z0-9_]*::)+(?=[A-Za-z_<\[(&{])")


def norm_angle(path):
    """Strip module prefixes inside `<..>` parts only: `<a::b::T<'_> as std::iter::Iterator>::next`
    -> `<T<'_> as Iterator>::next`."""
    if not path.startswith("<"):
        return path
    depth = 0
    end = None
    for i, ch in enumerate(path):
        if ch == "<":
            depth += 1
        elif ch == ">":
            depth -= 1
            if depth == 0:
                end = i
                break
    if end is None:
        return path
    inner = path[1:end]
    inner = _MODPREFIX.sub("", inner)
    return "<" + inner + ">" + path[end + 1:]


def strip_mods(text):
    """Strip every lowercase module prefix: used for *callee* names and type strings, where the
    item itself starts uppercase or is the last segment."""
    return _MODPREFIX.sub("", text)


def short_callee(path):
    """`std::vec::Vec::<T>::push` -> `Vec::<T>::push`, `<X as core::ops::Index<usize>>::index` ->
    `<X as Index<usize>>::index`, `newline::replace_crlf` -> `replace_crlf` (last lowercase segment
    kept)."""
    if path.startswith("<"):
        return norm_angle(path)
    segs = split_path(path)
    # keep from the first segment that starts uppercase, else the last segment (+closures)
    for i, sg in enumerate(segs):
        if sg[:1].isupper():
            return "::".join(segs[i:])
    # free function (possibly with closure suffix / generic args)
    keep = []
    for sg in reversed(segs):
        keep.append(sg)
        if not (sg.startswith("{") or sg.startswith("<")):
            break
    return "::".join(reversed(keep))


def split_path(path):
    segs, depth, cur = [], 0, ""
    i = 0
    while i < len(path):
        ch = path[i]
        if ch in "<([{":
            depth += 1
        elif ch in ">)]}":
            depth -= 1
        if ch == ":" and depth == 0 and path[i:i + 2] == "::":
            segs.append(cur)
            cur = ""
            i += 2
            continue
        cur += ch
        i += 1
    segs.append(cur)
    return segs


def strip_generic_params(ty):
    """`MarkdownIterator<'a>` -> `MarkdownIterator` (top-level generic list of a type name)"""
    i = ty.find("<")
    return ty if i < 0 else ty[:i]


def strip_generics(name):
    """`Vec::<T>::push` -> `Vec::push` ; `Option::<usize>::is_some` -> `Option::is_some`"""
    out, depth = "", 0
    i = 0
    while i < len(name):
        if name[i:i + 3] == "::<" and depth == 0:
            depth = 1
            i += 3
            continue
        ch = name[i]
        if depth > 0:
            if ch == "<":
                depth += 1
            elif ch == ">":
                depth -= 1
            i += 1
            continue
        out += ch
        i += 1
    return out


# ---------------------------------------------------------------------------------------------
# constants
# ---------------------------------------------------------------------------------------------
class ConstVal:
    def __init__(self, j):
        self.j = j
        self.ty = j.get("ty", "")
        self.item = j.get("item")
        self.val = j.get("val")

    def as_int(self):
        v = self.val
        if v and v.get("kind") == "int":
            if "signed" in v:
                return int(v["signed"])
            return int(v["bits"])
        return None

    def as_bool(self):
        if self.ty == "bool":
            i = self.as_int()
            return None if i is None else bool(i)
        return None

    def as_char(self):
        v = self.val
        if v and v.get("kind") == "int" and "char" in v:
            return v["char"]
        return None

    def as_bytes(self):
        """bytes of a `&str` / `&[u8]` / `&[u8; N]` constant"""
        v = self.val
        if not v:
            return None
        if v.get("kind") == "slice" and "bytes" in v:
            return bytes.fromhex(v["bytes"])
        if v.get("kind") == "ptr" and v["alloc"].get("kind") == "memory":
            if re.match(r"^&(?:'\w+ )?\[u8; \d+\]$", self.ty) or self.ty in ("&[u8]", "&str"):
                return bytes.fromhex(v["alloc"]["bytes"])[v.get("off", 0):]
        if v.get("kind") == "indirect" and v["alloc"].get("kind") == "memory":
            return _fat_slice_bytes(v["alloc"], v.get("off", 0))
        return None

    def as_str(self):
        b = self.as_bytes()
        if b is None:
            return None
        try:
            return b.decode("utf-8")
        except UnicodeDecodeError:
            return None

    def fn_item(self):
        v = self.val
        if v and v.get("kind") == "zst" and "fn" in v:
            return v["fn"]
        return None

    def fn_args(self):
        v = self.val
        if v and v.get("kind") == "zst" and "args" in v:
            return v["args"]
        return None

    def str_table(self):
        """decode `&[&str]` / `&[&str; N]` / `[&str; N]` constants"""
        v = self.val
        if not v:
            return None
        alloc = None
        off = 0
        n = None
        if v.get("kind") == "slice" and "alloc" in v:
            alloc, n = v["alloc"], v["len"]
        elif v.get("kind") in ("ptr", "indirect"):
            alloc, off = v["alloc"], v.get("off", 0)
        if not alloc or alloc.get("kind") != "memory":
            return None
        return _str_table(alloc, off, n)

    def describe(self):
        if self.fn_item():
            return "fn " + short_callee(self.fn_item())
        i = self.as_int()
        if i is not None:
            if self.ty == "bool":
                return "true" if i else "false"
            c = self.as_char()
            if c is not None:
                return repr(c)
            return "%d_%s" % (i, self.ty)
        b = self.as_bytes()
        if b is not None:
            try:
                return json.dumps(b.decode("utf-8"))
            except UnicodeDecodeError:
                return "b" + repr(b)[1:]
        if self.item:
            return "const " + short_callee(self.item)
        return "const<%s>" % self.ty


def _ptr_target(alloc, off):
    for p in alloc.get("ptrs", []):
        if p["off"] == off:
            return p["to"]
    return None


def _fat_slice_bytes(alloc, off):
    raw = bytes.fromhex(alloc["bytes"])
    if len(raw) < off + 16:
        return None
    tgt = _ptr_target(alloc, off)
    if not tgt or tgt.get("kind") != "memory":
        return None
    start = struct.unpack_from("<Q", raw, off)[0]
    ln = struct.unpack_from("<Q", raw, off + 8)[0]
    return bytes.fromhex(tgt["bytes"])[start:start + ln]


def _str_table(alloc, off, n):
    """alloc holds either the array of fat pointers itself, or a (ptr,len) to that array"""
    raw = bytes.fromhex(alloc["bytes"])
    ptr_offsets = sorted(p["off"] for p in alloc.get("ptrs", []))
    # a single fat pointer whose target itself holds pointers is a `&[&str]`, not a `[&str; 1]`
    if len(ptr_offsets) == 1 and ptr_offsets[0] == off and n is None:
        tgt = _ptr_target(alloc, off)
        if tgt and tgt.get("kind") == "memory" and tgt.get("ptrs"):
            cnt = struct.unpack_from("<Q", raw, off + 8)[0] if len(raw) >= off + 16 else None
            return _str_table(tgt, 0, cnt)
    # case A: this alloc *is* the array of (ptr,len) pairs
    if ptr_offsets and all((o - off) % 16 == 0 for o in ptr_offsets) and (n is None or len(ptr_offsets) == n):
        out = []
        for o in ptr_offsets:
            b = _fat_slice_bytes(alloc, o)
            if b is None:
                return None
            try:
                out.append(b.decode("utf-8"))
            except UnicodeDecodeError:
                return None
        return out
    # case B: one fat/thin pointer to the array
    if len(ptr_offsets) == 1 and ptr_offsets[0] == off:
        tgt = _ptr_target(alloc, off)
        cnt = None
        if len(raw) >= off + 16:
            cnt = struct.unpack_from("<Q", raw, off + 8)[0]
        if tgt and tgt.get("kind") == "memory":
            return _str_table(tgt, 0, cnt)
    if not ptr_offsets and (n == 0 or len(raw) == 0):
        return []
    return None


# ---------------------------------------------------------------------------------------------
# format_args! templates
# ---------------------------------------------------------------------------------------------
def decode_fmt_template(b):
    """Decode the byte template of `core::fmt::Arguments::new` (see library/core/src/fmt/mod.rs of
    the pinned nightly: a sequence of pieces, 0x00-terminated):
      1..=0x7f n  : literal string of n bytes follows
      0x80 lo hi  : literal string of u16 length follows
      0xc0..      : placeholder; bit flags say which of (options u32, width u16, precision u16,
                    arg index u16) follow; without index the next argument in order is used
      0x00        : end
    Returns a list of pieces: str literals and ('arg', index, spec-bytes). Raises on anything
    unknown (the exporter never guesses)."""
    out = []
    i = 0
    next_arg = 0
    while True:
        if i >= len(b):
            raise ValueError("unterminated fmt template")
        c = b[i]
        i += 1
        if c == 0:
            break
        if c < 0x80:
            out.append(b[i:i + c].decode("utf-8"))
            i += c
        elif c == 0x80:
            ln = b[i] | (b[i + 1] << 8)
            i += 2
            out.append(b[i:i + ln].decode("utf-8"))
            i += ln
        elif c & 0xc0 == 0xc0:
            spec = {}
            if c & 1:
                spec["flags"] = int.from_bytes(b[i:i + 4], "little")
                i += 4
            if c & 2:
                spec["width"] = int.from_bytes(b[i:i + 2], "little")
                i += 2
            if c & 4:
                spec["precision"] = int.from_bytes(b[i:i + 2], "little")
                i += 2
            if c & 8:
                idx = int.from_bytes(b[i:i + 2], "little")
                i += 2
            else:
                idx = next_arg
            if c & ~0xcf:
                raise ValueError("unknown fmt placeholder opcode 0x%02x" % c)
            next_arg = idx + 1
            out.append(("arg", idx, spec))
        else:
            raise ValueError("unknown fmt opcode 0x%02x" % c)
    if i != len(b):
        raise ValueError("trailing bytes in fmt template")
    return out


# ---------------------------------------------------------------------------------------------
# program model
# ---------------------------------------------------------------------------------------------
class Place:
    __slots__ = ("local", "proj")

    def __init__(self, j):
        self.local = j["l"]
        self.proj = j["p"]

    @property
    def bare(self):
        return not self.proj

    def key(self):
        return (self.local, json.dumps(self.proj, sort_keys=True))

    def field_names(self):
        return [p["n"] for p in self.proj if isinstance(p, dict) and "n" in p]

    def show(self, body=None):
        s = body.lname(self.local) if body else "_%d" % self.local
        for p in self.proj:
            if p == "*":
                s = "(*%s)" % s
            elif "n" in p:
                s = "%s.%s" % (s, p["n"])
            elif "dc" in p:
                s = "(%s as %s)" % (s, p["dc"])
            elif "idx" in p:
                s = "%s[%s]" % (s, body.lname(p["idx"]) if body else "_%d" % p["idx"])
            elif "cidx" in p:
                s = "%s[%s%d]" % (s, "-" if p["from_end"] else "", p["cidx"])
            else:
                s = "%s.%s" % (s, json.dumps(p))
        return s


class Body:
    def __init__(self, j, crate):
        self.j = j
        self.crate = crate
        self.path = j["path"]
        self.npath = norm_angle(self.path)
        self.kind = j["kind"]
        self.impl_self = j.get("impl_self")
        self.impl_trait = j.get("impl_trait")
        self.impl_trait_ref = j.get("impl_trait_ref")
        self.auto_derived = j.get("auto_derived", False)
        self.name = split_path(self.path)[-1]
        if self.kind == "AssocFn" and self.impl_self is not None:
            if self.impl_trait_ref:
                # `<output::ExitStatus as std::convert::From<subprocess::ExitStatus>>`
                self.npath = strip_mods(self.impl_trait_ref) + "::" + self.name
            else:
                self.npath = strip_generic_params(self.impl_self) + "::" + self.name
        self.kind = j["kind"]
        self.promoted = j.get("promoted")
        self.blocks = j["blocks"]
        self.locals = j["locals"]
        self.arg_count = j["arg_count"]
        self.span = j["span"]
        self.file = j["span"]["file"]
        self._names = {}
        for d in j["debug"]:
            v = d["value"]
            if "l" in v and not v["p"]:
                self._names.setdefault(v["l"], d["name"])
        self._defs = None
        self._preds = None
        self._dom = None

    # -- naming -------------------------------------------------------------------------------
    def lname(self, l):
        n = self._names.get(l)
        return "%s(_%d)" % (n, l) if n else "_%d" % l

    def local_by_name(self, name):
        return [l for l, n in self._names.items() if n == name]

    def lty(self, l):
        return self.locals[l]["ty"]

    def loc(self, bb, sp=None):
        if sp is None:
            sp = self.blocks[bb]["term"]["sp"]
        return "%s:%d:%d" % (self.file, sp[0], sp[1])

    def where(self):
        return "%s:%d" % (self.file, self.span["line"])

    # -- cfg ----------------------------------------------------------------------------------
    def succ(self, bb):
        t = self.blocks[bb]["term"]
        k = t["k"]
        if k == "goto":
            return [t["target"]]
        if k == "switch":
            out = [x[1] for x in t["targets"]]
            if t["otherwise"] not in out:
                out.append(t["otherwise"])
            return out
        if k in ("drop", "assert"):
            return [t["target"]]
        if k == "call":
            return [] if t["target"] is None else [t["target"]]
        return []

    def edges(self, bb):
        """[(label, target)] where label is the switch value as int, 'otherwise' or None"""
        t = self.blocks[bb]["term"]
        if t["k"] == "switch":
            out = [(int(v), tg) for v, tg in t["targets"]]
            out.append(("otherwise", t["otherwise"]))
            return out
        return [(None, s) for s in self.succ(bb)]

    @property
    def preds(self):
        if self._preds is None:
            p = defaultdict(list)
            for i in range(len(self.blocks)):
                for s in self.succ(i):
                    p[s].append(i)
            self._preds = p
        return self._preds

    def reachable(self, start=0, removed_edges=(), removed_blocks=()):
        removed_edges = set(removed_edges)
        removed_blocks = set(removed_blocks)
        seen = set()
        todo = [start] if start not in removed_blocks else []
        while todo:
            b = todo.pop()
            if b in seen:
                continue
            seen.add(b)
            for s in self.succ(b):
                if (b, s) in removed_edges or s in removed_blocks:
                    continue
                if s not in seen:
                    todo.append(s)
        return seen

    def path_to(self, start, goal, removed_edges=(), removed_blocks=()):
        """a shortest block path start->goal (list) or None"""
        removed_edges = set(removed_edges)
        removed_blocks = set(removed_blocks)
        prev = {start: None}
        todo = [start]
        while todo:
            nxt = []
            for b in todo:
                if b == goal:
                    out = []
                    while b is not None:
                        out.append(b)
                        b = prev[b]
                    return out[::-1]
                for s in self.succ(b):
                    if (b, s) in removed_edges or s in removed_blocks or s in prev:
                        continue
                    prev[s] = b
                    nxt.append(s)
            todo = nxt
        return None

    @property
    def dom(self):
        """dominator sets (block -> set of dominators), only for blocks reachable from entry"""
        if self._dom is None:
            reach = self.reachable(0)
            order = sorted(reach)
            dom = {b: set(order) for b in order}
            dom[0] = {0}
            changed = True
            while changed:
                changed = False
                for b in order:
                    if b == 0:
                        continue
                    ps = [p for p in self.preds[b] if p in reach]
                    new = set(order)
                    for p in ps:
                        new &= dom[p]
                    new = new | {b}
                    if new != dom[b]:
                        dom[b] = new
                        changed = True
            self._dom = dom
        return self._dom

    def dominates(self, a, b):
        return b in self.dom and a in self.dom[b]

    def return_blocks(self):
        return [i for i, b in enumerate(self.blocks) if b["term"]["k"] == "return" and not b["cleanup"]]

    def back_edges(self):
        out = []
        for b in self.reachable(0):
            for s in self.succ(b):
                if self.dominates(s, b):
                    out.append((b, s))
        return out

    # -- definitions --------------------------------------------------------------------------
    @property
    def defs(self):
        """local -> list of (bb, idx, kind, payload); idx = statement index or 'term'.
        Only whole-local writes (no projection) are recorded as definitions; projected writes are
        recorded under kind 'partial'."""
        if self._defs is None:
            d = defaultdict(list)
            for bi, b in enumerate(self.blocks):
                if b["cleanup"]:
                    continue
                for si, st in enumerate(b["stmts"]):
                    if st["k"] == "assign":
                        lhs = st["lhs"]
                        if not lhs["p"]:
                            d[lhs["l"]].append((bi, si, "assign", st["rv"]))
                        elif lhs["p"][0] != "*":
                            d[lhs["l"]].append((bi, si, "partial", st))
                    elif st["k"] == "setdiscr":
                        d[st["lhs"]["l"]].append((bi, si, "partial", st))
                t = b["term"]
                if t["k"] == "call":
                    dst = t["dest"]
                    if not dst["p"]:
                        d[dst["l"]].append((bi, "term", "call", t))
                    elif dst["p"][0] != "*":
                        d[dst["l"]].append((bi, "term", "partial", t))
            self._defs = d
        return self._defs

    def single_def(self, local):
        ds = [x for x in self.defs.get(local, []) if x[2] != "partial"]
        if len(ds) == 1 and not any(x[2] == "partial" for x in self.defs.get(local, [])):
            return ds[0]
        return None

    def canon_place(self, pl):
        """rewrite a place based on single-definition temporaries (`_t = copy P`, `_t = &P`) into a
        place over user locals / arguments"""
        l, proj = pl["l"], list(pl["p"])
        for _ in range(16):
            d = self.single_def(l)
            if not d or d[2] != "assign":
                break
            rv = d[3]
            if rv["k"] == "use" and ("copy" in rv["op"] or "move" in rv["op"]):
                src = rv["op"].get("copy") or rv["op"].get("move")
                l, proj = src["l"], list(src["p"]) + proj
            elif rv["k"] == "ref" and proj and proj[0] == "*":
                src = rv["place"]
                l, proj = src["l"], list(src["p"]) + proj[1:]
            else:
                break
        return {"l": l, "p": proj}

    def place_name(self, pl):
        """user-level name of a place (debug-info name of the longest matching prefix + fields)"""
        c = self.canon_place(pl)
        best = None
        for d in self.j["debug"]:
            v = d["value"]
            if "l" not in v or v["l"] != c["l"]:
                continue
            n = len(v["p"])
            if c["p"][:n] == v["p"] and (best is None or n > best[0]):
                best = (n, d["name"])
        if best is None:
            return Place(c).show(self)
        rest = [p["n"] for p in c["p"][best[0]:] if isinstance(p, dict) and "n" in p]
        return best[1] + ("." + ".".join(rest) if rest else "")

    def arg_name(self, op):
        """user-level name of the place an operand denotes or (for `&x` / `&mut x` temporaries) refers to"""
        pl = op.get("move") or op.get("copy")
        if pl is None:
            return ""
        c = self.canon_place(pl)
        if not c["p"]:
            d = self.single_def(c["l"])
            if d and d[2] == "assign" and d[3]["k"] in ("ref", "rawptr"):
                return self.place_name(d[3]["place"])
        return self.place_name(c)

    def calls(self):
        for bi, b in enumerate(self.blocks):
            if b["cleanup"]:
                continue
            t = b["term"]
            if t["k"] == "call":
                yield bi, t

    # -- pretty -------------------------------------------------------------------------------
    def show_operand(self, o):
        if "copy" in o:
            return Place(o["copy"]).show(self)
        if "move" in o:
            return "move " + Place(o["move"]).show(self)
        if "const" in o:
            return ConstVal(o["const"]).describe()
        return json.dumps(o)

    def show_rvalue(self, rv):
        k = rv["k"]
        if k == "use":
            return self.show_operand(rv["op"])
        if k == "ref":
            return ("&mut " if rv["mut"] else "&") + Place(rv["place"]).show(self)
        if k == "bin":
            return "%s(%s, %s)" % (rv["op"], self.show_operand(rv["a"]), self.show_operand(rv["b"]))
        if k == "un":
            return "%s(%s)" % (rv["op"], self.show_operand(rv["a"]))
        if k == "discr":
            return "discriminant(%s)" % Place(rv["place"]).show(self)
        if k == "cast":
            return "%s as %s [%s]" % (self.show_operand(rv["op"]), rv["ty"], rv["cast"])
        if k == "agg":
            ops = ", ".join(self.show_operand(o) for o in rv["ops"])
            if rv["agg"] == "adt":
                nm = strip_mods(rv["adt"]) + "::" + rv["variant"]
                return "%s{%s}" % (nm, ", ".join("%s: %s" % (f, self.show_operand(o)) for f, o in zip(rv["fields"], rv["ops"])))
            if rv["agg"] == "closure":
                return "closure %s[%s]" % (short_callee(rv["def"]), ops)
            return "%s(%s)" % (rv["agg"], ops)
        if k == "rawptr":
            return "&raw " + Place(rv["place"]).show(self)
        return json.dumps(rv)[:200]

    def show_term(self, t):
        k = t["k"]
        if k == "call":
            name = call_name(t) or "?dyn"
            if "callee" not in t:
                name = "dyn(%s)" % self.show_operand(t["callee_dyn"])
            return "%s = %s(%s) -> bb%s" % (
                Place(t["dest"]).show(self), name,
                ", ".join(self.show_operand(a) for a in t["args"]), t["target"])
        if k == "switch":
            return "switch(%s) [%s, otherwise: bb%d]" % (
                self.show_operand(t["discr"]),
                ", ".join("%s: bb%d" % (v, tg) for v, tg in t["targets"]), t["otherwise"])
        if k == "goto":
            return "goto bb%d" % t["target"]
        if k == "drop":
            return "drop(%s) -> bb%d" % (Place(t["place"]).show(self), t["target"])
        if k == "assert":
            return "assert(%s == %s, %s) -> bb%d" % (self.show_operand(t["cond"]), t["expected"], t["msg"].get("assert"), t["target"])
        return k

    def show(self, with_cleanup=False):
        out = ["fn %s  [%s]  args=%d" % (self.path, self.where(), self.arg_count)]
        for i, l in enumerate(self.locals):
            out.append("  let %s: %s" % (self.lname(i), l["ty"]))
        for bi, b in enumerate(self.blocks):
            if b["cleanup"] and not with_cleanup:
                continue
            out.append(" bb%d:%s" % (bi, " (cleanup)" if b["cleanup"] else ""))
            for st in b["stmts"]:
                if st["k"] == "assign":
                    out.append("    %s = %s    // %d" % (Place(st["lhs"]).show(self), self.show_rvalue(st["rv"]), st["sp"][0]))
                else:
                    out.append("    %s" % json.dumps(st)[:160])
            out.append("    %s    // %d" % (self.show_term(b["term"]), b["term"]["sp"][0]))
        return "\n".join(out)


def fn_table(j):
    """{def path: [kind, return type, argument types..]} of the user functions of one exported crate (no closures, no tests)"""
    out = {}
    for b in j["bodies"]:
        if b.get("promoted") is not None or b.get("kind") not in ("Fn", "AssocFn"):
            continue
        p_ = b["path"]
        if "::tests::" in p_ or p_.endswith("::tests") or "{closure" in p_:
            continue
        n = b.get("arg_count", 0)
        out[p_] = [b["kind"]] + [strip_mods(l["ty"]) for l in b["locals"][: n + 1]]
    return out


def _rename_map(j, ref):
    """{current def path: reference def path} for functions that were only renamed (see tools/gen_anchor_table.py)"""
    cur = fn_table(j)
    missing = [p_ for p_ in ref if p_ not in cur]
    extra = [p_ for p_ in cur if p_ not in ref]
    if not missing or not extra:
        return {}
    parent = lambda p_: p_.rsplit("::", 1)[0] if "::" in p_ else ""  # noqa: E731
    cands = {}
    for m in missing:
        cs = [e for e in extra if parent(e) == parent(m) and cur[e] == ref[m]]
        if len(cs) == 1:
            cands.setdefault(cs[0], []).append(m)
    return {e: ms[0] for e, ms in cands.items() if len(ms) == 1}


def _load_facts(paths, table):
    """[(json, renames)] for the fact files; a function renamed in one crate is mapped back in all of them (the bin crate calls into the lib)"""
    raws = [open(p_).read() for p_ in paths]
    js = [json.loads(r_) for r_ in raws]
    ren = {}
    if table:
        for j in js:
            ren.update(_rename_map(j, table.get(j["crate"], {})))
    if ren:
        import re as _re
        out = []
        for raw in raws:
            for new, old in sorted(ren.items(), key=lambda kv: -len(kv[0])):
                raw = _re.sub(r"(?<![A-Za-z0-9_])" + _re.escape(new) + r"(?![A-Za-z0-9_])", lambda m_, o_=old: o_, raw)
            out.append(json.loads(raw))
        js = out
    inlined = []
    if table and os.environ.get("VERIF_NO_INLINE") != "1":
        for j in js:
            inlined += _inline_new_helpers(j, table.get(j["crate"], {}), set())
    return js, ren, inlined


def _shift_place(pl, off):
    out = {"l": pl["l"] + off, "p": []}
    for q in pl["p"]:
        if isinstance(q, dict) and "idx" in q:
            q = dict(q)
            q["idx"] = q["idx"] + off
        out["p"].append(q)
    return out


def _shift_operand(op, off, prom_off):
    if "copy" in op:
        return {"copy": _shift_place(op["copy"], off)}
    if "move" in op:
        return {"move": _shift_place(op["move"], off)}
    if "const" in op and "promoted" in op["const"]:
        c = dict(op["const"])
        c["promoted"] = c["promoted"] + prom_off
        return {"const": c}
    return op


def _shift_rvalue(rv, off, prom_off, cl_map):
    rv = dict(rv)
    for k in ("op", "a", "b"):
        if k in rv and isinstance(rv[k], dict):
            rv[k] = _shift_operand(rv[k], off, prom_off)
    if "place" in rv:
        rv["place"] = _shift_place(rv["place"], off)
    if "ops" in rv:
        rv["ops"] = [_shift_operand(o, off, prom_off) for o in rv["ops"]]
    if rv.get("k") == "agg" and rv.get("agg") == "closure" and rv.get("def") in cl_map:
        rv["def"] = cl_map[rv["def"]]
    return rv


def _inline_call(caller, bi, callee, serial, cl_map):
    """replace the call in block `bi` of `caller` by a copy of `callee`'s body (locals and blocks appended, arguments assigned, every
    `return` becomes `dest = move _0'; goto continuation`)"""
    t = caller["blocks"][bi]["term"]
    off, boff, prom_off = len(caller["locals"]), len(caller["blocks"]), 1000 * serial
    caller["locals"].extend(json.loads(json.dumps(callee["locals"])))
    for d in callee.get("debug", []):
        d2 = json.loads(json.dumps(d))
        if isinstance(d2.get("value"), dict) and "l" in d2["value"]:
            d2["value"] = _shift_place(d2["value"], off)
            d2.pop("arg", None)
            caller.setdefault("debug", []).append(d2)
    sp = t.get("sp")
    for blk in callee["blocks"]:
        nb = {"cleanup": blk["cleanup"], "stmts": [], "term": None}
        for st in blk["stmts"]:
            st2 = dict(st)
            st2["lhs"] = _shift_place(st["lhs"], off)
            st2["rv"] = _shift_rvalue(st["rv"], off, prom_off, cl_map)
            nb["stmts"].append(st2)
        tt = dict(blk["term"])
        k = tt["k"]
        if k == "return":
            nb["stmts"].append({"k": "assign", "lhs": t["dest"], "rv": {"k": "use", "op": {"move": {"l": off, "p": []}}}, "sp": tt.get("sp", sp)})
            tt = {"k": "goto", "target": t["target"], "sp": tt.get("sp", sp)}
        else:
            if "target" in tt and tt["target"] is not None:
                tt["target"] = tt["target"] + boff
            if k == "switch":
                tt["discr"] = _shift_operand(tt["discr"], off, prom_off)
                tt["targets"] = [[v, tg + boff] for v, tg in tt["targets"]]
                tt["otherwise"] = tt["otherwise"] + boff if tt.get("otherwise") is not None else None
            elif k == "call":
                tt["args"] = [_shift_operand(a, off, prom_off) for a in tt["args"]]
                tt["dest"] = _shift_place(tt["dest"], off)
                if isinstance(tt.get("callee_dyn"), dict):
                    tt["callee_dyn"] = _shift_operand(tt["callee_dyn"], off, prom_off)
            elif k == "drop":
                tt["place"] = _shift_place(tt["place"], off)
            elif k == "assert":
                tt["cond"] = _shift_operand(tt["cond"], off, prom_off)
        nb["term"] = tt
        caller["blocks"].append(nb)
    blk = caller["blocks"][bi]
    for i, a in enumerate(t["args"]):
        blk["stmts"].append({"k": "assign", "lhs": {"l": off + 1 + i, "p": []}, "rv": {"k": "use", "op": a}, "sp": sp})
    blk["term"] = {"k": "goto", "target": boff, "sp": sp}
    # a plain destination local takes the place of the helper's return slot: the helper's result assignments then are assignments of the
    # destination itself, on the helper's own branches - as if the code had been written in place
    if not t["dest"]["p"]:
        dl = t["dest"]["l"]

        def sub(x):
            if isinstance(x, dict):
                if x.get("l") == off and isinstance(x.get("p"), list):
                    x["l"] = dl
                for v in x.values():
                    sub(v)
            elif isinstance(x, list):
                for v in x:
                    sub(v)
        for nb in caller["blocks"][boff:]:
            nb["stmts"] = [st for st in nb["stmts"] if not (st["k"] == "assign" and st["lhs"] == t["dest"] and st["rv"] == {"k": "use", "op": {"move": {"l": off, "p": []}}})]
            sub(nb["stmts"])
            sub(nb["term"])


def _inline_new_helpers(j, ref, renamed_new):
    """functions that the reference table does not know (and that are no renames) are helpers somebody extracted: their bodies are inlined
    at their call sites inside this crate, so that the rules see the caller as it was before the extraction. Returns the inlined paths."""
    cur = fn_table(j)
    new = [p_ for p_ in cur if p_ not in ref and p_ not in renamed_new]
    if not new:
        return []
    by_path = {}
    for b in j["bodies"]:
        if b.get("promoted") is None:
            by_path[b["path"]] = b
    done, serial = [], 0
    for _round in range(3):
        progressed = False
        for hp in new:
            h = by_path.get(hp)
            if h is None:
                continue
            # not recursive, returns normally
            if any(blk["term"]["k"] == "call" and blk["term"].get("resolved") == hp for blk in h["blocks"]):
                continue
            sites = []
            for b in j["bodies"]:
                if b is h or b.get("promoted") is not None:
                    continue
                for bi, blk in enumerate(b["blocks"]):
                    t = blk["term"]
                    if t["k"] == "call" and t.get("resolved_local") and t.get("resolved") == hp and t.get("target") is not None and len(t["args"]) == h.get("arg_count", 0):
                        sites.append((b, bi))
            closures = [b for b in j["bodies"] if b.get("kind") == "Closure" and b.get("parent") == hp]
            proms = [b for b in j["bodies"] if b.get("promoted") is not None and b["path"] == hp]
            if not sites:
                continue
            single = len(sites) == 1
            for caller, bi in sites:
                serial += 1
                cl_map = {}
                if single:
                    for cb in closures:
                        newp = caller["path"] + "::{closure#%d}" % (1000 * serial + len(cl_map))
                        cl_map[cb["path"]] = newp
                # with several call sites the helper's closures keep their own paths (still found by definition path) and its promoted
                # constants are left behind (their shifted indices resolve to nothing rather than to a constant of the caller)
                _inline_call(caller, bi, h, serial, cl_map)
                if not single:
                    continue
                for cb in closures:
                    cb["parent"] = caller["path"]
                    cb["path"] = cl_map[cb["path"]]
                for pb in proms:
                    pb["path"] = caller["path"]
                    pb["promoted"] = pb["promoted"] + 1000 * serial
                    for k_ in ("impl_self", "impl_trait", "impl_trait_ref"):
                        if k_ in caller:
                            pb[k_] = caller[k_]
                        else:
                            pb.pop(k_, None)
            done.append(hp)
            progressed = True
        new = [p_ for p_ in new if p_ not in done]
        if not progressed:
            break
    return done


class Program:
    def __init__(self, fact_files):
        self.crates = {}
        self.bodies = []
        self.adts = {}
        self.impls = []
        self.consts = {}
        self.renamed = {}
        self.stats = {"bodies": 0, "blocks": 0, "calls": 0, "unresolved": 0}
        table = None
        tp = os.path.join(os.path.dirname(os.path.abspath(__file__)), "anchor_table.json")
        if os.path.exists(tp) and os.environ.get("VERIF_NO_RENAME_MAP") != "1":
            try:
                table = json.load(open(tp))
            except ValueError:
                table = None
        loaded, ren, inl = _load_facts(list(fact_files), table)
        self.renamed.update(ren)
        self.inlined = list(inl)
        for j in loaded:
            label = j["crate"]
            self.crates[label] = j
            for k, kk in (("bodies", "n_bodies"), ("blocks", "n_blocks"), ("calls", "n_calls"), ("unresolved", "n_unresolved")):
                self.stats[k] += j[kk]
            for b in j["bodies"]:
                self.bodies.append(Body(b, label))
            for a in j["adts"]:
                self.adts[(label, a["path"])] = a
            for i in j["impls"]:
                i["crate"] = label
                self.impls.append(i)
            for c in j["consts"]:
                self.consts[(label, c["path"])] = c
        # closures inherit the canonical name of their parent
        canon = {(b.crate, b.path): b.npath for b in self.bodies if b.promoted is None and b.kind != "Closure"}
        for b in sorted((b for b in self.bodies if b.kind == "Closure"), key=lambda b: len(b.path)):
            par = b.j.get("parent")
            base = canon.get((b.crate, par))
            if base is not None:
                b.npath = base + "::" + b.name
            if b.promoted is None:
                canon[(b.crate, b.path)] = b.npath
        self._by_path = defaultdict(list)
        for b in self.bodies:
            if b.promoted is None:
                self._by_path[b.npath].append(b)

    # -- lookup -------------------------------------------------------------------------------
    def find_fns(self, anchor, crate=None):
        """all non-promoted bodies whose normalised path equals `anchor` or ends with `::anchor`"""
        out = []
        for p, bs in self._by_path.items():
            if p == anchor or p.endswith("::" + anchor):
                for b in bs:
                    if crate is None or b.crate.startswith(crate):
                        out.append(b)
        return out

    def fn(self, anchor, crate=None):
        fs = self.find_fns(anchor, crate)
        if len(fs) != 1:
            raise AnchorError("anchor `%s`%s: expected exactly one function, found %d%s" % (
                anchor, " in %s" % crate if crate else "", len(fs),
                "" if not fs else " (" + ", ".join(f.path for f in fs) + ")"))
        return fs[0]

    def impl_fn(self, self_ty, trait, name, ref_contains=None):
        """trait-impl method by (module-free Self type, trait last segment, method name)"""
        out = []
        for b in self.bodies:
            if b.promoted is not None or b.kind != "AssocFn" or b.name != name or not b.impl_trait:
                continue
            if strip_generic_params(strip_mods(b.impl_self)) != self_ty:
                continue
            if not (b.impl_trait == trait or b.impl_trait.endswith("::" + trait)):
                continue
            if ref_contains and ref_contains not in b.impl_trait_ref:
                continue
            out.append(b)
        if len(out) != 1:
            raise AnchorError("anchor `<%s as %s>::%s`: expected exactly one, found %d" % (self_ty, trait, name, len(out)))
        return out[0]

    def closures_of(self, body):
        pre = body.npath + "::{closure#"
        out = []
        for b in self.bodies:
            if b.promoted is None and b.crate == body.crate and b.npath.startswith(pre):
                out.append(b)
        return out

    def promoted_of(self, body):
        return [b for b in self.bodies if b.promoted is not None and b.path == body.path and b.crate == body.crate]

    def body_by_def(self, def_path, crate):
        for b in self.bodies:
            if b.promoted is None and b.path == def_path and b.crate == crate:
                return b
        return None

    def field_by_type(self, adt_name, ty, default=None, nth=None):
        """name of the field of struct `adt_name` whose type (generic arguments kept, module paths stripped) equals `ty`; private fields are
        bound by their type where that is unique, so that a rename does not lose the anchor. `nth` selects among several in declaration
        order; otherwise `default` is returned when the type is not unique."""
        try:
            a = self.adt(adt_name)
        except AnchorError:
            return default
        hits = [f["name"] for f in a["variants"][0]["fields"] if strip_mods(f["ty"]) == ty]
        if nth is not None and len(hits) > nth:
            return hits[nth]
        return hits[0] if len(hits) == 1 else default

    def adt(self, name, crate=None):
        out = []
        for (c, p), a in self.adts.items():
            if (p == name or p.endswith("::" + name)) and (crate is None or c.startswith(crate)):
                out.append(a)
        if len(out) != 1:
            raise AnchorError("anchor type `%s`: expected exactly one, found %d" % (name, len(out)))
        return out[0]

    def const(self, name, crate=None):
        out = []
        for (c, p), a in self.consts.items():
            if (p == name or p.endswith("::" + name)) and (crate is None or c.startswith(crate)):
                out.append(a)
        if len(out) != 1:
            raise AnchorError("anchor const `%s`: expected exactly one, found %d" % (name, len(out)))
        return ConstVal(out[0])

    def impls_of(self, trait_suffix=None, self_ty=None):
        out = []
        for i in self.impls:
            if trait_suffix is not None:
                t = i.get("trait")
                if not t or not (t == trait_suffix or t.endswith("::" + trait_suffix)):
                    continue
            if self_ty is not None and strip_mods(i["self_ty"]) != self_ty:
                continue
            out.append(i)
        return out

    def all_calls(self, pred, crates=None):
        """yield (body, bb, term) for every call whose short callee name satisfies pred"""
        for b in self.bodies:
            if crates and not any(b.crate.startswith(c) for c in crates):
                continue
            for bi, t in b.calls():
                nm = callee_name(t)
                if nm and pred(nm):
                    yield b, bi, t


def callee_name(t, resolved=True):
    """short, module-free callee name; resolved instance preferred"""
    p = (t.get("resolved") if resolved else None) or t.get("callee")
    if not p:
        return None
    return short_callee(p)


def call_name(t):
    """canonical callee name used in origin trees: trait calls as `<Self as Trait>::method` built
    from the *unresolved* callee (stable against which impl std picks), everything else as the
    short resolved path"""
    if "trait" in t and "assoc" in t:
        tr = split_path(strip_mods(t["trait"]))[-1]
        st = strip_mods(t.get("self_ty", "_"))
        return "<%s as %s>::%s" % (st, tr, t["assoc"])
    if "assoc" in t and "self_ty" in t:
        st = strip_mods(t["self_ty"])
        if st.startswith("["):
            st = "slice"
        elif st.startswith("&") or st.startswith("*"):
            st = st.lstrip("&*").replace("mut ", "").replace("const ", "")
            st = "slice" if st.startswith("[") else st
        return "%s::%s" % (strip_generic_params(st), t["assoc"])
    return callee_name(t)


def mname(t):
    """`Trait::method` / `Type::method` / `function` of a call terminator"""
    n = call_name(t)
    return None if n is None else method_name(n)


def callee_base(t, resolved=True):
    n = callee_name(t, resolved)
    return None if n is None else strip_generics(n)


# ---------------------------------------------------------------------------------------------
# origin trees
# ---------------------------------------------------------------------------------------------
class Node:
    """value provenance node.
    kind: const | arg | local | call | field | deref | ref | agg | bin | un | discr | cast | phi |
          index | variant | unknown"""
    __slots__ = ("kind", "a", "kids", "at", "owner")

    def __init__(self, kind, a=None, kids=(), at=None, owner=None):
        self.kind = kind
        self.a = a
        self.kids = list(kids)
        self.at = at
        self.owner = owner

    def walk(self):
        yield self
        for k in self.kids:
            yield from k.walk()

    def calls(self):
        return [n for n in self.walk() if n.kind == "call"]

    def call_names(self):
        return [n.a for n in self.walk() if n.kind == "call"]

    def has_call(self, *methods):
        """any call node whose method_name is one of `methods`"""
        return any(n.kind == "call" and method_name(n.a) in methods for n in self.walk())

    def leaves(self):
        return [n for n in self.walk() if not n.kids]

    def show(self):
        k = self.kind
        if k == "const":
            return self.a.describe()
        if k == "arg":
            return "arg%s" % (self.a,)
        if k == "local":
            return "%s" % (self.a,)
        if k == "call":
            return "%s(%s)" % (strip_generics(self.a), ", ".join(x.show() for x in self.kids))
        if k == "field":
            return "%s.%s" % (self.kids[0].show(), self.a)
        if k == "variant":
            return "(%s as %s)" % (self.kids[0].show(), self.a)
        if k == "deref":
            return "*%s" % self.kids[0].show()
        if k == "ref":
            return "&%s" % self.kids[0].show()
        if k == "agg":
            return "%s{%s}" % (self.a, ", ".join(x.show() for x in self.kids))
        if k == "bin":
            return "%s(%s, %s)" % (self.a, self.kids[0].show(), self.kids[1].show())
        if k == "un":
            return "%s(%s)" % (self.a, self.kids[0].show())
        if k == "discr":
            return "discr(%s)" % self.kids[0].show()
        if k == "cast":
            return "cast(%s)" % self.kids[0].show()
        if k == "phi":
            return "phi[%s](%s)" % (self.a, " | ".join(x.show() for x in self.kids))
        if k == "index":
            return "%s[%s]" % (self.kids[0].show(), self.kids[1].show())
        return "?%s" % (self.a,)


class Origins:
    """origin trees for one body. Temporaries with a single whole-local definition are expanded;
    arguments are leaves; locals with several definitions become phi nodes over their
    definitions (each expanded once; cycles cut with a `local` leaf)."""

    def __init__(self, body, max_depth=80, only_blocks=None):
        self.b = body
        self.max_depth = max_depth
        self._cache = {}
        self._busy = set()
        # path view: only definitions in these blocks count (origin trees along one concrete CFG path have no phi nodes)
        self.only = set(only_blocks) if only_blocks is not None else None

    def operand(self, o, depth=0, stack=()):
        if "const" in o:
            return Node("const", ConstVal(o["const"]))
        pl = o.get("copy") or o.get("move")
        if pl is None:
            return Node("unknown", "operand")
        return self.place(pl, depth, stack)

    def place(self, pl, depth=0, stack=()):
        node = self.local(pl["l"], depth, stack)
        for p in pl["p"]:
            if p == "*":
                if node.kind == "ref":
                    node = node.kids[0]
                else:
                    node = Node("deref", None, [node])
            elif "n" in p:
                # field of an aggregate we know: select the operand
                if node.kind == "agg" and node.a and node.a[1] is not None and p["n"] in node.a[1]:
                    node = node.kids[node.a[1].index(p["n"])]
                elif node.kind == "agg" and node.a and node.a[0] == "tuple" and p["n"].isdigit() and int(p["n"]) < len(node.kids):
                    node = node.kids[int(p["n"])]
                else:
                    node = Node("field", p["n"], [node])
            elif "dc" in p:
                node = Node("variant", p["dc"], [node])
            elif "idx" in p:
                node = Node("index", None, [node, self.local(p["idx"], depth + 1, stack)])
            elif "cidx" in p:
                node = Node("index", None, [node, Node("const", _IntConst(p["cidx"], p["from_end"]))])
            else:
                node = Node("unknown", json.dumps(p), [node])
        return node

    def local(self, l, depth=0, stack=()):
        b = self.b
        if 1 <= l <= b.arg_count:
            # arguments may be reassigned, but that is rare; treat as leaf unless written
            if not b.defs.get(l):
                return Node("arg", l)
        if l in self._cache:
            return self._cache[l]
        if depth > self.max_depth or l in self._busy:
            return Node("local", b.lname(l))
        ds = b.defs.get(l, [])
        if self.only is not None:
            ds = [d for d in ds if d[0] in self.only]
            if not ds and 1 <= l <= b.arg_count:
                return Node("arg", l)
        whole = [d for d in ds if d[2] != "partial"]
        if not whole:
            if l == 0:
                return Node("local", "_0")
            return Node("local", b.lname(l))
        self._busy.add(l)
        try:
            if len(whole) == 1 and len(ds) == 1:
                n = self._def(whole[0], depth + 1, stack)
            else:
                kids = [self._def(d, depth + 1, stack) for d in whole]
                n = Node("phi", b.lname(l), kids)
        finally:
            self._busy.discard(l)
        self._cache[l] = n
        return n

    def _def(self, d, depth, stack):
        bb, idx, kind, payload = d
        at = (bb, idx)
        if kind == "call":
            t = payload
            name = call_name(t) or "?dyn"
            kids = [self.operand(a, depth, stack) for a in t["args"]]
            if "callee" not in t:
                kids = [self.operand(t["callee_dyn"], depth, stack)] + kids
                name = "?dyn"
            n = Node("call", name, kids, at, self.b)
            return n
        rv = payload
        return self.rvalue(rv, depth, stack, at)

    def rvalue(self, rv, depth=0, stack=(), at=None):
        k = rv["k"]
        if k == "use":
            return self.operand(rv["op"], depth, stack)
        if k == "ref":
            return Node("ref", rv["mut"], [self.place(rv["place"], depth, stack)], at)
        if k == "rawptr":
            return Node("ref", True, [self.place(rv["place"], depth, stack)], at)
        if k == "bin":
            return Node("bin", rv["op"], [self.operand(rv["a"], depth, stack), self.operand(rv["b"], depth, stack)], at)
        if k == "un":
            return Node("un", rv["op"], [self.operand(rv["a"], depth, stack)], at)
        if k == "discr":
            return Node("discr", rv, [self.place(rv["place"], depth, stack)], at)
        if k == "cast":
            return Node("cast", rv["cast"], [self.operand(rv["op"], depth, stack)], at)
        if k == "agg":
            kids = [self.operand(o, depth, stack) for o in rv["ops"]]
            if rv["agg"] == "adt":
                label = (strip_mods(rv["adt"]) + "::" + rv["variant"], rv["fields"])
            elif rv["agg"] == "closure":
                label = ("closure " + rv["def"], None)
            else:
                label = (rv["agg"], None)
            return Node("agg", label, kids, at)
        if k == "repeat":
            return Node("agg", ("repeat", None), [self.operand(rv["op"], depth, stack)], at)
        return Node("unknown", k, [], at)


class _IntConst:
    def __init__(self, v, from_end=False):
        self.v = v
        self.from_end = from_end
        self.ty = "usize"

    def as_int(self):
        return self.v

    def describe(self):
        return ("-%d" if self.from_end else "%d") % self.v

    def as_str(self):
        return None

    def as_bytes(self):
        return None

    def as_bool(self):
        return None

    def fn_item(self):
        return None


TRANSPARENT = {
    # value-preserving wrappers (type <-> reference / owned copy of the same text or value)
    "Deref::deref", "DerefMut::deref_mut", "Borrow::borrow", "AsRef::as_ref", "Clone::clone",
    "ToOwned::to_owned", "ToString::to_string", "Into::into", "From::from", "String::as_str",
    "String::as_bytes", "str::as_bytes", "Vec::as_slice", "String::from", "str::to_string",
    "str::to_owned", "String::clone", "Cow::into_owned", "Cow::from", "IntoIterator::into_iter",
}


def peel(node, extra=()):
    """strip transparent wrappers (refs, derefs, clone/to_owned/as_ref/..., casts)"""
    names = TRANSPARENT | set(extra)
    while True:
        if node.kind in ("ref", "deref", "cast") and node.kids:
            node = node.kids[0]
            continue
        if node.kind == "call" and node.kids and method_name(node.a) in names:
            node = node.kids[0]
            continue
        return node


def method_name(callee):
    """`<String as Clone>::clone` -> `Clone::clone`; `Vec::<T>::push` -> `Vec::push`;
    `<str as ToOwned>::to_owned` -> `ToOwned::to_owned`; `str::<impl str>::trim` -> `str::trim`"""
    c = strip_generics(callee)
    m = re.match(r"^<(.+) as (.+?)>::(\w+)$", c)
    if m:
        tr = strip_generics(m.group(2))
        tr = re.sub(r"<.*>$", "", tr)
        return "%s::%s" % (tr, m.group(3))
    segs = split_path(c)
    segs = [sg for sg in segs if not sg.startswith("<impl")]
    if len(segs) >= 2:
        return "%s::%s" % (segs[-2], segs[-1])
    return segs[-1]


def self_type_of(callee):
    c = callee
    m = re.match(r"^<(.+) as (.+?)>::(\w+)$", c)
    if m:
        return m.group(1)
    return None


def chain_to(node, pred):
    """names of the calls (and unary/binary operators) on the path from the first sub-node that
    satisfies `pred` up to the root, leaf-first; None when no sub-node satisfies pred"""
    if pred(node):
        return []
    for k in node.kids:
        c = chain_to(k, pred)
        if c is not None:
            if node.kind == "call":
                return c + [method_name(node.a)]
            if node.kind in ("un", "bin"):
                return c + [node.kind + ":" + str(node.a)]
            return c
    return None
