"""CFG / condition queries shared by the rules (engines E-PATH, E-SITE helpers)."""
import json

from .facts import AnchorError, Origins, Place, callee_name, method_name, peel, strip_mods


def place_key(pl):
    return (pl["l"], json.dumps(pl["p"], sort_keys=True))


def switches(body):
    for bi, b in enumerate(body.blocks):
        if b["cleanup"]:
            continue
        if b["term"]["k"] == "switch":
            yield bi, b["term"]


def discr_def(body, bb, term):
    """if the switch operand is a local defined by `discriminant(place)`, return that rvalue"""
    o = term["discr"]
    pl = o.get("copy") or o.get("move")
    if not pl or pl["p"]:
        return None
    d = body.single_def(pl["l"])
    if d and d[2] == "assign" and d[3]["k"] == "discr":
        return d[3]
    return None


def variant_edges(body, bb):
    """for a switch on an enum discriminant: ({variant: target}, rv) with every variant listed"""
    t = body.blocks[bb]["term"]
    rv = discr_def(body, bb, t)
    if rv is None:
        return None, None
    explicit = {int(v): tg for v, tg in t["targets"]}
    out = {}
    for val, name in rv["variants"]:
        out[name] = explicit.get(int(val), t["otherwise"])
    return out, rv


def bool_edges(body, bb):
    """(true_target, false_target) of a switch on a bool"""
    t = body.blocks[bb]["term"]
    if t["k"] != "switch" or t["ty"] != "bool":
        return None
    f = None
    tr = None
    for v, tg in t["targets"]:
        if int(v) == 0:
            f = tg
        else:
            tr = tg
    if tr is None:
        tr = t["otherwise"]
    if f is None:
        f = t["otherwise"]
    return tr, f


def cond_tree(body, bb, origins=None):
    o = origins or Origins(body)
    return o.operand(body.blocks[bb]["term"]["discr"])


def aggregates(body, adt=None, variant=None):
    """yield (bb, si, rv) for ADT aggregates matching the (module-free) adt name / variant"""
    for bi, b in enumerate(body.blocks):
        if b["cleanup"]:
            continue
        for si, st in enumerate(b["stmts"]):
            if st["k"] != "assign":
                continue
            rv = st["rv"]
            if rv["k"] == "agg" and rv["agg"] == "adt":
                name = strip_mods(rv["adt"])
                if adt is not None and name != adt and not name.endswith("::" + adt):
                    continue
                if variant is not None and rv["variant"] != variant:
                    continue
                yield bi, si, rv


def calls_named(body, pred):
    """yield (bb, term) for calls whose method_name / short name satisfies pred(name, term)"""
    for bi, t in body.calls():
        n = callee_name(t)
        if n is None:
            continue
        if pred(n):
            yield bi, t


def reach_consistent(body, start, facts, removed_edges=()):
    """reachability from block `start` where `facts` maps place_key -> variant name known to hold;
    a switch on the discriminant of such a place is followed only along the consistent edge."""
    removed_edges = set(removed_edges)
    seen = set()
    todo = [start]
    while todo:
        b = todo.pop()
        if b in seen:
            continue
        seen.add(b)
        t = body.blocks[b]["term"]
        nxt = body.succ(b)
        if t["k"] == "switch":
            ve, rv = variant_edges(body, b)
            if ve is not None and place_key(rv["place"]) in facts:
                nxt = [ve[facts[place_key(rv["place"])]]]
        for s in nxt:
            if (b, s) in removed_edges:
                continue
            if s not in seen:
                todo.append(s)
    return seen


def only_via(body, edge, block):
    """True iff `block` is unreachable from entry once `edge` is removed (and reachable with it)"""
    return block in body.reachable(0) and block not in body.reachable(0, removed_edges=[edge])


def edge_list(body):
    for b in body.reachable(0):
        for s in body.succ(b):
            yield (b, s)


def stmt_loc(body, bb, si):
    if si == "term":
        return body.loc(bb)
    return body.loc(bb, body.blocks[bb]["stmts"][si]["sp"])


def assigns_to_return(body):
    """yield (bb, si, kind, payload) of every whole write to _0"""
    for d in body.defs.get(0, []):
        yield d


def result_variant_blocks(body, variant):
    """blocks where `_0 = Result::<variant>{..}` is assigned directly"""
    out = []
    for bb, si, kind, payload in body.defs.get(0, []):
        if kind == "assign" and payload["k"] == "agg" and payload["agg"] == "adt" and payload["variant"] == variant \
                and strip_mods(payload["adt"]).endswith("Result"):
            out.append((bb, si, payload))
    return out


def promoted_tree(prog, body, constval):
    """origin tree of the value a promoted constant evaluates to (`&Some(Stderr)` etc.)"""
    j = constval.j
    if "promoted" not in j:
        return None
    for pb in prog.promoted_of(body):
        if pb.promoted == j["promoted"]:
            o = Origins(pb)
            return o.local(0)
    return None
