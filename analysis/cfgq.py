"""CFG / condition queries shared by the rules (engines E-PATH, E-SITE helpers)."""
import json

from .facts import AnchorError, Origins, Place, callee_name, method_name, peel, strip_mods


def place_key(pl):
    return (pl["l"], json.dumps(pl["p"], sort_keys=True))


def switches(body):
    for bi, b in enumerate(body.blocks):
        if b["cleanup"]:
            continue
        if b["term"]["k"] == "switch":
            yield bi, b["term"]


def discr_def(body, bb, term):
    """if the switch operand is a local defined by `discriminant(place)`, return that rvalue"""
    o = term["discr"]
    pl = o.get("copy") or o.get("move")
    if not pl or pl["p"]:
        return None
    d = body.single_def(pl["l"])
    if d and d[2] == "assign" and d[3]["k"] == "discr":
        return d[3]
    return None


def variant_edges(body, bb):
    """for a switch on an enum discriminant: ({variant: target}, rv) with every variant listed"""
    t = body.blocks[bb]["term"]
    rv = discr_def(body, bb, t)
    if rv is None:
        return None, None
    explicit = {int(v): tg for v, tg in t["targets"]}
    out = {}
    for val, name in rv["variants"]:
        out[name] = explicit.get(int(val), t["otherwise"])
    return out, rv


def bool_edges(body, bb):
    """(true_target, false_target) of a switch on a bool"""
    t = body.blocks[bb]["term"]
    if t["k"] != "switch" or t["ty"] != "bool":
        return None
    f = None
    tr = None
    for v, tg in t["targets"]:
        if int(v) == 0:
            f = tg
        else:
            tr = tg
    if tr is None:
        tr = t["otherwise"]
    if f is None:
        f = t["otherwise"]
    return tr, f


def cond_tree(body, bb, origins=None):
    o = origins or Origins(body)
    return o.operand(body.blocks[bb]["term"]["discr"])


def aggregates(body, adt=None, variant=None):
    """yield (bb, si, rv) for ADT aggregates matching the (module-free) adt name / variant"""
    for bi, b in enumerate(body.blocks):
        if b["cleanup"]:
            continue
        for si, st in enumerate(b["stmts"]):
            if st["k"] != "assign":
                continue
            rv = st["rv"]
            if rv["k"] == "agg" and rv["agg"] == "adt":
                name = strip_mods(rv["adt"])
                if adt is not None and name != adt and not name.endswith("::" + adt):
                    continue
                if variant is not None and rv["variant"] != variant:
                    continue
                yield bi, si, rv


def calls_named(body, pred):
    """yield (bb, term) for calls whose method_name / short name satisfies pred(name, term)"""
    for bi, t in body.calls():
        n = callee_name(t)
        if n is None:
            continue
        if pred(n):
            yield bi, t


def reach_consistent(body, start, facts, removed_edges=()):
    """reachability from block `start` where `facts` maps place_key -> variant name known to hold;
    a switch on the discriminant of such a place is followed only along the consistent edge."""
    removed_edges = set(removed_edges)
    seen = set()
    todo = [start]
    while todo:
        b = todo.pop()
        if b in seen:
            continue
        seen.add(b)
        t = body.blocks[b]["term"]
        nxt = body.succ(b)
        if t["k"] == "switch":
            ve, rv = variant_edges(body, b)
            if ve is not None and place_key(rv["place"]) in facts:
                nxt = [ve[facts[place_key(rv["place"])]]]
        for s in nxt:
            if (b, s) in removed_edges:
                continue
            if s not in seen:
                todo.append(s)
    return seen


def only_via(body, edge, block):
    """True iff `block` is unreachable from entry once `edge` is removed (and reachable with it)"""
    return block in body.reachable(0) and block not in body.reachable(0, removed_edges=[edge])


def edge_list(body):
    for b in body.reachable(0):
        for s in body.succ(b):
            yield (b, s)


def stmt_loc(body, bb, si):
    if si == "term":
        return body.loc(bb)
    return body.loc(bb, body.blocks[bb]["stmts"][si]["sp"])


def assigns_to_return(body):
    """yield (bb, si, kind, payload) of every whole write to _0"""
    for d in body.defs.get(0, []):
        yield d


def result_variant_blocks(body, variant):
    """blocks where `_0 = Result::<variant>{..}` is assigned directly"""
    out = []
    for bb, si, kind, payload in body.defs.get(0, []):
        if kind == "assign" and payload["k"] == "agg" and payload["agg"] == "adt" and payload["variant"] == variant \
                and strip_mods(payload["adt"]).endswith("Result"):
            out.append((bb, si, payload))
    return out


def promoted_tree(prog, body, constval):
    """origin tree of the value a promoted constant evaluates to (`&Some(Stderr)` etc.)"""
    j = constval.j
    if "promoted" not in j:
        return None
    for pb in prog.promoted_of(body):
        if pb.promoted == j["promoted"]:
            o = Origins(pb)
            return o.local(0)
    return None


# ---------------------------------------------------------------------------------------------
# path-sensitive exploration (small): enum-variant facts about places and constant bool locals
# ---------------------------------------------------------------------------------------------
_PROG = [None]


def set_program(prog):
    """make promoted constants resolvable inside explore() (enum equality against `&Enum::Variant` constants)"""
    _PROG[0] = prog


def _enum_eq_result(body, t, vf):
    """for `<Enum as PartialEq>::eq/ne(&place, &CONST_VARIANT)`: the boolean result when the variant of `place` is known
    and decides the comparison (different variants, or the same field-less variant); else None"""
    from .facts import mname, Origins, peel
    m = mname(t)
    if m not in ("PartialEq::eq", "PartialEq::ne") or len(t["args"]) != 2 or _PROG[0] is None:
        return None

    def target(op):
        pl = op.get("copy") or op.get("move")
        if pl is None:
            return None
        c = body.canon_place(pl)
        for _ in range(4):
            if c["p"]:
                return c
            d = body.single_def(c["l"])
            if d and d[2] == "assign" and d[3]["k"] == "ref":
                c = body.canon_place(d[3]["place"])
                continue
            return c
        return c
    sides = [target(a) for a in t["args"]]
    consts = []
    o = Origins(body)
    for a in t["args"]:
        n = peel(o.operand(a))
        v = None
        if n.kind == "const":
            pt = promoted_tree(_PROG[0], body, n.a)
            if pt is not None:
                q = peel(pt)
                if q.kind == "agg" and "::" in q.a[0]:
                    v = (q.a[0].split("::")[-1], len(q.kids))
        consts.append(v)
    for i in (0, 1):
        c, other = sides[i], consts[1 - i]
        if c is None or other is None:
            continue
        known = vf.get(place_key(c))
        if known is None:
            continue
        if known != other[0]:
            return m == "PartialEq::ne"
        if other[1] == 0:
            return m == "PartialEq::eq"
    return None


def explore(body, start, facts=None, removed_edges=(), removed_blocks=(), learn=True, limit=50000, assume=None):
    """Blocks reachable from `start` on paths consistent with
       * `facts`: {place_key: variant} known on entry (and, if `learn`, learnt at discriminant
         switches on the way), and
       * constant bools: a local assigned `const true/false` decides a later `switch` on it
         (the lowering of `matches!`, `&&`, `||`, drop flags).
    A fact is dropped when the base local of its place is (re)assigned. Returns {block: [states]}."""
    removed_edges = set(removed_edges)
    removed_blocks = set(removed_blocks)
    init = (frozenset((facts or {}).items()), frozenset())
    seen = {}
    todo = [(start, init)]
    n = 0
    while todo:
        b, st = todo.pop()
        if b in removed_blocks:
            continue
        if st in seen.setdefault(b, set()):
            continue
        seen[b].add(st)
        n += 1
        if n > limit:
            raise RuntimeError("explore: state limit exceeded in %s" % body.npath)
        vf, bf = dict(st[0]), dict(st[1])
        blk = body.blocks[b]
        for s in blk["stmts"]:
            if s["k"] in ("assign", "setdiscr"):
                l = s["lhs"]["l"]
                whole = not s["lhs"]["p"]
                for k in [k for k in vf if k[0] == l]:
                    del vf[k]
                if whole:
                    bf.pop(l, None)
                    rv = s.get("rv")
                    # an enum value built or copied here carries its variant (`let x = if c { Some(..) } else { None }; if let Some(..) = x`)
                    if rv and rv["k"] == "agg" and rv.get("agg") == "adt" and rv.get("variant"):
                        vf[(l, "[]")] = rv["variant"].split("::")[-1]
                    elif rv and rv["k"] == "use" and ("copy" in rv["op"] or "move" in rv["op"]):
                        src0 = rv["op"].get("copy") or rv["op"].get("move")
                        if not src0["p"] and (src0["l"], "[]") in vf:
                            vf[(l, "[]")] = vf[(src0["l"], "[]")]
                    if rv and rv["k"] == "use" and "const" in rv["op"] and rv["op"]["const"]["ty"] == "bool":
                        v = rv["op"]["const"].get("val", {})
                        if v.get("kind") == "int":
                            bf[l] = bool(int(v["bits"]))
                    elif rv and rv["k"] == "use" and ("copy" in rv["op"] or "move" in rv["op"]):
                        src = rv["op"].get("copy") or rv["op"].get("move")
                        if not src["p"] and src["l"] in bf:
                            bf[l] = bf[src["l"]]
                    elif rv and rv["k"] == "un" and rv["op"] == "Not":
                        src = rv["a"].get("copy") or rv["a"].get("move")
                        if src and not src["p"] and src["l"] in bf:
                            bf[l] = not bf[src["l"]]
        t = blk["term"]
        if t["k"] == "call":
            l = t["dest"]["l"]
            r = _enum_eq_result(body, t, vf) if vf else None
            if assume and b in assume:
                # hypothesis: the bool returned by the call in this block (`explore(.., assume={call_block: True})`)
                r = assume[b]
            # `?` plumbing carries the variant: Try::branch(Err(..)) is Break, Try::branch(Ok(..)) is Continue, from_residual builds Err / None
            carried = None
            from .facts import mname as _mn
            mm = _mn(t)
            if not t["dest"]["p"]:
                if mm == "FromResidual::from_residual":
                    dty = body.lty(l)
                    carried = "Err" if "Result<" in dty else ("None" if "Option<" in dty else None)
                elif mm == "Try::branch" and t["args"]:
                    a0 = t["args"][0].get("move") or t["args"][0].get("copy")
                    if a0 is not None and not a0["p"]:
                        src_v = vf.get((a0["l"], "[]"))
                        carried = {"Err": "Break", "None": "Break", "Ok": "Continue", "Some": "Continue"}.get(src_v)
            for k in [k for k in vf if k[0] == l]:
                del vf[k]
            bf.pop(l, None)
            if carried is not None:
                vf[(l, "[]")] = carried
            if r is not None and not t["dest"]["p"]:
                bf[l] = bool(r)
        outs = []
        if t["k"] == "switch":
            ve, rv = variant_edges(body, b)
            o = t["discr"]
            pl = o.get("copy") or o.get("move")
            if ve is not None:
                pk = place_key(rv["place"])
                if pk not in vf:
                    # `match &x { .. }`: the discriminant is read through a reference temporary; facts are keyed by the referent
                    pp = rv["place"]
                    if pp["p"] == ["*"]:
                        d0 = body.single_def(pp["l"])
                        if d0 and d0[2] == "assign" and d0[3]["k"] == "ref" and "*" not in d0[3]["place"]["p"]:
                            pk2 = place_key(d0[3]["place"])
                            if pk2 in vf:
                                pk = pk2
                if pk in vf:
                    outs = [(ve[vf[pk]], vf, bf)]
                else:
                    by_target = {}
                    for vname, tg in ve.items():
                        by_target.setdefault(tg, []).append(vname)
                    for tg, names in by_target.items():
                        nvf = dict(vf)
                        if learn and len(names) == 1:
                            nvf[pk] = names[0]
                        outs.append((tg, nvf, bf))
            elif t["ty"] == "bool" and pl is not None and not pl["p"]:
                tt, tf = bool_edges(body, b)
                if pl["l"] in bf:
                    outs = [((tt if bf[pl["l"]] else tf), vf, bf)]
                else:
                    moved = "move" in o
                    for val, tg in ((True, tt), (False, tf)):
                        nbf = dict(bf)
                        if not moved:
                            nbf[pl["l"]] = val
                        outs.append((tg, vf, nbf))
            else:
                outs = [(s2, vf, bf) for s2 in body.succ(b)]
        else:
            outs = [(s2, vf, bf) for s2 in body.succ(b)]
        for s2, nvf, nbf in outs:
            if (b, s2) in removed_edges or s2 in removed_blocks:
                continue
            todo.append((s2, (frozenset(nvf.items()), frozenset(nbf.items()))))
    return seen


def reach_consistent(body, start, facts, removed_edges=(), removed_blocks=()):  # noqa: F811 (supersedes the simple version)
    return set(explore(body, start, facts, removed_edges, removed_blocks).keys())


def const_str_of(prog, body, node):
    """string value of a (possibly promoted) constant node, else None"""
    from .facts import peel
    n = peel(node)
    if n.kind != "const":
        return None
    v = n.a.as_str()
    if v is not None:
        return v
    pt = promoted_tree(prog, body, n.a)
    if pt is not None:
        q = peel(pt)
        if q.kind == "const":
            return q.a.as_str()
    return None
