// mirfacts: a rustc_private driver that dumps the resolved, type-checked program (MIR at
// mir-opt-level=0, ADT layouts, trait impls, evaluated constants) of the crate being compiled
// as one JSON file. It contains no rules: it is a faithful export; all verification rules live
// in /verif/analysis. Used as RUSTC_WORKSPACE_WRAPPER under `cargo +nightly check`.
#![feature(rustc_private)]
#![allow(clippy::all)]

extern crate rustc_abi;
extern crate rustc_driver;
extern crate rustc_hir;
extern crate rustc_interface;
extern crate rustc_middle;
extern crate rustc_session;
extern crate rustc_span;

use std::fmt::Write as _;

use rustc_driver::Compilation;
use rustc_hir::def::DefKind;
use rustc_hir::def_id::{DefId, LOCAL_CRATE};
use rustc_middle::mir::interpret::{GlobalAlloc, Scalar};
use rustc_middle::mir::{
    self, AggregateKind, BasicBlockData, Body, Const, ConstValue, Operand, Place, ProjectionElem,
    Rvalue, StatementKind, TerminatorKind,
};
use rustc_middle::ty::{self, Instance, Ty, TyCtxt, TypingEnv};
use rustc_span::Span;

// ---------------------------------------------------------------------------------------------
// minimal JSON value
// ---------------------------------------------------------------------------------------------
#[derive(Clone)]
enum J {
    Null,
    B(bool),
    N(i128),
    S(String),
    A(Vec<J>),
    O(Vec<(&'static str, J)>),
}

fn s<T: Into<String>>(x: T) -> J {
    J::S(x.into())
}

impl J {
    fn write(&self, out: &mut String) {
        match self {
            J::Null => out.push_str("null"),
            J::B(b) => out.push_str(if *b { "true" } else { "false" }),
            J::N(n) => {
                let _ = write!(out, "{}", n);
            }
            J::S(st) => {
                out.push('"');
                for c in st.chars() {
                    match c {
                        '"' => out.push_str("\\\""),
                        '\\' => out.push_str("\\\\"),
                        '\n' => out.push_str("\\n"),
                        '\r' => out.push_str("\\r"),
                        '\t' => out.push_str("\\t"),
                        c if (c as u32) < 0x20 => {
                            let _ = write!(out, "\\u{:04x}", c as u32);
                        }
                        c => out.push(c),
                    }
                }
                out.push('"');
            }
            J::A(v) => {
                out.push('[');
                for (i, x) in v.iter().enumerate() {
                    if i > 0 {
                        out.push(',');
                    }
                    x.write(out);
                }
                out.push(']');
            }
            J::O(v) => {
                out.push('{');
                for (i, (k, x)) in v.iter().enumerate() {
                    if i > 0 {
                        out.push(',');
                    }
                    out.push('"');
                    out.push_str(k);
                    out.push_str("\":");
                    x.write(out);
                }
                out.push('}');
            }
        }
    }
}

fn hex(bytes: &[u8]) -> String {
    let mut o = String::with_capacity(bytes.len() * 2);
    for b in bytes {
        let _ = write!(o, "{:02x}", b);
    }
    o
}

// ---------------------------------------------------------------------------------------------
// exporter
// ---------------------------------------------------------------------------------------------
struct Ex<'tcx> {
    tcx: TyCtxt<'tcx>,
    n_bodies: usize,
    n_blocks: usize,
    n_calls: usize,
    n_unresolved: usize,
}

impl<'tcx> Ex<'tcx> {
    fn span(&self, sp: Span) -> J {
        // walk out of macro expansions to the user-written call site
        let mut root = sp;
        let mut guard = 0;
        while root.from_expansion() && guard < 32 {
            root = root.source_callsite();
            guard += 1;
        }
        let sm = self.tcx.sess.source_map();
        let lo = sm.lookup_char_pos(root.lo());
        let hi = sm.lookup_char_pos(root.hi());
        let file = match &lo.file.name {
            rustc_span::FileName::Real(r) => match r.local_path() {
                Some(p) => p.to_string_lossy().to_string(),
                None => format!("{:?}", r),
            },
            other => format!("{:?}", other),
        };
        let mut v = vec![
            ("file", s(file)),
            ("line", J::N(lo.line as i128)),
            ("col", J::N(lo.col.0 as i128 + 1)),
            ("eline", J::N(hi.line as i128)),
        ];
        if sp.from_expansion() {
            let data = sp.ctxt().outer_expn_data();
            let mut outer = data.clone();
            let mut cur = sp;
            let mut g = 0;
            // outermost macro name
            while cur.from_expansion() && g < 32 {
                outer = cur.ctxt().outer_expn_data();
                cur = cur.source_callsite();
                g += 1;
            }
            v.push(("exp", s(format!("{:?}", data.kind))));
            v.push(("exp_outer", s(format!("{:?}", outer.kind))));
        }
        J::O(v)
    }

    fn short_span(&self, sp: Span) -> J {
        let mut root = sp;
        let mut guard = 0;
        while root.from_expansion() && guard < 32 {
            root = root.source_callsite();
            guard += 1;
        }
        let sm = self.tcx.sess.source_map();
        let lo = sm.lookup_char_pos(root.lo());
        let mut v = vec![J::N(lo.line as i128), J::N(lo.col.0 as i128 + 1)];
        if sp.from_expansion() {
            let mut outer = sp.ctxt().outer_expn_data();
            let mut cur = sp;
            let mut g = 0;
            while cur.from_expansion() && g < 32 {
                outer = cur.ctxt().outer_expn_data();
                cur = cur.source_callsite();
                g += 1;
            }
            v.push(s(format!("{:?}", outer.kind)));
        }
        J::A(v)
    }

    fn ty(&self, t: Ty<'tcx>) -> J {
        s(format!("{}", t))
    }

    fn def_path(&self, d: DefId) -> String {
        self.tcx.def_path_str(d)
    }

    fn place(&self, body: &Body<'tcx>, p: &Place<'tcx>) -> J {
        let mut proj = vec![];
        let mut pty = mir::PlaceTy::from_ty(body.local_decls[p.local].ty);
        for elem in p.projection.iter() {
            let j = match elem {
                ProjectionElem::Deref => s("*"),
                ProjectionElem::Field(f, fty) => {
                    let mut name = format!("{}", f.index());
                    if let ty::Adt(adt, _) = pty.ty.kind() {
                        let vidx = pty.variant_index.unwrap_or(rustc_abi::FIRST_VARIANT);
                        if adt.variants().len() > vidx.index() {
                            let v = adt.variant(vidx);
                            if v.fields.len() > f.index() {
                                name = v.fields[f].name.to_string();
                            }
                        }
                    }
                    J::O(vec![
                        ("f", J::N(f.index() as i128)),
                        ("n", s(name)),
                        ("ty", self.ty(fty)),
                    ])
                }
                ProjectionElem::Index(l) => J::O(vec![("idx", J::N(l.index() as i128))]),
                ProjectionElem::ConstantIndex { offset, min_length, from_end } => J::O(vec![
                    ("cidx", J::N(offset as i128)),
                    ("min", J::N(min_length as i128)),
                    ("from_end", J::B(from_end)),
                ]),
                ProjectionElem::Subslice { from, to, from_end } => J::O(vec![
                    ("sub_from", J::N(from as i128)),
                    ("sub_to", J::N(to as i128)),
                    ("from_end", J::B(from_end)),
                ]),
                ProjectionElem::Downcast(name, vidx) => J::O(vec![
                    ("dc", s(name.map(|n| n.to_string()).unwrap_or_default())),
                    ("vi", J::N(vidx.index() as i128)),
                ]),
                ProjectionElem::OpaqueCast(t) => J::O(vec![("opaque", self.ty(t))]),
                ProjectionElem::UnwrapUnsafeBinder(t) => J::O(vec![("unbind", self.ty(t))]),
            };
            proj.push(j);
            pty = pty.projection_ty(self.tcx, elem);
        }
        J::O(vec![("l", J::N(p.local.index() as i128)), ("p", J::A(proj))])
    }

    fn alloc_json(&self, alloc_id: mir::interpret::AllocId, depth: usize) -> J {
        match self.tcx.try_get_global_alloc(alloc_id) {
            Some(GlobalAlloc::Memory(mem)) => {
                let a = mem.inner();
                let size = a.size().bytes_usize();
                let cap = size.min(1 << 16);
                let bytes = a.inspect_with_uninit_and_ptr_outside_interpreter(0..cap);
                let mut ptrs = vec![];
                if depth < 4 {
                    for (off, prov) in a.provenance().ptrs().iter() {
                        let tgt = self.alloc_json(prov.alloc_id(), depth + 1);
                        ptrs.push(J::O(vec![("off", J::N(off.bytes() as i128)), ("to", tgt)]));
                    }
                }
                J::O(vec![
                    ("kind", s("memory")),
                    ("size", J::N(size as i128)),
                    ("bytes", s(hex(bytes))),
                    ("ptrs", J::A(ptrs)),
                ])
            }
            Some(GlobalAlloc::Static(d)) => {
                J::O(vec![("kind", s("static")), ("def", s(self.def_path(d)))])
            }
            Some(GlobalAlloc::Function { instance }) => J::O(vec![
                ("kind", s("fn")),
                ("def", s(self.def_path(instance.def_id()))),
            ]),
            Some(_) => J::O(vec![("kind", s("other"))]),
            None => J::O(vec![("kind", s("dangling"))]),
        }
    }

    fn const_value(&self, val: ConstValue, t: Ty<'tcx>) -> J {
        match val {
            ConstValue::ZeroSized => {
                let mut v = vec![("kind", s("zst"))];
                if let ty::FnDef(d, args) = t.kind() {
                    v.push(("fn", s(self.def_path(*d))));
                    v.push(("args", s(format!("{:?}", args))));
                }
                J::O(v)
            }
            ConstValue::Scalar(Scalar::Int(i)) => {
                let bits = i.to_bits_unchecked();
                let size = i.size().bytes();
                let mut v = vec![
                    ("kind", s("int")),
                    ("bits", s(format!("{}", bits))),
                    ("size", J::N(size as i128)),
                ];
                if t.is_signed() {
                    let shift = 128 - size * 8;
                    let signed = ((bits as i128) << shift) >> shift;
                    v.push(("signed", s(format!("{}", signed))));
                }
                if t.is_char() {
                    if let Some(c) = char::from_u32(bits as u32) {
                        v.push(("char", s(c.to_string())));
                    }
                }
                J::O(v)
            }
            ConstValue::Scalar(Scalar::Ptr(ptr, _)) => {
                let (prov, off) = ptr.into_raw_parts();
                J::O(vec![
                    ("kind", s("ptr")),
                    ("off", J::N(off.bytes() as i128)),
                    ("alloc", self.alloc_json(prov.alloc_id(), 0)),
                ])
            }
            ConstValue::Slice { alloc_id, meta } => {
                let mut v = vec![("kind", s("slice")), ("len", J::N(meta as i128))];
                if let Some(GlobalAlloc::Memory(mem)) = self.tcx.try_get_global_alloc(alloc_id) {
                    let a = mem.inner();
                    let n = (meta as usize).min(a.size().bytes_usize());
                    let elem_is_byte = match t.builtin_deref(true).map(|x| x.kind()) {
                        Some(ty::Str) => true,
                        Some(ty::Slice(e)) => *e == self.tcx.types.u8,
                        _ => false,
                    };
                    if elem_is_byte {
                        let bytes = a.inspect_with_uninit_and_ptr_outside_interpreter(0..n);
                        v.push(("bytes", s(hex(bytes))));
                        if let Ok(st) = std::str::from_utf8(bytes) {
                            v.push(("str", s(st)));
                        }
                    } else {
                        v.push(("alloc", self.alloc_json(alloc_id, 0)));
                    }
                }
                J::O(v)
            }
            ConstValue::Indirect { alloc_id, offset } => J::O(vec![
                ("kind", s("indirect")),
                ("off", J::N(offset.bytes() as i128)),
                ("alloc", self.alloc_json(alloc_id, 0)),
            ]),
        }
    }

    fn constant(&self, body: &Body<'tcx>, c: &mir::ConstOperand<'tcx>) -> J {
        let t = c.const_.ty();
        let mut v = vec![("ty", self.ty(t))];
        match c.const_ {
            Const::Unevaluated(u, _) => {
                v.push(("item", s(self.def_path(u.def))));
                if u.promoted.is_some() {
                    v.push(("promoted", J::N(u.promoted.unwrap().index() as i128)));
                }
            }
            _ => {}
        }
        let tenv = TypingEnv::post_analysis(self.tcx, body.source.def_id());
        // generic constants may not be evaluable; that is fine, we then only keep the item path
        let has_params = format!("{:?}", c.const_).contains("Param(");
        if !has_params {
            if let Ok(val) = c.const_.eval(self.tcx, tenv, c.span) {
                v.push(("val", self.const_value(val, t)));
            }
        } else if let Const::Val(val, _) = c.const_ {
            v.push(("val", self.const_value(val, t)));
        }
        J::O(v)
    }

    fn operand(&self, body: &Body<'tcx>, o: &Operand<'tcx>) -> J {
        match o {
            Operand::Copy(p) => J::O(vec![("copy", self.place(body, p))]),
            Operand::Move(p) => J::O(vec![("move", self.place(body, p))]),
            Operand::Constant(c) => J::O(vec![("const", self.constant(body, c))]),
            #[allow(unreachable_patterns)]
            other => J::O(vec![("other", s(format!("{:?}", other)))]),
        }
    }

    fn variants_of(&self, t: Ty<'tcx>) -> J {
        let mut out = vec![];
        if let ty::Adt(adt, _) = t.kind() {
            if adt.is_enum() {
                for (vidx, discr) in adt.discriminants(self.tcx) {
                    out.push(J::A(vec![
                        s(format!("{}", discr.val)),
                        s(adt.variant(vidx).name.to_string()),
                    ]));
                }
            }
        }
        J::A(out)
    }

    fn rvalue(&self, body: &Body<'tcx>, rv: &Rvalue<'tcx>) -> J {
        match rv {
            Rvalue::Use(o, ..) => J::O(vec![("k", s("use")), ("op", self.operand(body, o))]),
            Rvalue::Repeat(o, n) => J::O(vec![
                ("k", s("repeat")),
                ("op", self.operand(body, o)),
                ("n", s(format!("{:?}", n))),
            ]),
            Rvalue::Ref(_, bk, p) => J::O(vec![
                ("k", s("ref")),
                ("mut", J::B(matches!(bk, mir::BorrowKind::Mut { .. }))),
                ("place", self.place(body, p)),
            ]),
            Rvalue::ThreadLocalRef(d) => {
                J::O(vec![("k", s("tls")), ("def", s(self.def_path(*d)))])
            }
            Rvalue::RawPtr(_, p) => J::O(vec![("k", s("rawptr")), ("place", self.place(body, p))]),
            Rvalue::Cast(kind, o, t) => J::O(vec![
                ("k", s("cast")),
                ("cast", s(format!("{:?}", kind))),
                ("op", self.operand(body, o)),
                ("ty", self.ty(*t)),
            ]),
            Rvalue::BinaryOp(op, ab) => J::O(vec![
                ("k", s("bin")),
                ("op", s(format!("{:?}", op))),
                ("a", self.operand(body, &ab.0)),
                ("b", self.operand(body, &ab.1)),
            ]),
            Rvalue::UnaryOp(op, o) => J::O(vec![
                ("k", s("un")),
                ("op", s(format!("{:?}", op))),
                ("a", self.operand(body, o)),
            ]),
            Rvalue::Discriminant(p) => {
                let t = p.ty(body, self.tcx).ty;
                J::O(vec![
                    ("k", s("discr")),
                    ("place", self.place(body, p)),
                    ("ty", self.ty(t)),
                    ("variants", self.variants_of(t)),
                ])
            }
            Rvalue::Aggregate(kind, ops) => {
                let mut v = vec![("k", s("agg"))];
                match &**kind {
                    AggregateKind::Array(t) => {
                        v.push(("agg", s("array")));
                        v.push(("ty", self.ty(*t)));
                    }
                    AggregateKind::Tuple => v.push(("agg", s("tuple"))),
                    AggregateKind::Adt(d, vidx, _args, _, active) => {
                        let adt = self.tcx.adt_def(*d);
                        let variant = adt.variant(*vidx);
                        v.push(("agg", s("adt")));
                        v.push(("adt", s(self.def_path(*d))));
                        v.push(("variant", s(variant.name.to_string())));
                        v.push(("vi", J::N(vidx.index() as i128)));
                        let names: Vec<J> = match active {
                            Some(f) => vec![s(variant.fields[*f].name.to_string())],
                            None => {
                                variant.fields.iter().map(|f| s(f.name.to_string())).collect()
                            }
                        };
                        v.push(("fields", J::A(names)));
                    }
                    AggregateKind::Closure(d, _) => {
                        v.push(("agg", s("closure")));
                        v.push(("def", s(self.def_path(*d))));
                    }
                    AggregateKind::Coroutine(d, _) => {
                        v.push(("agg", s("coroutine")));
                        v.push(("def", s(self.def_path(*d))));
                    }
                    AggregateKind::CoroutineClosure(d, _) => {
                        v.push(("agg", s("coroutine_closure")));
                        v.push(("def", s(self.def_path(*d))));
                    }
                    AggregateKind::RawPtr(t, _) => {
                        v.push(("agg", s("rawptr")));
                        v.push(("ty", self.ty(*t)));
                    }
                }
                v.push(("ops", J::A(ops.iter().map(|o| self.operand(body, o)).collect())));
                J::O(v)
            }
            Rvalue::CopyForDeref(p) => {
                J::O(vec![("k", s("use")), ("op", J::O(vec![("copy", self.place(body, p))]))])
            }
            Rvalue::WrapUnsafeBinder(o, t) => J::O(vec![
                ("k", s("wrap_binder")),
                ("op", self.operand(body, o)),
                ("ty", self.ty(*t)),
            ]),
            #[allow(unreachable_patterns)]
            other => J::O(vec![("k", s("other")), ("dbg", s(format!("{:?}", other)))]),
        }
    }

    fn block(&mut self, body: &Body<'tcx>, bb: &BasicBlockData<'tcx>) -> J {
        let tcx = self.tcx;
        let mut stmts = vec![];
        for st in &bb.statements {
            match &st.kind {
                StatementKind::Assign(b) => {
                    let (p, rv) = &**b;
                    stmts.push(J::O(vec![
                        ("k", s("assign")),
                        ("lhs", self.place(body, p)),
                        ("rv", self.rvalue(body, rv)),
                        ("sp", self.short_span(st.source_info.span)),
                    ]));
                }
                StatementKind::SetDiscriminant { place, variant_index } => {
                    stmts.push(J::O(vec![
                        ("k", s("setdiscr")),
                        ("lhs", self.place(body, place)),
                        ("vi", J::N(variant_index.index() as i128)),
                        ("sp", self.short_span(st.source_info.span)),
                    ]));
                }
                StatementKind::Intrinsic(i) => {
                    stmts.push(J::O(vec![
                        ("k", s("intrinsic")),
                        ("dbg", s(format!("{:?}", i))),
                    ]));
                }
                _ => {}
            }
        }
        let term = bb.terminator();
        let sp = self.short_span(term.source_info.span);
        let t = match &term.kind {
            TerminatorKind::Goto { target } => {
                J::O(vec![("k", s("goto")), ("target", J::N(target.index() as i128))])
            }
            TerminatorKind::SwitchInt { discr, targets } => {
                let mut tg = vec![];
                for (val, bb) in targets.iter() {
                    tg.push(J::A(vec![s(format!("{}", val)), J::N(bb.index() as i128)]));
                }
                J::O(vec![
                    ("k", s("switch")),
                    ("discr", self.operand(body, discr)),
                    ("ty", self.ty(discr.ty(body, tcx))),
                    ("targets", J::A(tg)),
                    ("otherwise", J::N(targets.otherwise().index() as i128)),
                ])
            }
            TerminatorKind::Return => J::O(vec![("k", s("return"))]),
            TerminatorKind::Unreachable => J::O(vec![("k", s("unreachable"))]),
            TerminatorKind::UnwindResume => J::O(vec![("k", s("resume"))]),
            TerminatorKind::UnwindTerminate(_) => J::O(vec![("k", s("terminate"))]),
            TerminatorKind::Drop { place, target, .. } => J::O(vec![
                ("k", s("drop")),
                ("place", self.place(body, place)),
                ("target", J::N(target.index() as i128)),
            ]),
            TerminatorKind::Call { func, args, destination, target, fn_span, .. } => {
                self.n_calls += 1;
                let mut v = vec![("k", s("call"))];
                let fty = func.ty(body, tcx);
                match fty.kind() {
                    ty::FnDef(d, gargs) => {
                        v.push(("callee", s(self.def_path(*d))));
                        v.push(("callee_args", s(format!("{:?}", gargs))));
                        v.push(("callee_crate", s(tcx.crate_name(d.krate).to_string())));
                        // Self type / trait of the callee, when it is an associated item
                        if let Some(assoc) = tcx.opt_associated_item(*d) {
                            v.push(("assoc", s(assoc.name().to_string())));
                            if let Some(tr) = tcx.trait_of_assoc(*d) {
                                v.push(("trait", s(self.def_path(tr))));
                                if gargs.len() > 0 {
                                    if let Some(st) = gargs[0].as_type() {
                                        v.push(("self_ty", self.ty(st)));
                                    }
                                }
                            } else if let Some(imp) = tcx.impl_of_assoc(*d) {
                                let st = tcx.type_of(imp).instantiate(tcx, gargs).skip_norm_wip();
                                v.push(("self_ty", self.ty(st)));
                            }
                        }
                        let tenv = TypingEnv::post_analysis(tcx, body.source.def_id());
                        let resolvable = !format!("{:?}", gargs).contains("Param(")
                            || tcx.trait_of_assoc(*d).is_none();
                        let mut resolved = false;
                        if resolvable {
                            if let Ok(Some(inst)) = Instance::try_resolve(tcx, tenv, *d, gargs) {
                                v.push(("resolved", s(self.def_path(inst.def_id()))));
                                v.push(("resolved_kind", s(instance_kind(&inst))));
                                v.push((
                                    "resolved_local",
                                    J::B(inst.def_id().krate == LOCAL_CRATE),
                                ));
                                resolved = true;
                            }
                        }
                        if !resolved {
                            self.n_unresolved += 1;
                        }
                    }
                    _ => {
                        v.push(("callee_dyn", self.operand(body, func)));
                        v.push(("callee_ty", self.ty(fty)));
                    }
                }
                v.push((
                    "args",
                    J::A(args.iter().map(|a| self.operand(body, &a.node)).collect()),
                ));
                v.push(("dest", self.place(body, destination)));
                v.push((
                    "target",
                    match target {
                        Some(t) => J::N(t.index() as i128),
                        None => J::Null,
                    },
                ));
                v.push(("fn_sp", self.short_span(*fn_span)));
                J::O(v)
            }
            TerminatorKind::TailCall { func, args, .. } => J::O(vec![
                ("k", s("tailcall")),
                ("func", self.operand(body, func)),
                ("args", J::A(args.iter().map(|a| self.operand(body, &a.node)).collect())),
            ]),
            TerminatorKind::Assert { cond, expected, msg, target, .. } => {
                let kind = match &**msg {
                    mir::AssertKind::BoundsCheck { len, index } => J::O(vec![
                        ("assert", s("bounds")),
                        ("len", self.operand(body, len)),
                        ("index", self.operand(body, index)),
                    ]),
                    mir::AssertKind::Overflow(op, a, b) => J::O(vec![
                        ("assert", s("overflow")),
                        ("op", s(format!("{:?}", op))),
                        ("a", self.operand(body, a)),
                        ("b", self.operand(body, b)),
                    ]),
                    mir::AssertKind::OverflowNeg(a) => {
                        J::O(vec![("assert", s("overflow_neg")), ("a", self.operand(body, a))])
                    }
                    mir::AssertKind::DivisionByZero(a) => {
                        J::O(vec![("assert", s("div_zero")), ("a", self.operand(body, a))])
                    }
                    mir::AssertKind::RemainderByZero(a) => {
                        J::O(vec![("assert", s("rem_zero")), ("a", self.operand(body, a))])
                    }
                    other => J::O(vec![
                        ("assert", s("other")),
                        ("dbg", s(format!("{:?}", other))),
                    ]),
                };
                J::O(vec![
                    ("k", s("assert")),
                    ("cond", self.operand(body, cond)),
                    ("expected", J::B(*expected)),
                    ("msg", kind),
                    ("target", J::N(target.index() as i128)),
                ])
            }
            TerminatorKind::FalseEdge { real_target, .. } => {
                J::O(vec![("k", s("goto")), ("target", J::N(real_target.index() as i128))])
            }
            TerminatorKind::FalseUnwind { real_target, .. } => {
                J::O(vec![("k", s("goto")), ("target", J::N(real_target.index() as i128))])
            }
            other => J::O(vec![("k", s("other")), ("dbg", s(format!("{:?}", other)))]),
        };
        let mut tv = match t {
            J::O(v) => v,
            _ => unreachable!(),
        };
        tv.push(("sp", sp));
        J::O(vec![
            ("stmts", J::A(stmts)),
            ("term", J::O(tv)),
            ("cleanup", J::B(bb.is_cleanup)),
        ])
    }

    fn body(&mut self, def_id: DefId, body: &Body<'tcx>, promoted: Option<usize>) -> J {
        self.n_bodies += 1;
        let tcx = self.tcx;
        let mut locals = vec![];
        for (_l, decl) in body.local_decls.iter_enumerated() {
            locals.push(J::O(vec![
                ("ty", self.ty(decl.ty)),
                ("mut", J::B(decl.mutability.is_mut())),
            ]));
        }
        let mut dbg = vec![];
        for vdi in &body.var_debug_info {
            let value = match &vdi.value {
                mir::VarDebugInfoContents::Place(p) => self.place(body, p),
                mir::VarDebugInfoContents::Const(c) => J::O(vec![("const", self.constant(body, c))]),
            };
            dbg.push(J::O(vec![
                ("name", s(vdi.name.to_string())),
                ("value", value),
                (
                    "arg",
                    match vdi.argument_index {
                        Some(i) => J::N(i as i128),
                        None => J::Null,
                    },
                ),
            ]));
        }
        let mut blocks = vec![];
        for (_bb, data) in body.basic_blocks.iter_enumerated() {
            self.n_blocks += 1;
            blocks.push(self.block(body, data));
        }
        let kind = tcx.def_kind(def_id);
        let mut v = vec![
            ("path", s(self.def_path(def_id))),
            ("kind", s(format!("{:?}", kind))),
            ("span", self.span(body.span)),
            ("arg_count", J::N(body.arg_count as i128)),
            ("locals", J::A(locals)),
            ("debug", J::A(dbg)),
            ("blocks", J::A(blocks)),
        ];
        if let Some(p) = promoted {
            v.push(("promoted", J::N(p as i128)));
        }
        if matches!(kind, DefKind::Fn | DefKind::AssocFn) {
            v.push(("vis", s(format!("{:?}", tcx.visibility(def_id)))));
            let sig = tcx.fn_sig(def_id).instantiate_identity().skip_norm_wip();
            v.push(("sig", s(format!("{:?}", sig))));
        }
        if matches!(kind, DefKind::AssocFn) {
            if let Some(imp) = tcx.impl_of_assoc(def_id) {
                v.push((
                    "impl_self",
                    self.ty(tcx.type_of(imp).instantiate_identity().skip_norm_wip()),
                ));
                if let Some(tr) = tcx.impl_opt_trait_ref(imp) {
                    let tr = tr.instantiate_identity().skip_norm_wip();
                    v.push(("impl_trait", s(self.def_path(tr.def_id))));
                    v.push(("impl_trait_ref", s(format!("{:?}", tr))));
                }
                v.push(("auto_derived", J::B(tcx.is_automatically_derived(imp))));
            }
        }
        if matches!(kind, DefKind::Closure) {
            v.push(("parent", s(self.def_path(tcx.parent(def_id)))));
        }
        // is the item (or an ancestor module) under #[cfg(test)]? -- not compiled in `check`
        J::O(v)
    }

    fn adts(&self) -> J {
        let tcx = self.tcx;
        let mut out = vec![];
        for id in tcx.hir_free_items() {
            let def_id = id.owner_id.to_def_id();
            let kind = tcx.def_kind(def_id);
            if !matches!(kind, DefKind::Struct | DefKind::Enum | DefKind::Union) {
                continue;
            }
            let adt = tcx.adt_def(def_id);
            let mut variants = vec![];
            let discrs: Vec<String> = if adt.is_enum() {
                adt.discriminants(tcx).map(|(_, d)| format!("{}", d.val)).collect()
            } else {
                vec![]
            };
            for (i, var) in adt.variants().iter().enumerate() {
                let mut fields = vec![];
                for f in var.fields.iter() {
                    let fty = tcx.type_of(f.did).instantiate_identity().skip_norm_wip();
                    fields.push(J::O(vec![
                        ("name", s(f.name.to_string())),
                        ("ty", self.ty(fty)),
                    ]));
                }
                variants.push(J::O(vec![
                    ("name", s(var.name.to_string())),
                    ("discr", s(discrs.get(i).cloned().unwrap_or_default())),
                    ("fields", J::A(fields)),
                ]));
            }
            out.push(J::O(vec![
                ("path", s(self.def_path(def_id))),
                ("kind", s(format!("{:?}", kind))),
                ("span", self.span(tcx.def_span(def_id))),
                ("variants", J::A(variants)),
            ]));
        }
        J::A(out)
    }

    fn impls(&self) -> J {
        let tcx = self.tcx;
        let mut out = vec![];
        for id in tcx.hir_free_items() {
            let def_id = id.owner_id.to_def_id();
            if !matches!(tcx.def_kind(def_id), DefKind::Impl { .. }) {
                continue;
            }
            let self_ty = tcx.type_of(def_id).instantiate_identity().skip_norm_wip();
            let mut v = vec![
                ("self_ty", self.ty(self_ty)),
                ("auto_derived", J::B(tcx.is_automatically_derived(def_id))),
                ("span", self.span(tcx.def_span(def_id))),
            ];
            if let Some(tr) = tcx.impl_opt_trait_ref(def_id) {
                let tr = tr.instantiate_identity().skip_norm_wip();
                v.push(("trait", s(self.def_path(tr.def_id))));
                v.push(("trait_ref", s(format!("{:?}", tr))));
            }
            let mut items = vec![];
            for it in tcx.associated_items(def_id).in_definition_order() {
                items.push(J::O(vec![
                    ("name", s(it.name().to_string())),
                    ("path", s(self.def_path(it.def_id))),
                    ("kind", s(format!("{:?}", tcx.def_kind(it.def_id)))),
                ]));
            }
            v.push(("items", J::A(items)));
            out.push(J::O(v));
        }
        J::A(out)
    }

    fn consts(&self) -> J {
        // named const / static items with their evaluated value
        let tcx = self.tcx;
        let mut out = vec![];
        for ldid in tcx.hir_body_owners() {
            let def_id = ldid.to_def_id();
            let kind = tcx.def_kind(def_id);
            match kind {
                DefKind::Const { .. } | DefKind::AssocConst { .. } => {
                    let t = tcx.type_of(def_id).instantiate_identity().skip_norm_wip();
                    let mut v = vec![
                        ("path", s(self.def_path(def_id))),
                        ("kind", s("const")),
                        ("ty", self.ty(t)),
                        ("span", self.span(tcx.def_span(def_id))),
                    ];
                    if tcx.generics_of(def_id).count() == 0
                        && tcx.generics_of(def_id).parent_count == 0
                    {
                        if let Ok(val) = tcx.const_eval_poly(def_id) {
                            v.push(("val", self.const_value(val, t)));
                        }
                    }
                    out.push(J::O(v));
                }
                DefKind::Static { .. } => {
                    let t = tcx.type_of(def_id).instantiate_identity().skip_norm_wip();
                    let mut v = vec![
                        ("path", s(self.def_path(def_id))),
                        ("kind", s("static")),
                        ("ty", self.ty(t)),
                        ("span", self.span(tcx.def_span(def_id))),
                    ];
                    if let Ok(alloc) = tcx.eval_static_initializer(def_id) {
                        let a = alloc.inner();
                        let size = a.size().bytes_usize().min(1 << 16);
                        let bytes = a.inspect_with_uninit_and_ptr_outside_interpreter(0..size);
                        let mut ptrs = vec![];
                        for (off, prov) in a.provenance().ptrs().iter() {
                            ptrs.push(J::O(vec![
                                ("off", J::N(off.bytes() as i128)),
                                ("to", self.alloc_json(prov.alloc_id(), 1)),
                            ]));
                        }
                        v.push((
                            "val",
                            J::O(vec![
                                ("kind", s("memory")),
                                ("bytes", s(hex(bytes))),
                                ("ptrs", J::A(ptrs)),
                            ]),
                        ));
                    }
                    out.push(J::O(v));
                }
                _ => {}
            }
        }
        J::A(out)
    }
}

fn instance_kind(inst: &Instance<'_>) -> String {
    let d = format!("{:?}", inst.def);
    match d.find('(') {
        Some(i) => d[..i].to_string(),
        None => d,
    }
}

struct Cb {
    out_path: String,
    crate_label: String,
}

impl rustc_driver::Callbacks for Cb {
    fn after_analysis<'tcx>(
        &mut self,
        _compiler: &rustc_interface::interface::Compiler,
        tcx: TyCtxt<'tcx>,
    ) -> Compilation {
        let mut ex = Ex { tcx, n_bodies: 0, n_blocks: 0, n_calls: 0, n_unresolved: 0 };
        let mut bodies = vec![];
        for ldid in tcx.hir_body_owners() {
            let def_id = ldid.to_def_id();
            let kind = tcx.def_kind(def_id);
            match kind {
                DefKind::Fn | DefKind::AssocFn | DefKind::Closure => {
                    if tcx.is_constructor(def_id) {
                        continue;
                    }
                    let body = tcx.optimized_mir(def_id);
                    bodies.push(ex.body(def_id, body, None));
                    for (pi, pbody) in tcx.promoted_mir(def_id).iter_enumerated() {
                        bodies.push(ex.body(def_id, pbody, Some(pi.index())));
                    }
                }
                DefKind::Const { .. }
                | DefKind::AssocConst { .. }
                | DefKind::Static { .. }
                | DefKind::AnonConst
                | DefKind::InlineConst => {
                    // initialiser bodies: only exported for statics/consts with non-trivial
                    // initialisers (lazy_static closures are separate Closure bodies anyway)
                    if tcx.is_mir_available(def_id) || matches!(kind, DefKind::Static { .. }) {
                        let body = tcx.mir_for_ctfe(ldid);
                        bodies.push(ex.body(def_id, body, None));
                    }
                }
                _ => {}
            }
        }
        let adts = ex.adts();
        let impls = ex.impls();
        let consts = ex.consts();
        let root = J::O(vec![
            ("crate", s(self.crate_label.clone())),
            ("crate_name", s(tcx.crate_name(LOCAL_CRATE).to_string())),
            ("n_bodies", J::N(ex.n_bodies as i128)),
            ("n_blocks", J::N(ex.n_blocks as i128)),
            ("n_calls", J::N(ex.n_calls as i128)),
            ("n_unresolved", J::N(ex.n_unresolved as i128)),
            ("bodies", J::A(bodies)),
            ("adts", adts),
            ("impls", impls),
            ("consts", consts),
        ]);
        let mut out = String::with_capacity(1 << 24);
        root.write(&mut out);
        let tmp = format!("{}.tmp.{}", self.out_path, std::process::id());
        std::fs::write(&tmp, out).expect("mirfacts: cannot write facts");
        std::fs::rename(&tmp, &self.out_path).expect("mirfacts: cannot move facts");
        Compilation::Continue
    }
}

struct NoCb;
impl rustc_driver::Callbacks for NoCb {}

fn arg_value<'a>(args: &'a [String], name: &str) -> Option<&'a str> {
    let mut it = args.iter();
    while let Some(a) = it.next() {
        if a == name {
            return it.next().map(|x| x.as_str());
        }
        if let Some(rest) = a.strip_prefix(name) {
            if let Some(v) = rest.strip_prefix('=') {
                return Some(v);
            }
        }
    }
    None
}

fn main() {
    let mut args: Vec<String> = std::env::args().collect();
    // wrapper mode: argv[1] is the path of the real rustc
    if args.len() > 1 && (args[1].ends_with("rustc") || args[1].contains("/rustc")) {
        args.remove(1);
    }
    let out_dir = std::env::var("MIRFACTS_OUT").ok();
    let want: Vec<String> = std::env::var("MIRFACTS_CRATES")
        .unwrap_or_default()
        .split(',')
        .filter(|x| !x.is_empty())
        .map(|x| x.to_string())
        .collect();
    let crate_name = arg_value(&args, "--crate-name").map(|x| x.to_string());
    let crate_type = arg_value(&args, "--crate-type").unwrap_or("bin").to_string();
    let is_test = args.iter().any(|a| a == "--test");
    let selected = match (&out_dir, &crate_name) {
        (Some(_), Some(name)) => {
            !name.starts_with("build_script") && (want.is_empty() || want.contains(name))
        }
        _ => false,
    };
    if selected {
        let name = crate_name.unwrap();
        let label =
            format!("{}-{}{}", name, crate_type, if is_test { "-test" } else { "" });
        let out_path = format!("{}/{}.json", out_dir.unwrap(), label);
        let mut cb = Cb { out_path, crate_label: label };
        rustc_driver::run_compiler(&args, &mut cb);
    } else {
        rustc_driver::run_compiler(&args, &mut NoCb);
    }
}
