#!/usr/bin/env python3
"""Writes analysis/anchor_table.json: for every user function of /repo's lib and bin crates its def path, kind and
signature (return + argument types). The table is the reference against which a *renamed* function is recognised
(same parent module / impl, same kind, same signature, old name gone, new name unknown): facts.Program maps the new
path back to the reference path before any rule runs, so that a pure rename of a private function does not lose an
anchor. Regenerate after every commit to /repo (tools/regress.sh checks that it is current)."""
import json, os, sys
sys.path.insert(0, os.path.join(os.path.dirname(os.path.abspath(__file__)), ".."))
from analysis import export
from analysis.facts import fn_table

root = sys.argv[1] if len(sys.argv) > 1 else "/repo"
d = export.export(root)[0]
out = {}
for f in ("scrut-lib.json", "scrut-bin.json"):
    j = json.load(open(os.path.join(d, f)))
    out[j["crate"]] = fn_table(j)
p = os.path.join(os.path.dirname(os.path.abspath(__file__)), "..", "analysis", "anchor_table.json")
json.dump(out, open(p, "w"), indent=0, sort_keys=True)
print({k: len(v) for k, v in out.items()})
