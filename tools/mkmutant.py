#!/usr/bin/env python3
"""mkmutant.py <patch-name> <file> <<< JSON [[old, new], ...]  -> selftest/mutants/<patch-name>.patch (or benign/)
Creates a one-edit variant of /repo as a unified diff (paths relative to the repo root)."""
import difflib, json, os, sys
name, rel = sys.argv[1], sys.argv[2]
kind = "benign" if name.startswith("benign-") else "mutants"
edits = json.load(sys.stdin)
p = os.path.join("/repo", rel)
old = open(p, encoding="utf-8").read()
new = old
for a, b in edits:
    if new.count(a) != 1:
        sys.exit("edit anchor found %d times: %r" % (new.count(a), a[:60]))
    new = new.replace(a, b)
d = "".join(difflib.unified_diff(old.splitlines(True), new.splitlines(True), "a/" + rel, "b/" + rel))
out = os.path.join(os.path.dirname(os.path.dirname(os.path.abspath(__file__))), "selftest", kind, name + ".patch")
mode = "a" if os.environ.get("APPEND") else "w"
open(out, mode).write(d)
print(out, len(d.splitlines()), "lines")
