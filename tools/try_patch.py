#!/usr/bin/env python3
"""try_patch.py <patch> [C01 C02 ...]: apply a patch to a scratch copy of /repo and run the rules of
the given properties (default: all 20); prints which rule instances fire."""
import os, sys, shutil
sys.path.insert(0, os.path.join(os.path.dirname(os.path.abspath(__file__)), ".."))
from analysis import selftest, export
from analysis.facts import Program
patch = os.path.abspath(sys.argv[1])
props = sys.argv[2:] or ["C%02d" % i for i in range(1, 21)]
cdir, _ = export.export(os.path.join(selftest.VERIF, "fixtures", "positive"), expect=("verif_positive-lib.json",), cargo_args=("--lib",))
ctrl = Program([os.path.join(cdir, "verif_positive-lib.json")])
root = selftest.scratch_copy("/repo")
fdir = None
try:
    ok, msg = selftest.apply_patch(root, patch)
    if not ok:
        sys.exit("patch does not apply: " + msg)
    for p in props:
        viol, fdir = selftest.run_rules(p, root, ctrl)
        for v in viol:
            print("%s %s %s | %s | %s" % (p, v.rule, v.key, v.where, v.what[:200]))
        if not viol:
            print("%s silent" % p)
finally:
    shutil.rmtree(root, ignore_errors=True)
    if fdir and os.environ.get("KEEP"):
        print("FACTS=" + fdir)
