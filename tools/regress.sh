#!/bin/bash
# full regression of the checker: all quick checks silent on /repo, every stored mutant / seed fires, every benign edit is silent.
# usage: tools/regress.sh [logfile] [jobs]   (the fact export is serialised by a lock, the rule runs are parallel)
cd "$(dirname "$0")/.."
out=${1:-/tmp/verif-regress.log}
jobs=${2:-4}
# every stored patch is exported once and then shared by the 20 properties: keep all fact sets (about 11 MB each) for the duration of the run
export VERIF_FACTS_KEEP=${VERIF_FACTS_KEEP:-700}
: > $out
# the reference function table must describe /repo's HEAD (regenerate with tools/gen_anchor_table.py after every /repo commit)
python3 - >> $out <<'PY'
import json, os, sys
sys.path.insert(0, "/verif")
from analysis import export
from analysis.facts import fn_table
d = export.export("/repo")[0]
ref = json.load(open("/verif/analysis/anchor_table.json"))
stale = []
for f in ("scrut-lib.json", "scrut-bin.json"):
    j = json.load(open(os.path.join(d, f)))
    cur = fn_table(j)
    if cur != ref.get(j["crate"]):
        stale.append(j["crate"])
print("anchor table: %s" % ("current" if not stale else "STALE for %s - run tools/gen_anchor_table.py" % stale))
PY
one() {
  i=$1
  q=$(./vcheck C$i | tail -1)
  s=$(python3 -m analysis.selftest C$i | python3 -c "
import json,sys
d=json.load(sys.stdin)['selftest']
print('  selftest C$i: mutants %d/%d fired, missed=%s, benign silent %d/%d, false alarms=%s, n/a=%s, failed-to-analyse=%s, %.0fs' % (d['mutants_fired'], d['mutants_applied'], [x.split('/')[-1] for x in d['mutants_missed']], d['benign_silent'], d['benign_applied'], d['benign_false_alarms'], d['not_applicable_patches'], d.get('analysis_failed', []), d['wall_s']))")
  printf '%s\n%s\n' "$q" "$s"
}
export -f one
printf '%s\n' 01 02 03 04 05 06 07 08 09 10 11 12 13 14 15 16 17 18 19 20 | xargs -P $jobs -I{} bash -c 'one {}' >> $out
echo DONE >> $out
