#!/usr/bin/env python3
"""debug helper: pretty-print the exported MIR of functions matching an anchor"""
import sys, os, glob
sys.path.insert(0, os.path.join(os.path.dirname(__file__), ".."))
from analysis.facts import Program
d = os.environ.get("FACTS") or os.path.dirname(max(glob.glob("/verif/.cache/facts/*/scrut-lib.json"), key=os.path.getmtime))
prog = Program(sorted(glob.glob(d + "/*.json")))
for a in sys.argv[1:]:
    fs = prog.find_fns(a)
    if not fs:
        fs = [b for b in prog.bodies if a in b.path and b.promoted is None]
    for f in fs:
        print(f.show())
        print()
