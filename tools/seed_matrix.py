#!/usr/bin/env python3
"""for every seeded change: which properties' checks fire on it; rewrites meta.json `properties` (the attacked property
must be among them) and prints the matrix"""
import glob, json, os, shutil, sys
sys.path.insert(0, os.path.join(os.path.dirname(os.path.abspath(__file__)), ".."))
from analysis import selftest, export
from analysis.facts import Program
cdir, _ = export.export(os.path.join(selftest.VERIF, "fixtures", "positive"), expect=("verif_positive-lib.json",), cargo_args=("--lib",))
ctrl = Program([os.path.join(cdir, "verif_positive-lib.json")])
props = ["C%02d" % i for i in range(1, 21)]
only = sys.argv[1:] 
for d in sorted(glob.glob(os.path.join(selftest.VERIF, "seeded", "*"))):
    if only and not any(o in d for o in only):
        continue
    meta = json.load(open(os.path.join(d, "meta.json")))
    root = selftest.scratch_copy("/repo")
    fdir = None
    fired = {}
    try:
        ok, msg = selftest.apply_patch(root, os.path.join(d, "patch.diff"))
        if not ok:
            print(os.path.basename(d), "DOES NOT APPLY", msg[:100])
            continue
        for p in props:
            viol, fdir = selftest.run_rules(p, root, ctrl)
            if viol:
                fired[p] = sorted({"%s %s" % (v.rule, v.key) for v in viol})[:4]
    finally:
        shutil.rmtree(root, ignore_errors=True)
        if fdir:
            shutil.rmtree(fdir, ignore_errors=True)
    meta["properties"] = sorted(fired) if meta["breaks"] in fired else [meta["breaks"]]
    meta["fired_rules"] = fired
    json.dump(meta, open(os.path.join(d, "meta.json"), "w"), indent=1)
    print("%-45s breaks=%s fired=%s%s" % (os.path.basename(d), meta["breaks"], sorted(fired), "" if meta["breaks"] in fired else "   <-- OWN PROPERTY MISSED"))
