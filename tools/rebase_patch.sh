#!/bin/bash
# rebase_patch.sh <patch>: re-create a stored patch against /repo's HEAD after a fix: commit moved its context.
# Finds the newest ancestor on which the patch applies, commits it in a scratch worktree and cherry-picks it onto HEAD.
p=$(readlink -f "$1"); wt=$(mktemp -d /tmp/rebase-wt.XXXX)
cd /repo
for c in $(git rev-list HEAD | head -40); do
  git worktree add -q --detach $wt $c 2>/dev/null || { rm -rf $wt; git worktree prune; git worktree add -q --detach $wt $c; }
  if git -C $wt apply --check "$p" 2>/dev/null; then
    git -C $wt apply "$p" && git -C $wt add -A && git -C $wt -c user.email=x@x -c user.name=x commit -q -m tmp
    pc=$(git -C $wt rev-parse HEAD)
    git -C $wt checkout -q --detach $(git rev-parse HEAD)
    if git -C $wt -c user.email=x@x -c user.name=x cherry-pick $pc >/dev/null 2>&1; then
      git -C $wt diff HEAD~1 HEAD > "$p"; echo "rebased $p (from $c)"
    else
      echo "CONFLICT $p (applies on $c)"; git -C $wt diff --name-only --diff-filter=U
    fi
    git worktree remove --force $wt; git worktree prune; exit 0
  fi
  git worktree remove --force $wt
done
echo "NO BASE FOUND $p"
