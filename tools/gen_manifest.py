#!/usr/bin/env python3
"""Generates /verif/MANIFEST.json from the table below (kept next to the rules so that the claimed
clauses and the implemented rules cannot drift apart silently)."""
import json
import os
import subprocess

HERE = os.path.dirname(os.path.dirname(os.path.abspath(__file__)))

NOTE = ("Trusted base: rustc nightly MIR construction, trait resolution and constant evaluation; semantics of std and "
        "third-party callees as summarised in the rule tables (regex, wildmatch, subprocess, serde_yaml, humantime, tempfile, bash "
        "are not analysed); the repository's own documentation files where they serve as sibling tables. ")

# property -> (claimed clauses text, not-decided remainder, design ref)
CLAIMS = {
    "C05": ("Decides on all CFG paths of TestCase::validate that only ExitStatus::Code with the `== self.exit_code.unwrap_or(0)` edge (or "
            "Detached) reaches Ok(()), that InvalidExitCode is decided before the diff, that the diffed stream is stderr exactly on "
            "output_stream==Some(Stderr), and the subprocess exit-status / timeout mapping tables.",
            "Not decided: that the OS reports signals as Signaled; behaviour of the subprocess crate.", "§4 C05"),
    "C14": ("Decides that the effective-timeout `min` compares Durations first (derived Ord: first declared field), that the selected value is "
            "stored into the test case before Runner::run and reaches limit_time on every path on the Some edge, the document-limit "
            "defaults/zero handling, that the Timeout arm of execute_all always returns Err(Timeout) and never continues, and that the test "
            "command maps Timeout outputs to failed (never validated) and the remainder to skipped.",
            "Not decided: wall-clock accuracy, that limit_time kills promptly, that a command finishing inside all limits is never timed out.", "§4 C14"),
    "C16": ("Decides per field of both config types that with_defaults_from merges with an operator whose priority side is the receiver "
            "(or/or_else; defaults.chain(self).collect() for the environment map; extend for prepend/append), that with_overrides_from is its "
            "mirror, the layer order (CLI > test case > document defaults > format) at every merge call site of lib+bin, and the two format "
            "default tables.",
            "Not decided: the observable run-time effect of each key.", "§4 C16"),
    "C04": ("Decides that RegexRule::make anchors a group around the cleaned expression, that in every Rule impl the line reaches the "
            "whole-line comparator (byte ==, WildMatch::matches, Regex::is_match) only through the documented newline handling, the "
            "registry/alias/kind tables against the documented BNF, that glob_to_regex_string emits raw regex syntax only for ?,* and "
            "escaped pairs, and the escape decoder tables.",
            "Not decided: the matching semantics of the regex and wildmatch crates, correctness of the three regex clean-up passes.", "§4 C04"),
    "C11": ("Decides on the encoder/decoder tables extracted from the current MIR that decode(encode(b))==[b] for all bytes != LF and all "
            "ordered byte pairs, that outputs are printable ASCII, that the identity set excludes the introducer, that no rendering that "
            "contains escapes emits a raw backslash (ascii guard and unicode per-char closure), that ` (escaped)` is appended exactly on the "
            "`rendering != raw` edge, and that unicode mode keeps a char only on the !is_other edge.",
            "Not decided: that unicode_categories::is_other is the right notion of printable; multi-character interplay beyond adjacent pairs is "
            "argued from the pair-wise left-to-right structure of both decoders, not enumerated.", "§4 C11"),
    "C13": ("Decides that the user's shell expression is the last template substitution (never rescanned) and is pushed unmodified into the Cram "
            "script, that the random divider salt reaches the divider reader and gates divider recognition (bounded inter-procedural flow), that "
            "every cycle of the resolved call graph is in the confirmed recursion table, the guard tables of render_output / Redirection::Merge, "
            "that stdin and the captured streams flow unmodified (same stream to same field), and that per-test Cram exit codes come from the divider.",
            "Not decided: pipe semantics, write order of merged streams, behaviour of subprocess under large simultaneous writes, strip-ansi-escapes.", "§4 C13"),
    "C06": ("Decides that MarkdownIterator::next never ends the iteration after a line was consumed (no `?`/None past the first read, also through "
            "line-reading helpers), that no character count reaches a str byte-offset sink in src/parsers (index-unit dataflow with function "
            "summaries), that the fence guard rejects exactly 0..2 leading backticks, that every `x[x.len()-k]` is dominated by a non-emptiness "
            "guard, the one-increment-per-consumed-line pairing of line_index, that all code lines reach add_testcase_body and end_testcase "
            "builds the TestCase from the parser state, and that read_file normalises CRLF.",
            "Not decided: title selection, which info strings count as a language, the shape classification of fence lines beyond the threshold.", "§4 C06"),
    "C08": ("Decides by finite case analysis of ExpectationMaker::extract (capture count x empty kind capture) that an empty kind always means "
            "`equal`, that the expression is the whole line or capture 0 accordingly and that no capture index is out of range; parses the "
            "grammar template built by to_expectation_regex and checks its structure (anchors, lazy expression, optional parenthesised "
            "modifier, kind alternatives incl. empty, quantifier class); checks that the reader and writer quantifier tables are mutually "
            "inverse in both the equal and the kinded form, and that kind() literals re-resolve to the same maker.",
            "Not decided: equivalence of the re-parsed expression text for escaped glob/regex renderings; Unicode behaviour of \\s.", "§4 C08"),
    "C09": ("Decides that both Markdown generators open and close with the same `\"`\".repeat(max_backtick_size(body)+c)` value (c>=1) around the "
            "very string that was measured, that max_backtick_size starts >= 2 and takes the max over all lines, that no str::trim* is applied "
            "to a generated body anywhere in src/generators, that matched expectations are re-emitted from original_string and unexpected lines "
            "through escaped_expectation(trim_newlines(line)) with ` (no-eol)` exactly on !ends_with(\\n), and the writer/reader tables for "
            "`$ `/`> ` and the `[code]` line.",
            "Not decided: whether rendering and parsing are inverse on arbitrary output text. The writer/reader syntax-class cross-check (R9.8) "
            "reports the four classes the reader gives a meaning to and the writer does not neutralise (modifier suffix, `[n]` line, `> ` and "
            "`$ ` prefixes) as known findings (F21); any further class or a change of those is a violation.", "§4 C09, §8.8"),
    "C17": ("Decides that every free-text value interpolated by to_yaml_one_liner (environment keys/values, wait.path) passes a quoting function "
            "(crate-local helper whose every result is the argument under a character-class guard or serde_json::to_string of it), that the keys "
            "it writes equal the serde field names on the write and read side (and no field is unrendered), the enum name table, the "
            "serialize_with/deserialize_with pairing with humantime and the `null` literal, and the single `{}` strip/re-wrap.",
            "Not decided: humantime and serde_yaml round-trip laws themselves.", "§4 C17"),
    "C19": ("Decides that no character count is used as a str byte offset in the renderers (index-unit dataflow through helper summaries), that "
            "render_error and both DiffLine switches give every variant its own arm, that every unmatched expectation and every unexpected "
            "line reaches the output (pretty) or the hunk buffers plus a final flush dominating Ok (diff), that a passing outcome writes "
            "nothing, and that the structured renderers serialise the whole slice with `result` always present and distinct error kinds.",
            "Not decided: the width arithmetic of Decorator, behaviour on non-UTF-8 lines in the diff renderer (returns Err).", "§4 C19"),
    "C15": ("Decides who may construct ExecutionError::Skipped (only the two executors, each site under an `exit code == configured skip code` "
            "guard or in the ExitStatus::Skipped arm; ExitStatus::Skipped itself never constructed), that TestCaseError::Skipped is produced "
            "only by the test command - for all test cases in the Skipped arm and for the unexecuted remainder in the Timeout arm - that the "
            "Skipped arm touches only count_skipped and continues, and the skip-code default table.",
            "Not decided: how a custom code reaches the test case at run time (C16 decides the layering).", "§4 C15"),
    "C20": ("Decides the concatenation order prepend / document / append (unfiltered) into the single execute_all call per document, that every "
            "continuing path of the executor loop pushes exactly one Output (Unknown pads the rest; the script executor gates on equal counts), "
            "that each (test case, output) pair yields exactly one outcome counted once as failed iff validate() is Err or succeeded (detached "
            "counted separately), and the exit mapping: ValidationFailedError iff count_failed > 0, main 50 / 1 / SUCCESS, no process::exit.",
            "Not decided: order of documents inside a directory (read_dir order), that bash executes each expression once.", "§4 C20"),
    "C07": ("Decides the line classification of CramParser::parse (comment lines never reach the line parser, empty lines only end a test, "
            "indented lines are body, unindented lines end the test and become the title; all tests look at the raw line; indentation = "
            "self.indention spaces, default 2), that body, command, expectation and exit-code text flows unmodified except for the stripped "
            "prefixes, and the pairing that gives every pushed test the Cram defaults (set_testcase_config after every body line and before the "
            "final end_testcase; config reset only in flush after the push).",
            "Not decided: title attribution across consecutive `$` commands (the second of two consecutive commands gets an empty title).", "§4 C07"),
    "C12": ("Decides only the Rust-side wiring and the order/presence tables of the state carrier: one TempDir state directory created before "
            "the loop and handed to every per-test runner, persist_state=0 exactly for detached test cases, the exclusion list substituted "
            "and equal to the EXCL rows of its documentation plus scrut internals, every template placeholder substituted, and the template "
            "statement order (path, source state, conditional EXIT trap saving/restoring $?, dump group with every state-class printer "
            "redirected to the sourced file, user expression last).",
            "NOT decided - and this is the bulk of the property: that re-sourcing the dump is transparent in bash for every value, option and "
            "bash version; the line-based grep filters over multi-line declare -p records. This needs bash, not a static argument over Rust.", "§4 C12"),
    "C18": ("Decides directory ownership (each of the 8 creating call sites yields a TempDir owned by EnvironmentDirectory::Ephemeral or a live "
            "local, a path beneath one, or is leaked only under keep_temporary_directories), that leak APIs/process::exit/fs::remove_* occur "
            "nowhere else, no panic=abort, main returns ExitCode, per-document sub-directories only in the Ephemeral/Kept arms, and the "
            "environment table: documented variables == variables set (Cram extras on the cram_compat edge), SHELL, SCRUT_TEST=<file>:<line> "
            "per test case, applied in test/update/create.",
            "Not decided: uniqueness guarantees of tempfile under concurrent processes; what `shares` means under --work-directory.", "§4 C18"),
    "C10": ("Decides token-field conservation in generate_update (every text field of every MarkdownToken variant is written back untrimmed and "
            "unfiltered, only code_lines is replaced by the generated test of outcomes[testcase_index], index incremented exactly once per test "
            "block), that the tokenizer never ends early and stores every consumed line in exactly one token field or consumes it as a delimiter "
            "on every path, that a passing test is re-emitted from original_string with command and exit code, and the fence and `$`/`>`/`[n]` "
            "writer/reader tables.",
            "Not decided: idempotence as a fixpoint over arbitrary documents; byte-exactness of line terminators (CRLF is normalised and a final "
            "newline added by design).", "§4 C10"),
    "C01": ("Decides by property simulation (unmerged abstract states over the CFG of DiffTool::diff, roles bound by dataflow) the inductive "
            "invariant `every consumed line was matched-and-recorded or reported unexpected, every passed expectation was recorded or is "
            "optional, an open multiline run is recorded before its expectation is left`, the function-exit obligations (open run, remaining "
            "expectations, remaining lines, result is the pushed Vec), that has_differences is true iff some record is not Matched and that "
            "validate returns Ok only on its false edge, and that Expectation::matches forwards to the rule unchanged.",
            "Not decided: that Rule::matches implements the documented relation (C04); behaviour of std Vec/iterator adaptors (trusted).", "§4 C01, Appendix A"),
    "C02": ("Decides on the same simulation the payload obligations (index is E; lines exactly [(L, LINES[L])], M..L, L..X, L..len), progress "
            "(every iteration strictly advances a cursor by +1 or to a peek result; no other cursor writes => termination), bounds (EXPS[E] / "
            "LINES[L] only in states with the cursor in bounds, incl. the tail access under an open run), and the partition shape of "
            "split_at_newline.",
            "Not decided: panics inside to_owned/allocation; usize overflow of counters (bounded by slice lengths).", "§4 C02"),
    "C03": ("Decides necessary conditions only: no failure record without a failing guard (Unmatched only for non-optional expectations after a "
            "mismatch or in the tail, with the `!optional` filter on skipped ranges; Unexpected only after a mismatch; nothing but Matched on a "
            "matching pair), a multiline run yields only on the next-matches edge, and the look-ahead prefers the nearest later expectation "
            "(first hit from E+1) before searching lines (first hit from L+1).",
            "Not decided: that these conditions suffice for completeness on every deterministic input (an inductive argument about the greedy "
            "strategy against the language semantics, not a shape of the code).", "§4 C03"),
}

EXTRAS = {'C19': " Also: every render arm of the malformed-output and diff renderers must pass through a write of each of its payload parts (must-pass-through per arm). Also (R19.7): the pretty renderer's gutter width derives from max(count_output_lines, expectations.len()) plus the base added to the printed numbers. Also (R19.8): no renderer drops an outcome between its argument and its loop (copy / re-order only). Also (R19.9, F27): output bytes are decoded lossily only (no strict from_utf8 + `?` in src/renderers) and no trimming / cutting / re-casing std call lies between a DiffLine payload and the hunk buffers (diff) or the written output (pretty). R19.9 also forbids serialize_bytes in the crate's Serialize impls (the yaml renderer cannot write bytes). R19.9 also demands that the loops over the diff records (pretty and diff renderer) are left by exhaustion or an error return only.", 'C03': " Also: a non-optional multiline expectation yields only after it consumed a line. Also: a cursor write that lands neither on cursor+1 nor on the look-ahead's result is reported (the found expectation / line would be passed over).", 'C06': " Also: consumed-line conservation in the tokenizer (every read line stored once or consumed as a delimiter), the closing-fence predicate is a prefix test against the opening fence, and the line parser's exact `$ `/`> ` prefixes with unmodified body text. Also: no unwrap/expect on a fallible text conversion in the parsing layer (total parsing, R6.11), and the fence info string is split at its first `{` only (R6.12). Also: every title line appended to the pending paragraph is committed before the next token is read (R6.14), and end_testcase leaves no parsed exit code behind (R6.13). Also (R6.15): document lines reach the tokens verbatim - the line source returns the Lines::next item itself and token fields hold the read line copied only. Also (R6.16, F28): blanks around the fence's info string decide nothing (language trimmed on both ends, configuration at its end); the stored inline configuration is the info string's `{..}` text minus the outer pair, otherwise uncut (shared with C17 R17.5). R6.13 also demands that inside the parser's loop no end_testcase call is guarded by a query of the line parser's own state (close-not-state-dependent). The shared line parser rules also demand that a `> ` line extends a command only when one was started (continuation-needs-command). Also (R6.17, F49/F54): the VerbatimCodeBlock arm clears the pending title; a configuration not enclosed in braces is stored as it is and reported by the parser.", 'C08': " Also: the canonical rendering's ` (escaped)` decision (has_unprintable) and its rendering (escaped_printable) classify characters identically. Also (R8.7): a rule that decodes escapes in make() unmakes to the decoded bytes its matches() compares with. Also (R8.4): the writer marks an equal expectation explicitly (`{expr} (equal)`) when its text ends like a modifier. Also (R8.8): parse hands the line to extract unchanged. Also (R8.9, F35): reader `\\s(` and the writer's ends_like_modifier use the same separator class. Also (R8.10): the `escaped` kind always doubles backslashes (F47); one escaped rendering for all kinds is reported (known finding F48). R8.9 also evaluates the writer's per-character test of the trailing group for every character of the registered kind names (`no-eol` has a hyphen).", 'C09': " Also: the escape-introducer and marker rules shared with C11, the sibling agreement of the three character-class predicates, ` (no-eol)` never after ` (escaped)` (guard as in OutputStream::to_output_string), and the command written back without trim/replace; ` (no-eol)` never after ` (escaped)`; writer/reader syntax-class cross-check (R9.8). Also (R9.9, shared with C06 R6.9): the parser closes a block on a column-0 prefix test - what the writer's max_backtick_size measures. Also (R9.4): a non-zero exit code is always written. Also (R9.10, F32): the InvalidExitCode arm regenerates the expectations from output.stderr exactly on output_stream == Some(Stderr). R9.8 has a fifth class while the reader drops a trailing ` (no-eol)` from escaped expressions (known finding F43). R9.10 also demands that the InvalidExitCode arm writes none of the old expectations back (validation returns that error before it diffs).", 'C10': " Also: the stored original flows from the line through trim_newlines only, parser and update generator agree on which blocks carry a test case, commands are written back verbatim and re-read with the exact `$ `/`> ` prefixes. Also (R10.9): the update command builds its parser and its Markdown update generator from the same whole markdown_languages list. Also (R10.10, shared with C06 R6.9): writer/reader fence agreement. Also (R10.8, F26): the update generator consumes an outcome exactly for blocks with a code line starting with the parser's command-start literal (bound by role in LineParser::add_testcase_body). Also (R10.11, shared with C06 R6.15): lines verbatim. Also (R10.12): assure_newline - how every kept line is written back - names no character but `\\n` and calls no trimming. R10.1 (F29): the front-matter is re-emitted between two literal `---\\n` writes, no literal write begins with a line feed. Also (R10.13, F55): where the exit code was the expected one (Ok / MalformedOutput arm) an `[n]` line is written for n != 0 or for the zero the test spells out itself, and that spelled-out `[0]` is written again. R10.1 also demands that assure_newline is applied to single kept lines, never to a joined text.", 'C11': " Also: the escape decision, the backslash-doubling flag and has_unprintable use one character class, and Escaper dispatches each mode to its own functions. The ` (escaped)` decision is accepted in three forms (comparison, comparison inside a helper, has_unprintable predicate that is true on invalid UTF-8); the per-character unit may be a closure or a loop body. Also (R11.6, shared with C08 R8.3): exactly one white space separates the expression from the trailing group in the reader's grammar.", 'C12': " Also: option dumps precede function/variable dumps, and the state directory path reaches the template unmodified in a double-quoted position. Also (R12.6): every name the template itself assigns or declares - including `local` in the trap function - is an excluded __SCRUT internal, so no user variable is shadowed in the dump. Also: the persisted state is sourced independently of {persist_state} (detached test cases see their predecessors' state). Also (R12.7): the `grep -Ev` filters of the variable dump are anchored at `^declare -`, have no unbounded wildcard in their flag part, and a table of representative `declare -p` lines (values with blanks, `r `, `=`, arrays) passes them while read-only and excluded variables are dropped. R12.4 also requires `>|` for the dump (F34), `builtin cd` / `builtin pushd` (F38) and OLDPWD written after the directory lines (F39). Also (R12.8): the persist handler is not shielded from a `trap .. EXIT` of the test itself (known finding F46).", 'C13': " Also: in the Cram script the user's expression is followed by an empty line before scrut's footer. Also: replace_crlf's per-byte guard structure (the only non-copying path is `byte == CR` and `bytes.get(index+1) == Some(&LF)`, R13.7), and the divider parser receives the line from the salted prefix on (R13.2). Also (R13.8, shared with C07 R7.2): `$ `/`> ` lines are stored after stripping exactly the prefix. Also (R13.9, shared with C16 R16.3): the transformation guards read the test case's effective configuration (layer order at every merge site). Also (R13.10): keep_crlf / strip_ansi_escaping / output_stream are merged receiver-first from their own field. Also (R13.11): compile_testcase rejects test cases that disagree on keep_crlf / output_stream. Also (R13.12, shared with C20 R20.3): one Output per loop iteration incl. the Detached placeholder. Also (R13.13, F50): remove_dividers_from_output puts the kept lines together without a separator.", 'C14': " Also: the remaining document time is deadline.map(total saturating subtraction) (never `no limit` after the deadline), and Popen::kill dominates every ExitStatus::Timeout result. Also: nothing is subtracted from the selected minimum before it is stored as the test case's limit (R14.2 store-unmodified). R14.8 demands SIGKILL (Popen::kill): SIGTERM can be trapped by the test's shell expression and the unbounded wait() then lasts until the command is done. Also (R14.9, F31): with a timeout set no unbounded Popen::wait is reached before a kill. R14.4 also demands that ExecutionError::Timeout is constructed only in the arm of a timed-out output. Also (R14.10, shared with C20 R20.4): positional zips in the Timeout arm. R14.9 also requires that wait_timeout receives the limit minus the elapsed time. Also (R14.11, F52/F53): the wait is bounded by what is left of the document's time and precedes the selection of the effective timeout; the deadline is computed with checked_add.", 'C15': " Also: the compared skip code is looked up on the test case of the current loop iteration. Also: compile_testcase carries the test cases' skip_document_code into the compiled Cram test case. Also (sufficiency): once the exit code equals the skip code every path constructs Skipped. Also (R15.5, shared with C16 R16.1): `skip_document_code` is merged receiver-first, unconditionally. Also (R15.6): compile_testcase rejects test cases that disagree on skip_document_code. Also (R15.7, F44): in single-script execution the skip scan of the divided output precedes the script-level Timeout verdict; R15.1 accepts a scan closure that sets its flag only under `exit_code == skip code`.", 'C16': ' Also: each key of the command-line layer is control-dependent only on its own flag(s). Also (R16.6): no clap default on any flag that feeds the command-line layer (an absent flag leaves its key unset; read from the derive expansion). Loop-carried merges (`v = v.merge(x)` inside the token loop) are classified by treating the cut self reference as the neutral layer. List merges (append / prepend) are checked for the documented order in every recognised form (chain+collect, extend idiom, array concat, local closure).', 'C18': " Also: the bash state file is written inside the owned TempDir (path unmodified, double-quoted position) and a timed-out child is killed so that it cannot re-create removed directories; the variables scrut sets per test case against the exclusion list of the persisted state (R18.6, known finding F20). Also (R18.7): scrut's EXIT handler is armed at exactly one template statement and never dumped into the persisted state (no `trap -p`). Also (R18.8): the environment map reaches Exec::env_extend copied / extended only, never filtered. Also (R18.9): TESTFILE / TESTDIR come from split_path_abs, which takes the file name from the path as given and resolves only the parent directory.", 'C20': ' Also: every zip(outputs, testcases) is positional (no filter/skip on either side) and no Result of the document discovery/reading layer is dropped or logged-and-skipped. Also (R20.7): every increment of the per-document failed count passes `total += count` before the next document / the exit decision; counters are bound by use, not by name. Also (R20.8): no `continue` in the documents loop bypasses execute_all, except on emptiness of the accumulated prepend + own + append list. Also (R20.9, shared with C14 R14.4): executor / test command contract - ExecutionError::Timeout only from a timed-out output, so a failure is counted and exit 50 follows. Also (R20.10, shared with C16 R16.1): prepend / append accumulate own and inherited list. Also (R20.11, F51): every TestCase::validate in the test command sits behind a test for Detached.', 'C02': " C01's accounting obligations (cursors move only past recorded lines/expectations; ranged Matched records non-empty for non-optional expectations) are reported under C02 as well. Also (R2.6): Diff::new keeps every record it is given (no filter / retain / dedup on the way into `lines`).", 'C01': ' Also: a ranged Matched record covers at least one line unless the expectation is optional; has_differences may equivalently be `count_matched < lines.len()` if Diff::new counts exactly one per Matched record. Also (R1.8, shared with C04 R4.2): per Rule impl the line reaches the whole-line comparator through the documented transforms only. Also (R1.9): the text the rules compare is the line without its line feed(s) only - trim_newlines / ends_in_newline name no character but `\\n` and call no whitespace trimming. The contracted `for i in E..X` loop over skipped expectations must be left by iterator exhaustion only (ranged-complete). Also (R1.10, shared with C02 R2.6): Diff::new keeps every record, so has_differences sees everything DiffTool::diff recorded.', 'C07': ' Also (R7.5): no unwrap/expect on a fallible text conversion (parse, from_str, from_utf8 ..) in parsers / expectation / rules / config. Also (R7.6): every Ok path of LineParser::end_testcase flushes the state or resets the parsed exit code. Also: the `> ` continuation is honoured only directly after a command line (in-command flag reset on every other accepted line). Also (R7.1 empty-always-ends, F33): at an empty line end_testcase is passed on every path to the next line; close-not-state-dependent as in C06. Also: continuation-needs-command (a `> ` line is stored only onto a command that has a start).', 'C17': " Also: both durations reach humantime::format_duration through projections only, also through a local closure or helper (no arithmetic). Also (R17.6): the front-matter delimiter is written and read as exactly `---`. R17.5 also requires that the tokenizer stores the inline configuration uncut (two strips only, no search for a closing brace). Also (R17.7): is_empty looks at every field. Also (R17.8, F36/F37): the quoted form escapes U+007F..U+009F; the default-timeout omission compares the whole duration. Also (R17.9): no deserializer in src/config.rs buffers through serde's typed `Content` (untagged enums), because the writer leaves plain number-like values unquoted.", 'C04': " Also (R4.6): every matcher in src/rules is built with the regex crate's default semantics (no unicode(false) / case_insensitive / multi_line on a builder). Also (R4.7): the regex clean-up keeps the backslash before every metacharacter (decided by per-character case folding). Also (R4.8, shared with C01 R1.9): every rule kind compares the line without its line feed(s) only. Also (R4.9, F40/F42): the quantifier clean-up's pattern constant is evaluated on a table ({n}, {n,m}, {n,} in; malformed forms out); hex / octal digits are validated before from_str_radix. R4.5's decoder table reads the default arm as `ch, ch2:utf8` (F41). R4.9 also demands that the expression of an escaped glob is decoded strictly (no from_utf8_lossy in apply_escaped_filter_utf8).", 'C05': " Also (R5.6, shared with C16 R16.3): the executor's merge keeps the test case layer above the document defaults, so execution and validation see the same output_stream. Also (R5.7): the bash wrapper handles no signal (its handler is armed for EXIT only), so death by signal stays visible as Signaled => Unknown. R5.4b accepts an expired bounded wait (Popen::wait_timeout) as a timeout. Also (R5.8, shared with C13 R13.11): in single-script execution test cases that disagree on output_stream are rejected by compile_testcase. Also (R5.9, shared with C06 R6.13 / C07 R7.6): no parsed exit code line survives the end of a block / run. Also (R5.10, shared with C20 R20.11): validate is never called on a detached execution's placeholder output."}

PENDING = "static rules for this property are designed (DESIGN.md §4) but not yet implemented in this revision"


def main():
    props = [json.loads(l) for l in open(os.path.join(HERE, "properties.jsonl"))]
    checks, na = [], []
    for p in props:
        pid = p["id"]
        if pid in CLAIMS and os.path.exists(os.path.join(HERE, "analysis", "rules", pid.lower() + ".py")):
            text, rest, ref = CLAIMS[pid]
            text = text + EXTRAS.get(pid, "")
            checks.append({
                "property_id": pid,
                "quick_cmd": "./vcheck %s --tier quick" % pid,
                "thorough_cmd": "./vcheck %s --tier thorough" % pid,
                "evidence_file": "/verif/evidence/%s.json" % pid,
                "replay_cmd_template": "./vcheck %s --explain {path}" % pid,
                "engine": "mirfacts+analysis",
                "level_claimed": {
                    "category": "other",
                    "text": "Repository-specific static analysis over the type-checked MIR of the current source (no execution). " + text +
                            " It decides these structural clauses (necessary conditions of the property) for every path/site of the current "
                            "source; it does not decide the behavioural remainder. " + rest,
                    "design_ref": ref,
                },
                "level_note": NOTE + rest,
                "technique": "static analysis: custom rustc_private MIR fact exporter + repository-specific path/site/flow/table rules",
            })
        else:
            na.append({"property_id": pid, "reason": PENDING})
    sha = subprocess.run(["git", "-C", "/repo", "log", "--format=%h %s"], stdout=subprocess.PIPE, text=True).stdout.splitlines()
    fixes = [l.split()[0] for l in sha if l.split(" ", 1)[1].startswith("fix:")]
    m = {
        "version": 1,
        "setup_cmd": "./setup.sh",
        "hooks": {
            "guard": "scrut_verif",
            "enable": "none needed: the analysis reads the MIR of the unmodified crates (guard name reserved, no hook commits)",
            "baseline_off_cmd": "cd /repo && cargo test --workspace --no-fail-fast --offline",
            "source_commits": [],
            "add_only": True,
        },
        "engines": [
            {"name": "mirfacts", "path": "/verif/driver", "serves_properties": [c["property_id"] for c in checks],
             "kind_free_text": "rustc_private driver (nightly) exporting resolved MIR, ADTs, impls and evaluated constants as JSON"},
            {"name": "analysis", "path": "/verif/analysis", "serves_properties": [c["property_id"] for c in checks],
             "kind_free_text": "Python rule engines over the facts: must-pass-through paths, who-may-construct sites, value-flow origin trees, typestate simulation, table cross-checks"},
        ],
        "checks": checks,
        "not_applicable": na,
        "notes": "fix: commits in /repo (genuine defects repaired, see known_findings.jsonl): " + ", ".join(fixes),
    }
    with open(os.path.join(HERE, "MANIFEST.json"), "w") as fh:
        json.dump(m, fh, indent=1)
    print("claimed:", [c["property_id"] for c in checks], "na:", len(na))


if __name__ == "__main__":
    main()
