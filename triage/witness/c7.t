title one
  $ echo a
  a
  $ echo b
  b
