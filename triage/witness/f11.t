divider:
  $ echo "~~~~~~~~EXECDIVIDER::x::0::0"; echo after
  ~~~~~~~~EXECDIVIDER::x::0::0
  after
