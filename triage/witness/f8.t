Command executes successfully
  $ printf "a\n\n"
  a
