use std::sync::Arc;
use scrut::config::TestCaseConfig;
use scrut::expectation::ExpectationMaker;
use scrut::parsers::markdown::{MarkdownParser, DEFAULT_MARKDOWN_LANGUAGES};
use scrut::parsers::parser::Parser;
use scrut::rules::registry::RuleRegistry;
fn main() {
    for v in ["plain", "a\"b", "a\\tb", "x: y # z"] {
        let mut c = TestCaseConfig::empty();
        c.environment.insert("FOO".into(), v.into());
        let one = c.to_yaml_one_liner();
        let doc = format!("# t\n\n```scrut {}\n$ true\n```\n", one);
        let p = MarkdownParser::new(Arc::new(ExpectationMaker::new(RuleRegistry::default())), DEFAULT_MARKDOWN_LANGUAGES, Some(TestCaseConfig::empty()));
        match p.parse(&doc) {
            Ok((_, t)) => println!("{:?} -> {} -> parsed FOO={:?} equal={}", v, one, t[0].config.environment.get("FOO"), t[0].config.environment.get("FOO").map(|s| s.as_str()) == Some(v)),
            Err(e) => println!("{:?} -> {} -> PARSE ERROR {:#}", v, one, e),
        }
    }
}
